//! D5 controls: an escape accumulator that is / is not emptied after it was decoded.
fn decode(s: &str) -> Option<char> {
    u32::from_str_radix(s, 16).ok().and_then(char::from_u32)
}

pub fn ctl_stale_buffer(input: &str) -> String {
    let mut out = String::new();
    let mut digits = String::new();
    let mut in_escape = false;
    for c in input.chars() {
        if in_escape {
            if c == '}' {
                if let Some(v) = decode(digits.as_str()) {
                    out.push(v);
                }
                in_escape = false;
            } else if c != '{' {
                digits.push(c);
            }
        } else if c == '\\' {
            in_escape = true;
        } else {
            out.push(c);
        }
    }
    out
}

pub fn ok_reset_buffer(input: &str) -> String {
    let mut out = String::new();
    let mut digits = String::new();
    let mut in_escape = false;
    for c in input.chars() {
        if in_escape {
            if c == '}' {
                if let Some(v) = decode(digits.as_str()) {
                    out.push(v);
                }
                digits = String::new();
                in_escape = false;
            } else if c != '{' {
                digits.push(c);
            }
        } else if c == '\\' {
            in_escape = true;
        } else {
            out.push(c);
        }
    }
    out
}
