//! G6 controls: following parent links upwards.
pub struct P {
    pub parent: Option<usize>,
}
impl P {
    pub fn get_parent(&self) -> Option<usize> {
        self.parent
    }
}

pub fn ctl_walk_without_cap(nodes: &[P], start: usize) -> Result<usize, String> {
    let mut at = start;
    while let Some(n) = nodes.get(at) {
        match n.get_parent() {
            Some(p) => at = p,
            None => break,
        }
    }
    Ok(at)
}

pub fn ok_walk_with_cap(nodes: &[P], start: usize) -> Result<usize, String> {
    let mut at = start;
    let mut count = 0;
    while let Some(n) = nodes.get(at) {
        match n.parent {
            Some(p) => at = p,
            None => break,
        }
        count += 1;
        if count > nodes.len() {
            return Err("parent chain loops".to_string());
        }
    }
    Ok(at)
}
