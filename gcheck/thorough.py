"""Thorough tier: second build configuration, clippy cross-reference of the panic inventory, seeded mutants."""
import glob
import json
import os
import re
import shutil
import subprocess
import tempfile
import time
from concurrent.futures import ThreadPoolExecutor

from . import facts, cg
from .props import PROPS, RULES

SEEDED_DIRS = [os.path.join(facts.VERIF, "seeded"), os.path.join(facts.VERIF, "mutants")]
CLIPPY_LINTS = ["indexing_slicing", "string_slice", "unwrap_used", "expect_used", "panic", "todo", "unimplemented", "unreachable"]


class MiniCtx:
    def __init__(self, F, repo, tier="quick"):
        self.F = F
        self.repo = repo
        self.tier = tier
        self.memo = {}


def finding_keys(ctx, rule_ids):
    keys = {}
    for rid in rule_ids:
        r = RULES[rid](ctx)
        for f in r.findings:
            keys[f.key] = f
    return keys


def second_config(ctx, prop, pdef, results, extra):
    """Re-run the property's rules with --all-features (serde derives) and add findings not seen in the default build."""
    t0 = time.time()
    try:
        F2, d2 = facts.load("all", repo=ctx.repo)
    except facts.ExtractionError as e:
        # is the configuration buildable at all?  (at the pinned commit the `serde` feature of the data crate does not compile)
        marker = os.path.join(facts.CACHE, facts.tree_hash("all", ctx.repo) + ".unbuildable")
        if os.path.exists(marker):
            extra["configs"] = [{"config": "default features", "bodies": len(ctx.F.fns)},
                                {"config": "--all-features", "status": "not buildable on this tree (cached verdict): " + open(marker).read()[:200]}]
            return []
        td = tempfile.mkdtemp(prefix="gallf-target-")
        try:
            pr = subprocess.run(["cargo", "+nightly", "check", "--offline", "--workspace", "--all-features"], cwd=ctx.repo,
                                env=dict(os.environ, CARGO_TARGET_DIR=td, CARGO_NET_OFFLINE="true"), stdout=subprocess.PIPE, stderr=subprocess.STDOUT, text=True)
        finally:
            shutil.rmtree(td, ignore_errors=True)
        if pr.returncode != 0:
            open(marker, "w").write(pr.stdout[-300:])
            extra["configs"] = [{"config": "default features", "bodies": len(ctx.F.fns)},
                                {"config": "--all-features", "status": "not buildable: plain `cargo check --workspace --all-features` fails on this tree too, so there is no second configuration to analyse",
                                 "detail": pr.stdout[-300:]}]
            return []
        extra["configs"] = [{"config": "--all-features", "error": str(e)[-400:]}]
        return ["extraction with --all-features failed although the configuration builds: %s" % str(e)[-200:]]
    c2 = MiniCtx(F2, ctx.repo, "thorough")
    have = set(f.key for r in results for f in r.findings)
    added = 0
    for rid in pdef["rules"]:
        r2 = RULES[rid](c2)
        for f in r2.findings:
            if f.key not in have:
                have.add(f.key)
                f.msg += " [only with --all-features]"
                for r in results:
                    if r.id == rid:
                        r.findings.append(f)
                        added += 1
    extra["configs"] = [{"config": "default features", "bodies": len(ctx.F.fns)},
                        {"config": "--all-features", "bodies": len(F2.fns), "extra_findings": added, "wall_s": round(time.time() - t0, 1)}]
    return []


def clippy_sites(repo):
    """(file, line, lint) for the restriction lints that name panic-capable constructs, non-test code only."""
    td = tempfile.mkdtemp(prefix="gclippy-target-")
    try:
        env = dict(os.environ, CARGO_TARGET_DIR=td, CARGO_NET_OFFLINE="true")
        args = ["cargo", "+nightly", "clippy", "--offline", "--workspace", "--message-format=json", "--"]
        for l in CLIPPY_LINTS:
            args += ["-W", "clippy::" + l]
        r = subprocess.run(args, cwd=repo, env=env, stdout=subprocess.PIPE, stderr=subprocess.PIPE, text=True)
        out = []
        for line in r.stdout.splitlines():
            if not line.startswith("{"):
                continue
            try:
                m = json.loads(line)
            except ValueError:
                continue
            msg = m.get("message") or {}
            code = (msg.get("code") or {}).get("code") or ""
            if not code.startswith("clippy::") or code[8:] not in CLIPPY_LINTS:
                continue
            for sp in msg.get("spans", []):
                if sp.get("is_primary"):
                    out.append((sp["file_name"], sp["line_start"], code[8:]))
        return out, r.returncode
    finally:
        shutil.rmtree(td, ignore_errors=True)


def clippy_crossref(ctx, prop, extra):
    """Completeness of the extractor's panic inventory: every clippy site inside a reachable function must be a site
    (same function) of the inventory."""
    from . import rules_cg

    comp, run = cg.entry_sets(ctx.F)
    roots, tag = (comp, "compile") if prop == "C03" else (run, "run")
    reach, inv, _parent = rules_cg.inventory(ctx, roots, tag)
    sites, rc = clippy_sites(ctx.repo)
    # function line ranges
    ranges = []
    for p in reach:
        f = ctx.F.fns[p]
        fn_file = f["span"].split(":")[0]
        start = int(f["span"].split(":")[1])
        end = int(f["hir"]["sp"].split("-")[-1].split(":")[0]) if "sp" in f["hir"] else start
        ranges.append((fn_file, start, end, p))
    missing = []
    matched = 0
    first_test_line = {}
    for file, line, lint in sites:
        # skip #[cfg(test)] parts of a file: the facts only contain non-test bodies, so a site outside every dumped body is test code or unreachable
        owners = [p for (ff, s, e, p) in ranges if ff == file and s <= line <= e]
        if not owners:
            continue
        # innermost owner
        owner = min(owners, key=lambda p: len(ctx.F.fns[p]["hir"].get("sp", "")))
        lines_here = set()
        for o in owners:
            for kd, ss in inv.get(o, {}).items():
                for where, _t in ss:
                    lines_here.add(int(where.rsplit(":", 1)[1]))
        if line in lines_here:
            matched += 1
        else:
            missing.append({"file": file, "line": line, "lint": lint, "function": owner})
    extra["cross_reference"] = {"tool": "cargo +nightly clippy (restriction lints %s)" % ", ".join(CLIPPY_LINTS), "clippy_sites_total": len(sites),
                                "clippy_sites_in_reachable_functions_matched": matched, "unmatched": missing[:20], "clippy_exit": rc}
    return ["panic inventory misses %d site(s) clippy reports inside reachable functions, e.g. %s" % (len(missing), missing[0])] if missing else []


def _copy_repo(src):
    d = tempfile.mkdtemp(prefix="gmutant-")
    subprocess.run(["rsync", "-a", "--exclude", "target", "--exclude", ".git", "--exclude", "SEED", src.rstrip("/") + "/", d + "/"], check=True)
    return d


def run_mutant(mdir, base_keys_by_prop):
    meta = json.load(open(os.path.join(mdir, "meta.json")))
    patch = os.path.join(mdir, "patch.diff")
    d = _copy_repo(facts.REPO)
    try:
        r = subprocess.run(["patch", "-p1", "-s", "--no-backup-if-mismatch", "-i", patch], cwd=d, stdout=subprocess.PIPE, stderr=subprocess.STDOUT, text=True)
        if r.returncode != 0:
            return {"id": os.path.basename(mdir), "status": "patch-does-not-apply", "detail": r.stdout[-300:]}
        try:
            F, fd = facts.load("", repo=d)
        except facts.ExtractionError as e:
            return {"id": os.path.basename(mdir), "status": "does-not-compile", "detail": str(e)[-300:]}
        c = MiniCtx(F, d)
        res = {"id": os.path.basename(mdir), "property": meta.get("property"), "status": "missed", "new_findings": []}
        props = meta.get("check_properties") or [meta.get("property")]
        for prop in props:
            if prop not in PROPS:
                continue
            keys = finding_keys(c, PROPS[prop]["rules"])
            new = [k for k in keys if k not in base_keys_by_prop.get(prop, set())]
            if new:
                res["status"] = "detected"
                res["new_findings"].extend(["%s: %s" % (prop, k) for k in new[:4]])
        return res
    finally:
        shutil.rmtree(d, ignore_errors=True)


def mutants(ctx, prop, pdef, results, extra):
    """Apply every seeded change recorded for this property to a scratch copy; the property's rules must report a finding
    that the unchanged tree does not have (unless the catalogue records the mutant as a known miss)."""
    dirs = []
    for base in SEEDED_DIRS:
        for m in sorted(glob.glob(os.path.join(base, "*", "meta.json"))):
            meta = json.load(open(m))
            if prop in (meta.get("check_properties") or [meta.get("property")]):
                dirs.append(os.path.dirname(m))
    if not dirs:
        extra["mutants"] = {"run": 0}
        return []
    base = {prop: set(f.key for r in results for f in r.findings)}
    # other properties named by the catalogue entries need their own baseline
    out = []
    problems = []
    with ThreadPoolExecutor(max_workers=4) as ex:
        for res in ex.map(lambda d: run_mutant_for(d, prop, base[prop]), dirs):
            out.append(res)
    for res in out:
        meta = json.load(open(os.path.join([d for d in dirs if os.path.basename(d) == res["id"]][0], "meta.json")))
        expect = meta.get("expected", {}).get(prop, meta.get("expected_default", "detected"))
        res["expected"] = expect
        if res["status"] != expect and not (expect == "missed" and res["status"] == "detected"):
            problems.append("seeded change %s: expected %s by %s, got %s" % (res["id"], expect, prop, res["status"]))
    extra["mutants"] = {"run": len(out), "detected": sum(1 for r in out if r["status"] == "detected"), "results": out}
    return problems


def run_mutant_for(mdir, prop, base_keys):
    meta = json.load(open(os.path.join(mdir, "meta.json")))
    patch = os.path.join(mdir, "patch.diff")
    d = _copy_repo(facts.REPO)
    try:
        r = subprocess.run(["patch", "-p1", "-s", "--no-backup-if-mismatch", "-i", patch], cwd=d, stdout=subprocess.PIPE, stderr=subprocess.STDOUT, text=True)
        if r.returncode != 0:
            return {"id": os.path.basename(mdir), "status": "patch-does-not-apply", "detail": r.stdout[-300:]}
        try:
            F, fd = facts.load("", repo=d)
        except facts.ExtractionError as e:
            return {"id": os.path.basename(mdir), "status": "does-not-compile", "detail": str(e)[-300:]}
        c = MiniCtx(F, d)
        keys = finding_keys(c, PROPS[prop]["rules"])
        new = [k for k in keys if k not in base_keys]
        return {"id": os.path.basename(mdir), "status": "detected" if new else "missed", "new_findings": new[:4], "what": meta.get("summary", "")}
    finally:
        shutil.rmtree(d, ignore_errors=True)


def run_patch_all(pdir, props, base_keys_by_prop):
    """Apply pdir/patch.diff to a scratch copy and run the rules of all `props`; returns the finding keys per property that
    the unchanged tree does not have (used for the benign-refactor corpus: every such key is a false alarm)."""
    d = _copy_repo(facts.REPO)
    try:
        r = subprocess.run(["patch", "-p1", "-s", "--no-backup-if-mismatch", "-i", os.path.join(pdir, "patch.diff")], cwd=d, stdout=subprocess.PIPE, stderr=subprocess.STDOUT, text=True)
        if r.returncode != 0:
            return {"error": "patch does not apply: " + r.stdout[-300:]}
        try:
            F, fd = facts.load("", repo=d)
        except facts.ExtractionError as e:
            return {"error": "does not compile: " + str(e)[-300:]}
        c = MiniCtx(F, d)
        new = {}
        memo = {}
        for prop in props:
            ks = []
            for rid in PROPS[prop]["rules"]:
                if rid not in memo:
                    try:
                        memo[rid] = [f.key for f in RULES[rid](c).findings]
                    except Exception as e:  # a crashing rule is a broken check, report it as such
                        memo[rid] = ["%s|<crash>|%s: %s" % (rid, type(e).__name__, str(e)[:120])]
                ks.extend(memo[rid])
            nk = [k for k in ks if k not in base_keys_by_prop.get(prop, set())]
            if nk:
                new[prop] = nk
        return {"new": new}
    finally:
        shutil.rmtree(d, ignore_errors=True)


def run(ctx, prop, pdef, results, extra, broken):
    broken.extend(second_config(ctx, prop, pdef, results, extra))
    if prop in ("C03", "C07"):
        broken.extend(clippy_crossref(ctx, prop, extra))
    broken.extend(mutants(ctx, prop, pdef, results, extra))
