#!/usr/bin/env python3
"""Regenerate MANIFEST.json from gcheck/props.py (claims) so the two never drift."""
import json, os, sys
sys.path.insert(0, os.path.dirname(os.path.dirname(os.path.abspath(__file__))))
from gcheck.props import PROPS, NOT_APPLICABLE, TECHNIQUE

ALL = ["C%02d" % i for i in range(1, 21)]
checks = []
for p in ALL:
    if p not in PROPS:
        continue
    d = PROPS[p]
    checks.append({
        "property_id": p,
        "quick_cmd": "./check %s --tier quick" % p,
        "thorough_cmd": "./check %s --tier thorough" % p,
        "evidence_file": "evidence/%s.json" % p,
        "replay_cmd_template": "./check %s --explain {path}" % p,
        "engine": "gcheck",
        "level_claimed": {
            "category": "other",
            "text": d["claim"],
            "design_ref": "DESIGN.md section 4, %s; rules %s in section 3" % (p, " ".join(d["rules"])),
        },
        "level_note": "Static rule checking over the type-checked program (rustc HIR/MIR via a rustc_private driver); decides the "
                      "named structural clauses on every path/arm/call site of the current tree, not the behaviour. Trusted: rustc's "
                      "HIR/MIR and name resolution, the gfacts serialiser, spec/*.json reference tables, allow/*.json reviewed "
                      "instances. " + d.get("note", ""),
        "technique": "static analysis: " + TECHNIQUE.get(p, ", ".join(d["rules"])),
    })
na = [{"property_id": p, "reason": NOT_APPLICABLE[p]} for p in ALL if p not in PROPS]
m = {
    "version": 1,
    "setup_cmd": "cd tools/gfacts && cargo build --release --offline && cd ../.. && ./check --selftest",
    "hooks": {
        "guard": "garnish_lang_garnish_core_verif",
        "enable": "none needed: the analysis reads the unmodified tree (no instrumentation hooks in /repo)",
        "baseline_off_cmd": "cd /repo && cargo test --workspace --no-fail-fast --offline",
        "source_commits": [],
        "add_only": True,
    },
    "engines": [
        {"name": "gfacts", "path": "tools/gfacts", "serves_properties": [c["property_id"] for c in checks],
         "kind_free_text": "rustc_private driver (nightly) injected with RUSTC_WORKSPACE_WRAPPER under cargo +nightly check; dumps resolved HIR trees and MIR CFGs of every body as JSON facts"},
        {"name": "gcheck", "path": "gcheck", "serves_properties": [c["property_id"] for c in checks],
         "kind_free_text": "Python rule engines over the facts: HIR table/arm queries, resolved call graph, path-sensitive abstract interpretation of MIR, origin/unit analyses"},
    ],
    "checks": checks,
    "not_applicable": na,
    "notes": "All checks are static analyses of /repo's current working tree (facts cached under .cache keyed by a hash of every source file). Exit 2 = checker broken (positive control missed / extraction failed).",
}
json.dump(m, open(os.path.join(os.path.dirname(os.path.dirname(os.path.abspath(__file__))), "MANIFEST.json"), "w"), indent=1)
print("MANIFEST.json: %d checks, %d not applicable" % (len(checks), len(na)))
