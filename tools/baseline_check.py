#!/usr/bin/env python3
"""Run the repository's test suite (cargo test fallback of BASELINE.json) in /repo (or $1) and verify that every
stable_pass test of /root/.vp/BASELINE.json still passes.  Exit 0 iff all 1500 pass."""
import json, re, subprocess, sys
repo = sys.argv[1] if len(sys.argv) > 1 else "/repo"
b = json.load(open("/root/.vp/BASELINE.json"))
r = subprocess.run(["cargo", "test", "--workspace", "--no-fail-fast", "--offline"], cwd=repo, stdout=subprocess.PIPE, stderr=subprocess.STDOUT, text=True)
log = r.stdout
ok = set(re.findall(r"^test (\S+) \.\.\. ok", log, re.M))
def norm(n):
    n = n.split("::", 1)[1]
    if n.startswith("mod::") or n.startswith("runtime_impls::"):
        n = n.split("::", 1)[1]
    return n
missing = [n for n in b["stable_pass"] if norm(n) not in ok]
print("stable_pass: %d, passing now: %d, missing/failing: %d" % (len(b["stable_pass"]), len(b["stable_pass"]) - len(missing), len(missing)))
for n in missing[:40]:
    print("  NOT PASSING:", n)
if "could not compile" in log:
    print(log[-3000:])
sys.exit(1 if missing else 0)
