// gfacts: rustc_private fact extractor. Dumps resolved HIR trees and MIR CFGs of every
// body of the crate being compiled as one JSON file per crate/process under $GFACTS_OUT.
// It contains no rule; all rules are queries over its output (see /verif/gcheck).
#![feature(rustc_private)]
#![allow(clippy::all)]

extern crate rustc_abi;
extern crate rustc_ast;
extern crate rustc_driver;
extern crate rustc_hir;
extern crate rustc_interface;
extern crate rustc_middle;
extern crate rustc_span;

use rustc_driver::Compilation;
use rustc_hir as hir;
use rustc_hir::def::{DefKind, Res};
use rustc_hir::def_id::{DefId, LocalDefId};
use rustc_middle::mir;
use rustc_middle::ty::print::{with_crate_prefix, with_no_trimmed_paths, with_no_visible_paths};

macro_rules! pp {
    ($e:expr) => {
        with_crate_prefix!(with_no_visible_paths!(with_no_trimmed_paths!($e)))
    };
}

use rustc_middle::ty::{self, TyCtxt};
use rustc_span::Span;
use std::fmt::Write as _;

mod json;
use json::J;

struct Cb;

impl rustc_driver::Callbacks for Cb {
    fn after_analysis<'tcx>(&mut self, _c: &rustc_interface::interface::Compiler, tcx: TyCtxt<'tcx>) -> Compilation {
        let out = match std::env::var("GFACTS_OUT") {
            Ok(o) => o,
            Err(_) => return Compilation::Continue,
        };
        let krate = tcx.crate_name(rustc_hir::def_id::LOCAL_CRATE).to_string();
        if let Ok(only) = std::env::var("GFACTS_ONLY") {
            if !only.split(',').any(|c| c == krate) {
                return Compilation::Continue;
            }
        }
        let is_test = tcx.sess.is_test_crate();
        let d = Dumper { tcx };
        let j = d.dump_crate(&krate, is_test);
        let mut s = String::new();
        j.write(&mut s);
        let path = format!("{}/{}-{}.json", out, krate, std::process::id());
        std::fs::write(&path, s).expect("gfacts: cannot write fact file");
        Compilation::Continue
    }
}

struct Dumper<'tcx> {
    tcx: TyCtxt<'tcx>,
}

fn s(x: impl Into<String>) -> J {
    J::Str(x.into())
}

impl<'tcx> Dumper<'tcx> {
    fn path(&self, did: DefId) -> String {
        pp!((self.tcx.def_path_str(did)))
    }
    fn ty_s(&self, t: ty::Ty<'tcx>) -> String {
        pp!((format!("{}", t)))
    }
    fn span_s(&self, sp: Span) -> String {
        let sp = sp.source_callsite();
        let sm = self.tcx.sess.source_map();
        let lo = sm.lookup_char_pos(sp.lo());
        let hi = sm.lookup_char_pos(sp.hi());
        let name = match &lo.file.name {
            rustc_span::FileName::Real(r) => match r.local_path() {
                Some(p) => p.display().to_string(),
                None => format!("{:?}", lo.file.name),
            },
            other => format!("{:?}", other),
        };
        format!("{}:{}:{}-{}:{}", name, lo.line, lo.col.0 + 1, hi.line, hi.col.0 + 1)
    }
    fn exp_s(&self, sp: Span) -> J {
        if !sp.from_expansion() {
            return J::Null;
        }
        let mut names: Vec<String> = Vec::new();
        for d in sp.macro_backtrace() {
            names.push(format!("{}", d.kind.descr()));
            match d.kind {
                rustc_span::ExpnKind::Macro(_, n) => {
                    names.pop();
                    names.push(n.to_string());
                }
                rustc_span::ExpnKind::Desugaring(k) => {
                    names.pop();
                    names.push(format!("desugar:{:?}", k));
                }
                _ => {}
            }
        }
        if names.is_empty() {
            names.push("?".into());
        }
        J::Arr(names.into_iter().map(J::Str).collect())
    }

    fn dump_crate(&self, krate: &str, is_test: bool) -> J {
        let tcx = self.tcx;
        let mut fns = Vec::new();
        let mut owners: Vec<LocalDefId> = tcx.hir_body_owners().collect();
        owners.sort_by_key(|d| self.tcx.def_span(d.to_def_id()).lo());
        for ldid in owners {
            let did = ldid.to_def_id();
            let dk = tcx.def_kind(did);
            match dk {
                DefKind::Fn | DefKind::AssocFn | DefKind::Closure => {}
                _ => continue,
            }
            fns.push(self.dump_fn(ldid, dk));
        }
        let mut adts = Vec::new();
        for ldid in tcx.hir_crate_items(()).definitions() {
            let did = ldid.to_def_id();
            match tcx.def_kind(did) {
                DefKind::Enum | DefKind::Struct => {
                    let adt = tcx.adt_def(did);
                    let mut vars = Vec::new();
                    for v in adt.variants() {
                        let mut fields = Vec::new();
                        for f in v.fields.iter() {
                            let t = tcx.type_of(f.did).instantiate_identity().skip_norm_wip();
                            fields.push(J::Obj(vec![("name", s(f.name.to_string())), ("ty", s(self.ty_s(t)))]));
                        }
                        vars.push(J::Obj(vec![
                            ("name", s(v.name.to_string())),
                            ("path", s(self.path(v.def_id))),
                            ("fields", J::Arr(fields)),
                        ]));
                    }
                    adts.push(J::Obj(vec![
                        ("path", s(self.path(did))),
                        ("kind", s(if adt.is_enum() { "enum" } else { "struct" })),
                        ("span", s(self.span_s(tcx.def_span(did)))),
                        ("variants", J::Arr(vars)),
                    ]));
                }
                _ => {}
            }
        }
        J::Obj(vec![
            ("crate", s(krate)),
            ("is_test", J::Bool(is_test)),
            ("fns", J::Arr(fns)),
            ("adts", J::Arr(adts)),
        ])
    }

    fn dump_fn(&self, ldid: LocalDefId, dk: DefKind) -> J {
        let tcx = self.tcx;
        let did = ldid.to_def_id();
        let mut o: Vec<(&'static str, J)> = Vec::new();
        o.push(("path", s(self.path(did))));
        o.push(("kind", s(format!("{:?}", dk))));
        o.push(("span", s(self.span_s(tcx.def_span(did)))));
        // cfg(test) detection: any ancestor module carrying #[cfg(test)] is not compiled in lib
        // builds, so nothing to do here.
        if matches!(dk, DefKind::Fn | DefKind::AssocFn) {
            o.push(("vis", s(format!("{:?}", tcx.visibility(did)))));
            o.push(("name", s(tcx.item_name(did).to_string())));
        }
        if dk == DefKind::Closure {
            let parent = tcx.typeck_root_def_id(did);
            o.push(("parent", s(self.path(parent))));
        }
        if dk == DefKind::AssocFn {
            if let Some(imp) = tcx.impl_of_assoc(did) {
                let self_ty = tcx.type_of(imp).instantiate_identity().skip_norm_wip();
                o.push(("impl_self", s(self.ty_s(self_ty))));
                if let Some(tr) = tcx.impl_opt_trait_ref(imp) {
                    let tr = tr.instantiate_identity().skip_norm_wip();
                    o.push(("impl_trait", s(self.path(tr.def_id))));
                    // the trait item this method implements
                    if let Some(ti) = tcx.associated_item(did).trait_item_def_id() {
                        o.push(("trait_item", s(self.path(ti))));
                    }
                }
            } else if let Some(tr) = tcx.trait_of_assoc(did) {
                o.push(("trait_default", s(self.path(tr))));
            }
        }
        // signature
        {
            let body = tcx.hir_body_owned_by(ldid);
            let tr = tcx.typeck(ldid);
            let mut params = Vec::new();
            for p in body.params {
                params.push(self.pat(p.pat, tr));
            }
            o.push(("params", J::Arr(params)));
            o.push(("hir", self.expr(body.value, tr)));
        }
        o.push(("mir", self.mir(ldid)));
        o.push(("promoted", self.promoted(ldid)));
        J::Obj(o)
    }

    // ---------------------------------------------------------------- HIR

    fn res_j(&self, res: Res, o: &mut Vec<(&'static str, J)>) {
        match res {
            Res::Local(hid) => {
                o.push(("res", s("local")));
                o.push(("lid", J::Num(hid.local_id.as_u32() as i128)));
                o.push(("name", s(self.tcx.hir_name(hid).to_string())));
            }
            Res::Def(dk, did) => {
                o.push(("res", s("def")));
                o.push(("dk", s(format!("{:?}", dk))));
                let target = match dk {
                    DefKind::Ctor(..) => self.tcx.parent(did),
                    _ => did,
                };
                o.push(("def", s(self.path(target))));
            }
            Res::SelfCtor(did) | Res::SelfTyAlias { alias_to: did, .. } => {
                o.push(("res", s("self")));
                o.push(("def", s(self.path(did))));
            }
            other => {
                o.push(("res", s(format!("{:?}", other))));
            }
        }
    }

    fn qpath(&self, qp: &hir::QPath<'tcx>, hid: hir::HirId, tr: &'tcx ty::TypeckResults<'tcx>, o: &mut Vec<(&'static str, J)>) {
        let res = tr.qpath_res(qp, hid);
        self.res_j(res, o);
        // written form of the path, for diagnostics only
        let txt = match qp {
            hir::QPath::Resolved(_, p) => p.segments.iter().map(|s| s.ident.to_string()).collect::<Vec<_>>().join("::"),
            hir::QPath::TypeRelative(_, seg) => format!("<_>::{}", seg.ident),
        };
        o.push(("txt", s(txt)));
    }

    fn lit(&self, l: &hir::Lit) -> J {
        use rustc_ast::LitKind as K;
        match &l.node {
            K::Str(sym, _) => J::Obj(vec![("t", s("str")), ("v", s(sym.to_string()))]),
            K::ByteStr(b, _) | K::CStr(b, _) => J::Obj(vec![("t", s("bytes")), ("v", s(format!("{:?}", b.as_byte_str())))]),
            K::Byte(b) => J::Obj(vec![("t", s("byte")), ("v", J::Num(*b as i128))]),
            K::Char(c) => J::Obj(vec![("t", s("char")), ("v", s(c.to_string()))]),
            K::Int(n, _) => J::Obj(vec![("t", s("int")), ("v", J::Num(n.get() as i128))]),
            K::Float(sym, _) => J::Obj(vec![("t", s("float")), ("v", s(sym.to_string()))]),
            K::Bool(b) => J::Obj(vec![("t", s("bool")), ("v", J::Bool(*b))]),
            K::Err(_) => J::Obj(vec![("t", s("err"))]),
        }
    }

    fn pat_expr(&self, pe: &hir::PatExpr<'tcx>, tr: &'tcx ty::TypeckResults<'tcx>) -> J {
        let mut o: Vec<(&'static str, J)> = Vec::new();
        match &pe.kind {
            hir::PatExprKind::Lit { lit, negated } => {
                o.push(("k", s("Lit")));
                o.push(("lit", self.lit(lit)));
                o.push(("neg", J::Bool(*negated)));
            }
            hir::PatExprKind::Path(qp) => {
                o.push(("k", s("Path")));
                self.qpath(qp, pe.hir_id, tr, &mut o);
            }
            #[allow(unreachable_patterns)]
            _ => {
                o.push(("k", s("Other")));
            }
        }
        J::Obj(o)
    }

    fn pat(&self, p: &hir::Pat<'tcx>, tr: &'tcx ty::TypeckResults<'tcx>) -> J {
        use hir::PatKind as K;
        let mut o: Vec<(&'static str, J)> = Vec::new();
        let push_common = |o: &mut Vec<(&'static str, J)>| {
            if let Some(t) = tr.node_type_opt(p.hir_id) {
                o.push(("ty", s(self.ty_s(t))));
            }
            o.push(("sp", s(self.span_s(p.span))));
        };
        match &p.kind {
            K::Wild => o.push(("k", s("Wild"))),
            K::Missing => o.push(("k", s("Missing"))),
            K::Never => o.push(("k", s("Never"))),
            K::Binding(mode, hid, ident, sub) => {
                o.push(("k", s("Binding")));
                o.push(("lid", J::Num(hid.local_id.as_u32() as i128)));
                o.push(("name", s(ident.to_string())));
                o.push(("mode", s(format!("{:?}", mode))));
                if let Some(sp) = sub {
                    o.push(("sub", self.pat(sp, tr)));
                }
            }
            K::Struct(qp, fields, rest) => {
                o.push(("k", s("Struct")));
                self.qpath(qp, p.hir_id, tr, &mut o);
                let fs = fields
                    .iter()
                    .map(|f| J::Obj(vec![("name", s(f.ident.to_string())), ("pat", self.pat(f.pat, tr))]))
                    .collect();
                o.push(("fields", J::Arr(fs)));
                o.push(("rest", J::Bool(rest.is_some())));
            }
            K::TupleStruct(qp, pats, dd) => {
                o.push(("k", s("TupleStruct")));
                self.qpath(qp, p.hir_id, tr, &mut o);
                o.push(("pats", J::Arr(pats.iter().map(|x| self.pat(x, tr)).collect())));
                match dd.as_opt_usize() {
                    Some(n) => o.push(("dd", J::Num(n as i128))),
                    None => o.push(("dd", J::Null)),
                }
            }
            K::Or(pats) => {
                o.push(("k", s("Or")));
                o.push(("pats", J::Arr(pats.iter().map(|x| self.pat(x, tr)).collect())));
            }
            K::Tuple(pats, dd) => {
                o.push(("k", s("Tuple")));
                o.push(("pats", J::Arr(pats.iter().map(|x| self.pat(x, tr)).collect())));
                match dd.as_opt_usize() {
                    Some(n) => o.push(("dd", J::Num(n as i128))),
                    None => o.push(("dd", J::Null)),
                }
            }
            K::Box(x) | K::Deref(x) => {
                o.push(("k", s("Deref")));
                o.push(("pat", self.pat(x, tr)));
            }
            K::Ref(x, _, _) => {
                o.push(("k", s("Ref")));
                o.push(("pat", self.pat(x, tr)));
            }
            K::Expr(pe) => {
                o.push(("k", s("Expr")));
                o.push(("e", self.pat_expr(pe, tr)));
            }
            K::Guard(x, g) => {
                o.push(("k", s("Guard")));
                o.push(("pat", self.pat(x, tr)));
                o.push(("guard", self.expr(g, tr)));
            }
            K::Range(a, b, end) => {
                o.push(("k", s("Range")));
                o.push(("lo", a.map(|x| self.pat_expr(x, tr)).unwrap_or(J::Null)));
                o.push(("hi", b.map(|x| self.pat_expr(x, tr)).unwrap_or(J::Null)));
                o.push(("end", s(format!("{:?}", end))));
            }
            K::Slice(a, m, b) => {
                o.push(("k", s("Slice")));
                o.push(("before", J::Arr(a.iter().map(|x| self.pat(x, tr)).collect())));
                o.push(("mid", m.map(|x| self.pat(x, tr)).unwrap_or(J::Null)));
                o.push(("after", J::Arr(b.iter().map(|x| self.pat(x, tr)).collect())));
            }
            K::Err(_) => o.push(("k", s("Err"))),
        }
        push_common(&mut o);
        J::Obj(o)
    }

    fn block(&self, b: &hir::Block<'tcx>, tr: &'tcx ty::TypeckResults<'tcx>) -> J {
        let mut stmts = Vec::new();
        for st in b.stmts {
            match &st.kind {
                hir::StmtKind::Let(l) => {
                    let mut o: Vec<(&'static str, J)> = vec![("k", s("Let")), ("pat", self.pat(l.pat, tr))];
                    if let Some(i) = l.init {
                        o.push(("init", self.expr(i, tr)));
                    }
                    if let Some(e) = l.els {
                        o.push(("els", self.block(e, tr)));
                    }
                    o.push(("sp", s(self.span_s(st.span))));
                    stmts.push(J::Obj(o));
                }
                hir::StmtKind::Item(_) => {}
                hir::StmtKind::Expr(e) => stmts.push(J::Obj(vec![("k", s("Expr")), ("e", self.expr(e, tr))])),
                hir::StmtKind::Semi(e) => stmts.push(J::Obj(vec![("k", s("Semi")), ("e", self.expr(e, tr))])),
            }
        }
        J::Obj(vec![
            ("stmts", J::Arr(stmts)),
            ("expr", b.expr.map(|e| self.expr(e, tr)).unwrap_or(J::Null)),
        ])
    }

    fn expr(&self, e: &hir::Expr<'tcx>, tr: &'tcx ty::TypeckResults<'tcx>) -> J {
        use hir::ExprKind as K;
        let mut o: Vec<(&'static str, J)> = Vec::new();
        let k: &str;
        match &e.kind {
            K::ConstBlock(_) => k = "ConstBlock",
            K::Array(es) => {
                k = "Array";
                o.push(("es", J::Arr(es.iter().map(|x| self.expr(x, tr)).collect())));
            }
            K::Call(f, args) => {
                k = "Call";
                o.push(("f", self.expr(f, tr)));
                o.push(("args", J::Arr(args.iter().map(|x| self.expr(x, tr)).collect())));
            }
            K::MethodCall(seg, recv, args, _) => {
                k = "MethodCall";
                o.push(("m", s(seg.ident.to_string())));
                if let Some(did) = tr.type_dependent_def_id(e.hir_id) {
                    o.push(("def", s(self.path(did))));
                    let ga = tr.node_args(e.hir_id);
                    o.push(("gargs", J::Arr(ga.iter().map(|a| s(pp!((format!("{}", a))))).collect())));
                }
                o.push(("recv", self.expr(recv, tr)));
                o.push(("recv_ty", s(self.ty_s(tr.expr_ty_adjusted(recv)))));
                o.push(("args", J::Arr(args.iter().map(|x| self.expr(x, tr)).collect())));
            }
            K::Use(x, _) => {
                k = "Use";
                o.push(("e", self.expr(x, tr)));
            }
            K::Tup(es) => {
                k = "Tup";
                o.push(("es", J::Arr(es.iter().map(|x| self.expr(x, tr)).collect())));
            }
            K::Binary(op, a, b) => {
                k = "Binary";
                o.push(("op", s(op.node.as_str())));
                if let Some(did) = tr.type_dependent_def_id(e.hir_id) {
                    o.push(("def", s(self.path(did))));
                }
                o.push(("l", self.expr(a, tr)));
                o.push(("r", self.expr(b, tr)));
            }
            K::Unary(op, a) => {
                k = "Unary";
                o.push(("op", s(op.as_str())));
                if let Some(did) = tr.type_dependent_def_id(e.hir_id) {
                    o.push(("def", s(self.path(did))));
                }
                o.push(("e", self.expr(a, tr)));
            }
            K::Lit(l) => {
                k = "Lit";
                o.push(("lit", self.lit(l)));
            }
            K::Cast(x, _) => {
                k = "Cast";
                o.push(("e", self.expr(x, tr)));
                o.push(("from_ty", s(self.ty_s(tr.expr_ty(x)))));
            }
            K::Type(x, _) => {
                k = "Type";
                o.push(("e", self.expr(x, tr)));
            }
            K::DropTemps(x) => {
                k = "DropTemps";
                o.push(("e", self.expr(x, tr)));
            }
            K::Let(l) => {
                k = "LetExpr";
                o.push(("pat", self.pat(l.pat, tr)));
                o.push(("init", self.expr(l.init, tr)));
            }
            K::If(c, t, el) => {
                k = "If";
                o.push(("cond", self.expr(c, tr)));
                o.push(("then", self.expr(t, tr)));
                o.push(("else", el.map(|x| self.expr(x, tr)).unwrap_or(J::Null)));
            }
            K::Loop(b, label, src, _) => {
                k = "Loop";
                o.push(("body", self.block(b, tr)));
                o.push(("src", s(format!("{:?}", src))));
                o.push(("label", label.map(|l| s(l.ident.to_string())).unwrap_or(J::Null)));
            }
            K::Match(scrut, arms, src) => {
                k = "Match";
                o.push(("src", s(format!("{:?}", src).split('(').next().unwrap_or("").to_string())));
                o.push(("scrut", self.expr(scrut, tr)));
                let mut as_ = Vec::new();
                for a in *arms {
                    as_.push(J::Obj(vec![
                        ("pat", self.pat(a.pat, tr)),
                        ("guard", a.guard.map(|g| self.expr(g, tr)).unwrap_or(J::Null)),
                        ("body", self.expr(a.body, tr)),
                        ("sp", s(self.span_s(a.span))),
                    ]));
                }
                o.push(("arms", J::Arr(as_)));
            }
            K::Closure(c) => {
                k = "Closure";
                o.push(("def", s(self.path(c.def_id.to_def_id()))));
                let body = self.tcx.hir_body(c.body);
                o.push(("params", J::Arr(body.params.iter().map(|p| self.pat(p.pat, tr)).collect())));
                o.push(("body", self.expr(body.value, tr)));
            }
            K::Block(b, label) => {
                k = "Block";
                o.push(("b", self.block(b, tr)));
                o.push(("label", label.map(|l| s(l.ident.to_string())).unwrap_or(J::Null)));
            }
            K::Assign(l, r, _) => {
                k = "Assign";
                o.push(("l", self.expr(l, tr)));
                o.push(("r", self.expr(r, tr)));
            }
            K::AssignOp(op, l, r) => {
                k = "AssignOp";
                o.push(("op", s(op.node.as_str())));
                if let Some(did) = tr.type_dependent_def_id(e.hir_id) {
                    o.push(("def", s(self.path(did))));
                }
                o.push(("l", self.expr(l, tr)));
                o.push(("r", self.expr(r, tr)));
            }
            K::Field(x, ident) => {
                k = "Field";
                o.push(("e", self.expr(x, tr)));
                o.push(("name", s(ident.to_string())));
                o.push(("base_ty", s(self.ty_s(tr.expr_ty_adjusted(x)))));
            }
            K::Index(a, b, _) => {
                k = "Index";
                if let Some(did) = tr.type_dependent_def_id(e.hir_id) {
                    o.push(("def", s(self.path(did))));
                }
                o.push(("e", self.expr(a, tr)));
                o.push(("base_ty", s(self.ty_s(tr.expr_ty_adjusted(a)))));
                o.push(("idx", self.expr(b, tr)));
            }
            K::Path(qp) => {
                k = "Path";
                self.qpath(qp, e.hir_id, tr, &mut o);
                let ga = tr.node_args(e.hir_id);
                if !ga.is_empty() {
                    o.push(("gargs", J::Arr(ga.iter().map(|a| s(pp!((format!("{}", a))))).collect())));
                }
            }
            K::AddrOf(_, m, x) => {
                k = "AddrOf";
                o.push(("mut", J::Bool(m.is_mut())));
                o.push(("e", self.expr(x, tr)));
            }
            K::Break(dest, x) => {
                k = "Break";
                o.push(("label", dest.label.map(|l| s(l.ident.to_string())).unwrap_or(J::Null)));
                o.push(("e", x.map(|x| self.expr(x, tr)).unwrap_or(J::Null)));
            }
            K::Continue(dest) => {
                k = "Continue";
                o.push(("label", dest.label.map(|l| s(l.ident.to_string())).unwrap_or(J::Null)));
            }
            K::Ret(x) => {
                k = "Ret";
                o.push(("e", x.map(|x| self.expr(x, tr)).unwrap_or(J::Null)));
            }
            K::Become(x) => {
                k = "Become";
                o.push(("e", self.expr(x, tr)));
            }
            K::InlineAsm(_) => k = "InlineAsm",
            K::OffsetOf(..) => k = "OffsetOf",
            K::Struct(qp, fields, tail) => {
                k = "Struct";
                self.qpath(qp, e.hir_id, tr, &mut o);
                let fs = fields
                    .iter()
                    .map(|f| J::Obj(vec![("name", s(f.ident.to_string())), ("e", self.expr(f.expr, tr))]))
                    .collect();
                o.push(("fields", J::Arr(fs)));
                if let hir::StructTailExpr::Base(b) = tail {
                    o.push(("base", self.expr(b, tr)));
                }
            }
            K::Repeat(x, _) => {
                k = "Repeat";
                o.push(("e", self.expr(x, tr)));
            }
            K::Yield(..) => k = "Yield",
            K::UnsafeBinderCast(..) => k = "UnsafeBinderCast",
            K::Err(_) => k = "Err",
        }
        o.insert(0, ("k", s(k)));
        o.push(("ty", s(self.ty_s(tr.expr_ty(e)))));
        o.push(("sp", s(self.span_s(e.span))));
        let ex = self.exp_s(e.span);
        if !matches!(ex, J::Null) {
            o.push(("exp", ex));
        }
        o.push(("id", J::Num(e.hir_id.local_id.as_u32() as i128)));
        J::Obj(o)
    }

    // ---------------------------------------------------------------- MIR

    fn place(&self, body: &mir::Body<'tcx>, p: &mir::Place<'tcx>) -> J {
        let mut projs = Vec::new();
        let mut cur_ty = mir::PlaceTy::from_ty(body.local_decls[p.local].ty);
        for elem in p.projection.iter() {
            match elem {
                mir::ProjectionElem::Deref => projs.push(s("*")),
                mir::ProjectionElem::Field(f, _) => {
                    // field name if ADT
                    let mut name = format!("{}", f.as_u32());
                    if let ty::Adt(adt, _) = cur_ty.ty.kind() {
                        let v = match cur_ty.variant_index {
                            Some(v) => Some(adt.variant(v)),
                            None => {
                                if adt.is_struct() {
                                    Some(adt.non_enum_variant())
                                } else {
                                    None
                                }
                            }
                        };
                        if let Some(v) = v {
                            if let Some(fd) = v.fields.get(f) {
                                name = fd.name.to_string();
                            }
                        }
                    }
                    projs.push(J::Obj(vec![("f", J::Num(f.as_u32() as i128)), ("n", s(name))]));
                }
                mir::ProjectionElem::Index(l) => projs.push(J::Obj(vec![("idx", J::Num(l.as_u32() as i128))])),
                mir::ProjectionElem::ConstantIndex { offset, from_end, .. } => {
                    projs.push(J::Obj(vec![("cidx", J::Num(offset as i128)), ("from_end", J::Bool(from_end))]))
                }
                mir::ProjectionElem::Subslice { from, to, from_end } => projs.push(J::Obj(vec![
                    ("sub_from", J::Num(from as i128)),
                    ("sub_to", J::Num(to as i128)),
                    ("from_end", J::Bool(from_end)),
                ])),
                mir::ProjectionElem::Downcast(name, vi) => {
                    let n = name.map(|n| n.to_string()).unwrap_or_default();
                    projs.push(J::Obj(vec![("as", s(n)), ("vi", J::Num(vi.as_u32() as i128))]))
                }
                mir::ProjectionElem::OpaqueCast(_) => projs.push(s("opaque")),
                mir::ProjectionElem::UnwrapUnsafeBinder(_) => projs.push(s("unwrap_binder")),
            }
            cur_ty = cur_ty.projection_ty(self.tcx, elem);
        }
        J::Obj(vec![("l", J::Num(p.local.as_u32() as i128)), ("p", J::Arr(projs))])
    }

    fn const_j(&self, c: &mir::ConstOperand<'tcx>, owner: DefId) -> J {
        let tcx = self.tcx;
        let t = c.const_.ty();
        let mut o: Vec<(&'static str, J)> = Vec::new();
        o.push(("ty", s(self.ty_s(t))));
        if let ty::FnDef(did, args) = t.kind() {
            o.push(("fn", s(self.path(*did))));
            o.push(("fn_args", J::Arr(args.iter().map(|a| s(pp!((format!("{}", a))))).collect())));
            let env = ty::TypingEnv::post_analysis(tcx, owner);
            if let Ok(Some(inst)) = ty::Instance::try_resolve(tcx, env, *did, args) {
                let rd = inst.def_id();
                if rd != *did {
                    o.push(("fn_resolved", s(self.path(rd))));
                }
            }
        } else {
            let txt = pp!((format!("{}", c.const_)));
            o.push(("txt", s(txt)));
            if t.is_integral() || t.is_bool() || t.is_char() {
                let _ = tcx;
                if let Some(si) = c.const_.try_to_scalar_int() {
                    let size = si.size();
                    let v: i128 = if t.is_signed() { si.to_int(size) } else { si.to_uint(size) as i128 };
                    o.push(("int", J::Num(v)));
                }
            }
        }
        J::Obj(o)
    }

    fn operand(&self, body: &mir::Body<'tcx>, op: &mir::Operand<'tcx>) -> J {
        match op {
            mir::Operand::Copy(p) => J::Obj(vec![("copy", self.place(body, p))]),
            mir::Operand::Move(p) => J::Obj(vec![("move", self.place(body, p))]),
            mir::Operand::Constant(c) => J::Obj(vec![("const", self.const_j(c, body.source.def_id()))]),
            #[allow(unreachable_patterns)]
            _ => J::Obj(vec![("other", s(format!("{:?}", op)))]),
        }
    }

    fn rvalue(&self, body: &mir::Body<'tcx>, rv: &mir::Rvalue<'tcx>) -> J {
        use mir::Rvalue as R;
        let mut o: Vec<(&'static str, J)> = Vec::new();
        match rv {
            R::Use(op, _) => {
                o.push(("k", s("Use")));
                o.push(("op", self.operand(body, op)));
            }
            R::Repeat(op, _) => {
                o.push(("k", s("Repeat")));
                o.push(("op", self.operand(body, op)));
            }
            R::Ref(_, bk, p) => {
                o.push(("k", s("Ref")));
                o.push(("mut", J::Bool(matches!(bk, mir::BorrowKind::Mut { .. }))));
                o.push(("place", self.place(body, p)));
            }
            R::ThreadLocalRef(_) => o.push(("k", s("ThreadLocalRef"))),
            R::RawPtr(_, p) => {
                o.push(("k", s("RawPtr")));
                o.push(("place", self.place(body, p)));
            }
            R::Cast(kind, op, t) => {
                o.push(("k", s("Cast")));
                o.push(("cast", s(format!("{:?}", kind).split('(').next().unwrap_or("").to_string())));
                o.push(("op", self.operand(body, op)));
                o.push(("from", s(self.ty_s(op.ty(&body.local_decls, self.tcx)))));
                o.push(("to", s(self.ty_s(*t))));
            }
            R::BinaryOp(bop, ops) => {
                o.push(("k", s("BinaryOp")));
                o.push(("op", s(format!("{:?}", bop))));
                o.push(("l", self.operand(body, &ops.0)));
                o.push(("r", self.operand(body, &ops.1)));
                o.push(("lty", s(self.ty_s(ops.0.ty(&body.local_decls, self.tcx)))));
            }
            R::UnaryOp(uop, op) => {
                o.push(("k", s("UnaryOp")));
                o.push(("op", s(format!("{:?}", uop))));
                o.push(("e", self.operand(body, op)));
                o.push(("ety", s(self.ty_s(op.ty(&body.local_decls, self.tcx)))));
            }
            R::Discriminant(p) => {
                o.push(("k", s("Discriminant")));
                o.push(("place", self.place(body, p)));
                let pt = p.ty(&body.local_decls, self.tcx).ty;
                o.push(("of", s(self.ty_s(pt))));
                if let ty::Adt(adt, _) = pt.kind() {
                    if adt.is_enum() {
                        o.push(("adt", s(self.path(adt.did()))));
                        let mut vs = Vec::new();
                        for (vi, d) in adt.discriminants(self.tcx) {
                            vs.push(J::Arr(vec![J::Num(d.val as i128), s(adt.variant(vi).name.to_string())]));
                        }
                        o.push(("variants", J::Arr(vs)));
                    }
                }
            }
            R::Aggregate(kind, ops) => {
                o.push(("k", s("Aggregate")));
                match &**kind {
                    mir::AggregateKind::Array(_) => o.push(("agg", s("Array"))),
                    mir::AggregateKind::Tuple => o.push(("agg", s("Tuple"))),
                    mir::AggregateKind::Adt(did, vi, _, _, _) => {
                        o.push(("agg", s("Adt")));
                        let adt = self.tcx.adt_def(*did);
                        o.push(("adt", s(self.path(*did))));
                        let v = adt.variant(*vi);
                        o.push(("variant", s(v.name.to_string())));
                        o.push(("vi", J::Num(vi.as_u32() as i128)));
                        o.push(("fnames", J::Arr(v.fields.iter().map(|f| s(f.name.to_string())).collect())));
                    }
                    mir::AggregateKind::Closure(did, _) => {
                        o.push(("agg", s("Closure")));
                        o.push(("closure", s(self.path(*did))));
                    }
                    mir::AggregateKind::Coroutine(..) => o.push(("agg", s("Coroutine"))),
                    mir::AggregateKind::CoroutineClosure(..) => o.push(("agg", s("CoroutineClosure"))),
                    mir::AggregateKind::RawPtr(..) => o.push(("agg", s("RawPtr"))),
                }
                o.push(("ops", J::Arr(ops.iter().map(|x| self.operand(body, x)).collect())));
            }
            R::CopyForDeref(p) => {
                o.push(("k", s("CopyForDeref")));
                o.push(("place", self.place(body, p)));
            }
            R::WrapUnsafeBinder(op, _) => {
                o.push(("k", s("WrapUnsafeBinder")));
                o.push(("op", self.operand(body, op)));
            }
        }
        J::Obj(o)
    }

    fn mir(&self, ldid: LocalDefId) -> J {
        let body: &mir::Body<'tcx> = self.tcx.optimized_mir(ldid.to_def_id());
        self.mir_body(ldid, body)
    }

    fn promoted(&self, ldid: LocalDefId) -> J {
        let proms = self.tcx.promoted_mir(ldid.to_def_id());
        J::Arr(proms.iter().map(|b| self.mir_body(ldid, b)).collect())
    }

    fn mir_body(&self, ldid: LocalDefId, body: &mir::Body<'tcx>) -> J {
        let tcx = self.tcx;
        let mut locals = Vec::new();
        let mut names: Vec<Option<String>> = vec![None; body.local_decls.len()];
        for vdi in &body.var_debug_info {
            if let mir::VarDebugInfoContents::Place(p) = &vdi.value {
                if p.projection.is_empty() {
                    names[p.local.as_usize()] = Some(vdi.name.to_string());
                }
            }
        }
        for (l, d) in body.local_decls.iter_enumerated() {
            let mut o: Vec<(&'static str, J)> = vec![("ty", s(self.ty_s(d.ty)))];
            if let Some(n) = &names[l.as_usize()] {
                o.push(("name", s(n.clone())));
            }
            locals.push(J::Obj(o));
        }
        let mut blocks = Vec::new();
        for (_bb, data) in body.basic_blocks.iter_enumerated() {
            let mut stmts = Vec::new();
            for st in &data.statements {
                match &st.kind {
                    mir::StatementKind::Assign(b) => {
                        let (p, rv) = &**b;
                        stmts.push(J::Obj(vec![
                            ("k", s("Assign")),
                            ("place", self.place(body, p)),
                            ("rv", self.rvalue(body, rv)),
                            ("sp", s(self.span_s(st.source_info.span))),
                            ("exp", self.exp_s(st.source_info.span)),
                        ]));
                    }
                    mir::StatementKind::SetDiscriminant { place, variant_index } => {
                        stmts.push(J::Obj(vec![
                            ("k", s("SetDiscriminant")),
                            ("place", self.place(body, place)),
                            ("vi", J::Num(variant_index.as_u32() as i128)),
                        ]));
                    }
                    mir::StatementKind::StorageDead(l) => {
                        stmts.push(J::Obj(vec![("k", s("StorageDead")), ("l", J::Num(l.as_u32() as i128))]));
                    }
                    mir::StatementKind::Intrinsic(i) => {
                        stmts.push(J::Obj(vec![("k", s("Intrinsic")), ("txt", s(format!("{:?}", i)))]));
                    }
                    _ => {}
                }
            }
            let term = data.terminator();
            let mut t: Vec<(&'static str, J)> = Vec::new();
            use mir::TerminatorKind as T;
            match &term.kind {
                T::Goto { target } => {
                    t.push(("k", s("Goto")));
                    t.push(("target", J::Num(target.as_u32() as i128)));
                }
                T::SwitchInt { discr, targets } => {
                    t.push(("k", s("SwitchInt")));
                    t.push(("discr", self.operand(body, discr)));
                    t.push(("dty", s(self.ty_s(discr.ty(&body.local_decls, tcx)))));
                    let mut vs = Vec::new();
                    for (v, bb) in targets.iter() {
                        vs.push(J::Arr(vec![J::Num(v as i128), J::Num(bb.as_u32() as i128)]));
                    }
                    t.push(("targets", J::Arr(vs)));
                    t.push(("otherwise", J::Num(targets.otherwise().as_u32() as i128)));
                }
                T::UnwindResume => t.push(("k", s("UnwindResume"))),
                T::UnwindTerminate(_) => t.push(("k", s("UnwindTerminate"))),
                T::Return => t.push(("k", s("Return"))),
                T::Unreachable => t.push(("k", s("Unreachable"))),
                T::Drop { place, target, .. } => {
                    t.push(("k", s("Drop")));
                    t.push(("place", self.place(body, place)));
                    t.push(("target", J::Num(target.as_u32() as i128)));
                }
                T::Call { func, args, destination, target, .. } => {
                    t.push(("k", s("Call")));
                    if let Some((did, gargs)) = func.const_fn_def() {
                        t.push(("def", s(self.path(did))));
                        let full = pp!((tcx.def_path_str_with_args(did, gargs)));
                        t.push(("full", s(full)));
                        let mut ga = Vec::new();
                        for a in gargs.iter() {
                            let mut go: Vec<(&'static str, J)> = vec![("txt", s(pp!((format!("{}", a)))))];
                            if let Some(t) = a.as_type() {
                                match t.kind() {
                                    ty::FnDef(d, fa) => {
                                        go.push(("fn", s(self.path(*d))));
                                        go.push(("fn_args", J::Arr(fa.iter().map(|a| s(pp!((format!("{}", a))))).collect())));
                                        let env = ty::TypingEnv::post_analysis(tcx, ldid.to_def_id());
                                        if let Ok(Some(inst)) = ty::Instance::try_resolve(tcx, env, *d, fa) {
                                            if inst.def_id() != *d {
                                                go.push(("fn_resolved", s(self.path(inst.def_id()))));
                                            }
                                        }
                                    }
                                    ty::Closure(d, _) => go.push(("closure", s(self.path(*d)))),
                                    _ => {}
                                }
                            }
                            ga.push(J::Obj(go));
                        }
                        t.push(("gargs", J::Arr(ga)));
                        // try to resolve trait methods to the impl actually called
                        let env = ty::TypingEnv::post_analysis(tcx, ldid.to_def_id());
                        if let Ok(Some(inst)) = ty::Instance::try_resolve(tcx, env, did, gargs) {
                            let rd = inst.def_id();
                            if rd != did {
                                t.push(("resolved", s(self.path(rd))));
                            }
                        }
                    } else {
                        t.push(("fptr", self.operand(body, func)));
                        t.push(("fty", s(self.ty_s(func.ty(&body.local_decls, tcx)))));
                    }
                    t.push(("args", J::Arr(args.iter().map(|a| self.operand(body, &a.node)).collect())));
                    t.push(("dest", self.place(body, destination)));
                    t.push(("target", target.map(|b| J::Num(b.as_u32() as i128)).unwrap_or(J::Null)));
                }
                T::TailCall { .. } => t.push(("k", s("TailCall"))),
                T::Assert { cond, expected, msg, target, .. } => {
                    t.push(("k", s("Assert")));
                    t.push(("cond", self.operand(body, cond)));
                    t.push(("expected", J::Bool(*expected)));
                    let (kind, detail) = match &**msg {
                        mir::AssertKind::BoundsCheck { .. } => ("BoundsCheck", String::new()),
                        mir::AssertKind::Overflow(op, l, _) => ("Overflow", format!("{:?}:{}", op, self.ty_s(l.ty(&body.local_decls, tcx)))),
                        mir::AssertKind::OverflowNeg(l) => ("OverflowNeg", self.ty_s(l.ty(&body.local_decls, tcx))),
                        mir::AssertKind::DivisionByZero(_) => ("DivisionByZero", String::new()),
                        mir::AssertKind::RemainderByZero(_) => ("RemainderByZero", String::new()),
                        mir::AssertKind::MisalignedPointerDereference { .. } => ("MisalignedPointerDereference", String::new()),
                        mir::AssertKind::NullPointerDereference => ("NullPointerDereference", String::new()),
                        mir::AssertKind::InvalidEnumConstruction(_) => ("InvalidEnumConstruction", String::new()),
                        _ => ("Other", String::new()),
                    };
                    t.push(("assert", s(kind)));
                    t.push(("detail", s(detail)));
                    t.push(("target", J::Num(target.as_u32() as i128)));
                }
                T::FalseEdge { real_target, .. } => {
                    t.push(("k", s("Goto")));
                    t.push(("target", J::Num(real_target.as_u32() as i128)));
                }
                T::FalseUnwind { real_target, .. } => {
                    t.push(("k", s("Goto")));
                    t.push(("target", J::Num(real_target.as_u32() as i128)));
                }
                _ => t.push(("k", s("Other"))),
            }
            t.push(("sp", s(self.span_s(term.source_info.span))));
            t.push(("exp", self.exp_s(term.source_info.span)));
            blocks.push(J::Obj(vec![
                ("stmts", J::Arr(stmts)),
                ("term", J::Obj(t)),
                ("cleanup", J::Bool(data.is_cleanup)),
            ]));
        }
        let mut dummy = String::new();
        let _ = write!(dummy, "");
        J::Obj(vec![
            ("argc", J::Num(body.arg_count as i128)),
            ("locals", J::Arr(locals)),
            ("blocks", J::Arr(blocks)),
        ])
    }
}

fn main() {
    let mut args: Vec<String> = std::env::args().collect();
    // RUSTC_WORKSPACE_WRAPPER: argv[1] is the real rustc path
    if args.len() > 1 {
        args.remove(1);
    }
    rustc_driver::run_compiler(&args, &mut Cb);
}
