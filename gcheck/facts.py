"""Fact extraction and loading.

Runs the gfacts rustc_private driver over /repo (cargo +nightly check --workspace with
RUSTC_WORKSPACE_WRAPPER) into a cache keyed by a hash of every source file, and loads the
JSON fact files into indexed Python structures.  No rule lives here.
"""
import fcntl
import glob
import hashlib
import json
import os
import pickle
import shutil
import subprocess
import sys
import tempfile
import time

VERIF = os.path.dirname(os.path.dirname(os.path.abspath(__file__)))
REPO = os.environ.get("GCHECK_REPO", "/repo")
CACHE = os.path.join(VERIF, ".cache")
DRIVER = os.path.join(VERIF, "tools", "gfacts", "target", "release", "gfacts")
FIXTURE = os.path.join(VERIF, "tools", "fixture")

WORKSPACE_CRATES = [
    "garnish_lang_traits",
    "garnish_lang_runtime",
    "garnish_lang_compiler",
    "garnish_lang_simple_data",
    "garnish_lang",
    "garnish_lang_tests",
]


def _source_files(root):
    out = []
    for dp, dns, fns in os.walk(root):
        dns[:] = [d for d in dns if d not in ("target", ".git", "node_modules")]
        for fn in fns:
            if fn == "Cargo.lock" and root == FIXTURE:
                continue  # derived copy
            if fn.endswith(".rs") or fn in ("Cargo.toml", "Cargo.lock"):
                out.append(os.path.join(dp, fn))
    out.sort()
    return out


def tree_hash(features="", repo=None):
    repo = repo or REPO
    h = hashlib.sha256()
    for root in (repo, FIXTURE, os.path.join(VERIF, "tools", "gfacts", "src")):
        for p in _source_files(root):
            h.update(os.path.relpath(p, root).encode())
            h.update(b"\0")
            with open(p, "rb") as f:
                h.update(f.read())
            h.update(b"\0")
    h.update(features.encode())
    return h.hexdigest()[:24]


def _sysroot():
    return subprocess.check_output(["rustc", "+nightly", "--print", "sysroot"], text=True).strip()


def _run_driver(src_dir, out_dir, extra_args, log):
    td = tempfile.mkdtemp(prefix="gfacts-target-")
    try:
        env = dict(os.environ)
        env.update(
            GFACTS_OUT=out_dir,
            LD_LIBRARY_PATH=_sysroot() + "/lib",
            RUSTFLAGS="-Zmir-opt-level=0 -Awarnings",
            RUSTC_WORKSPACE_WRAPPER=DRIVER,
            CARGO_TARGET_DIR=td,
            CARGO_NET_OFFLINE="true",
        )
        env.pop("RUSTC_WRAPPER", None)
        cmd = ["cargo", "+nightly", "check", "--offline"] + extra_args
        r = subprocess.run(cmd, cwd=src_dir, env=env, stdout=subprocess.PIPE, stderr=subprocess.STDOUT, text=True)
        log.append("$ (cd %s && %s)\n%s" % (src_dir, " ".join(cmd), r.stdout[-4000:]))
        return r.returncode
    finally:
        shutil.rmtree(td, ignore_errors=True)


class ExtractionError(Exception):
    pass


def ensure_facts(features="", repo=None):
    """Return the directory holding fact files for the current /repo tree (extracting if needed)."""
    repo = repo or REPO
    if not os.path.exists(DRIVER):
        raise ExtractionError("gfacts driver not built: run MANIFEST.setup_cmd (%s missing)" % DRIVER)
    os.makedirs(CACHE, exist_ok=True)
    key = tree_hash(features, repo)
    d = os.path.join(CACHE, key)
    lock = open(os.path.join(CACHE, ".lock-" + key), "w")
    fcntl.flock(lock, fcntl.LOCK_EX)
    try:
        if os.path.exists(os.path.join(d, "DONE")):
            return d
        # prune old cache entries (keep the 6 most recent)
        def _mt(e):
            try:
                return os.path.getmtime(e)
            except OSError:
                return 0.0
        ents = sorted((e for e in glob.glob(os.path.join(CACHE, "*")) if os.path.isdir(e)), key=_mt)
        now = time.time()
        for e in ents[:-24]:
            # never prune an entry another process may be reading (entries younger than 30 minutes stay)
            if now - _mt(e) > 1800:
                shutil.rmtree(e, ignore_errors=True)
        if os.path.exists(d):
            shutil.rmtree(d)
        os.makedirs(d)
        log = []
        t0 = time.time()
        args = ["--workspace"]
        if features == "all":
            args.append("--all-features")
        rc = _run_driver(repo, d, args, log)
        if rc != 0:
            open(os.path.join(d, "FAILED.log"), "w").write("\n".join(log))
            raise ExtractionError("cargo check of /repo with the gfacts wrapper failed:\n" + "\n".join(log)[-3000:])
        if os.path.isdir(FIXTURE):
            # the fixture path-depends on /repo/traits; give it the repo's lock file
            shutil.copyfile(os.path.join(repo, "Cargo.lock"), os.path.join(FIXTURE, "Cargo.lock"))
            rc = _run_driver(FIXTURE, d, [], log)
            if rc != 0:
                open(os.path.join(d, "FAILED.log"), "w").write("\n".join(log))
                raise ExtractionError("cargo check of the fixture crate failed:\n" + "\n".join(log)[-3000:])
        # merge to one pickle per crate
        seen = {}
        for p in sorted(glob.glob(os.path.join(d, "*.json"))):
            txt = open(p).read()
            cr = json.loads(txt[: txt.index(",")] + "}")["crate"]
            txt = txt.replace("crate::", cr + "::")
            data = json.loads(txt)
            if data.get("is_test"):
                continue
            if cr in seen and len(seen[cr]["fns"]) >= len(data["fns"]):
                continue
            seen[cr] = data
        for cr in WORKSPACE_CRATES[:4]:
            if cr not in seen:
                raise ExtractionError("no fact file for crate %s (cargo skipped the wrapper?)" % cr)
        with open(os.path.join(d, "facts.pickle"), "wb") as f:
            pickle.dump(seen, f, protocol=pickle.HIGHEST_PROTOCOL)
        for p in glob.glob(os.path.join(d, "*.json")):
            os.remove(p)
        open(os.path.join(d, "extract.log"), "w").write("\n".join(log))
        open(os.path.join(d, "DONE"), "w").write("%.1f" % (time.time() - t0))
        return d
    finally:
        fcntl.flock(lock, fcntl.LOCK_UN)
        lock.close()


class Facts:
    """Indexed view over the extracted facts of all crates."""

    def __init__(self, crates):
        self.crates = crates
        self.fns = {}
        self.adts = {}
        for cr, data in crates.items():
            for f in data["fns"]:
                f["crate"] = cr
                self.fns[f["path"]] = f
            for a in data["adts"]:
                a["crate"] = cr
                self.adts[a["path"]] = a
        # trait-impl index: trait item path -> [impl fn]
        self.impls_of = {}
        for f in self.fns.values():
            ti = f.get("trait_item")
            if ti:
                self.impls_of.setdefault(ti, []).append(f)

    def fn(self, path):
        return self.fns.get(path)

    def fns_in(self, prefix):
        return [f for p, f in self.fns.items() if p.startswith(prefix)]

    def find_fns(self, crate=None, name=None, suffix=None):
        out = []
        for p, f in self.fns.items():
            if crate and f["crate"] != crate:
                continue
            if name and f.get("name") != name:
                continue
            if suffix and not p.endswith(suffix):
                continue
            out.append(f)
        return out

    def stats(self):
        return {
            "crates": sorted(self.crates),
            "bodies": len(self.fns),
            "adts": len(self.adts),
            "per_crate": {c: len(d["fns"]) for c, d in self.crates.items()},
        }


def load(features="", repo=None):
    d = ensure_facts(features, repo)
    import gc

    gc.disable()
    try:
        with open(os.path.join(d, "facts.pickle"), "rb") as f:
            crates = pickle.load(f)
    finally:
        gc.enable()
    return Facts(crates), d


# ------------------------------------------------------------------ generic tree walking


def walk(node):
    """Yield every dict node of a HIR JSON tree (pre-order)."""
    stack = [node]
    while stack:
        n = stack.pop()
        if isinstance(n, dict):
            yield n
            for v in reversed(list(n.values())):
                if isinstance(v, (dict, list)):
                    stack.append(v)
        elif isinstance(n, list):
            for v in reversed(n):
                if isinstance(v, (dict, list)):
                    stack.append(v)


def loc(node):
    sp = node.get("sp") or node.get("span") or "?"
    # file:line
    parts = sp.split(":")
    if len(parts) >= 2:
        return parts[0] + ":" + parts[1]
    return sp
