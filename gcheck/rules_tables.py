"""Table rules (HIRQ): T1 dispatch-exhaustive, T2 operator-wiring, T3 precedence-table,
T6 comparison-wiring.  All tables are re-derived from the resolved HIR on every run."""
import json
import os

from .facts import VERIF, walk, loc
from . import hirq
from .hirq import peel, callee, call_args, path_def, last, norm_pat, arm_table, is_catch_all
from .report import RuleResult

TOKEN = "garnish_lang_compiler::lex::lexer::TokenType"
DEFN = "garnish_lang_compiler::parse::parser::Definition"
SECDEF = "garnish_lang_compiler::parse::parser::SecondaryDefinition"
INSTR = "garnish_lang_traits::instructions::Instruction"
GDT = "garnish_lang_traits::data::GarnishDataType"


def spec(name):
    with open(os.path.join(VERIF, "spec", name)) as f:
        return json.load(f)


def variants(F, adt):
    a = F.adts.get(adt)
    return [v["path"] for v in a["variants"]] if a else []


def strip_ref(t):
    t = t.strip()
    while t.startswith("&"):
        t = t[1:].strip()
        if t.startswith("mut "):
            t = t[4:]
    return t


def dispatch_matches(F, enum_path, crates, min_frac=0.5):
    """Matches whose scrutinee is the enum and which name at least min_frac of its variants:
    the dispatch tables.  Located by type and shape, not by function name."""
    vs = set(variants(F, enum_path))
    out = []
    for f in F.fns.values():
        if f["crate"] not in crates or f["kind"] == "Closure":
            continue
        for m in hirq.matches_in(f["hir"], lambda t: strip_ref(t) == enum_path):
            named = set()
            for alts, _g, _arm in arm_table(m):
                for a in alts:
                    if a[0] == "V" and a[1] in vs:
                        named.add(a[1])
            if len(named) >= min_frac * len(vs):
                out.append((f, m, named))
    return out


# ------------------------------------------------------------------------------------ T1


def check_no_catch_all(match):
    """Returns list of (kind, arm) for arms that cover 'everything else'."""
    bad = []
    for alts, guard, arm in arm_table(match):
        for a in alts:
            if is_catch_all(a) and not guard:
                bad.append(arm)
                break
    return bad


def rule_T1(ctx):
    F = ctx.F
    r = RuleResult("T1", "dispatch-exhaustive: no catch-all arm in the TokenType / Definition / Instruction dispatch matches")
    targets = [
        (TOKEN, ["garnish_lang_compiler"], 73, "TokenType dispatch (get_definition)"),
        (DEFN, ["garnish_lang_compiler"], 69, "Definition dispatch (handle_parse_node)"),
        (INSTR, ["garnish_lang_runtime"], 56, "Instruction dispatch (execute_current_instruction)"),
    ]
    for enum_path, crates, floor, what in targets:
        vs = variants(F, enum_path)
        ms = dispatch_matches(F, enum_path, crates, 0.8)
        if not ms:
            r.anchor_missing(what, "no match over %s naming most of its variants" % enum_path)
            continue
        r.floor("variants of " + last(enum_path), len(vs), floor)
        for f, m, named in ms:
            r.analysed.setdefault("dispatch_matches", []).append("%s @ %s (%d arms)" % (f["path"], loc(m), len(m["arms"])))
            for v in vs:
                r.examine((f["path"], v), True, {"fn": f["path"], "variant": last(v), "handled": v in named})
            bad = check_no_catch_all(m)
            for arm in bad:
                r.finding(f["path"], "catch-all:" + last(enum_path), loc(arm),
                          "dispatch match over %s has a catch-all arm: a new variant would compile without a handler" % last(enum_path))
            missing = [v for v in vs if v not in named]
            if missing and not bad:
                # cannot happen in a compiling program without a catch-all; report extractor trouble
                r.finding(f["path"], "unhandled:" + last(enum_path), loc(m), "variants without an arm: %s" % ", ".join(map(last, missing)))
    # controls
    for f in F.fns_in("gfixture::t1::"):
        if f["kind"] == "Closure":
            continue
        ms = hirq.matches_in(f["hir"], lambda t: strip_ref(t).endswith("::Ctl"))
        flagged = any(check_no_catch_all(m) for m in ms)
        if f["name"].startswith("ctl_"):
            r.control(f["name"], flagged)
        elif f["name"].startswith("ok_"):
            r.neg_control(f["name"], not flagged)
    return r


# ------------------------------------------------------------------------------------ T2


def lexer_operator_table(F):
    """(spelling, TokenType variant) pairs written as tuple literals in the compiler crate."""
    rows = []
    for f in F.fns.values():
        if f["crate"] != "garnish_lang_compiler":
            continue
        for n in walk(f["hir"]):
            if n.get("k") == "Tup" and len(n["es"]) == 2:
                s = hirq.lit_value(n["es"][0])
                d = path_def(n["es"][1])
                if isinstance(s, str) and d and d.startswith(TOKEN + "::"):
                    rows.append((s, d, f["path"], loc(n)))
    return rows


def token_classes(F):
    """TokenType variants the lexer can produce other than via the operator table:
    every `TokenType::X` path expression in the lexer's non-table code."""
    out = {}
    table_vs = set(d for _s, d, _f, _l in lexer_operator_table(F))
    for f in F.fns.values():
        if f["crate"] != "garnish_lang_compiler" or "::lex::" not in f["path"]:
            continue
        for n in walk(f["hir"]):
            if n.get("k") == "Path" and n.get("res") == "def" and n.get("def", "").startswith(TOKEN + "::"):
                out.setdefault(n["def"], loc(n))
    return out


def definition_table(F, r):
    ms = dispatch_matches(F, TOKEN, ["garnish_lang_compiler"], 0.8)
    table = {}
    for f, m, _named in ms:
        for alts, _g, arm in arm_table(m):
            body = peel(arm["body"])
            if body.get("k") != "Tup" or len(body["es"]) != 2:
                continue
            d0 = path_def(body["es"][0])
            d1 = path_def(body["es"][1])
            if not d0 or not d0.startswith(DEFN + "::"):
                continue
            for a in alts:
                if a[0] == "V":
                    table[a[1]] = (d0, d1, loc(arm))
    return table


def fn_params(f):
    return [p.get("name") for p in f.get("params", [])]


def instr_consts_emitted(F, f, bound, seen=None, depth=0):
    """Instruction constants that reach `push_instruction` or an end-instruction tuple in the body of
    builder function f.  `bound` maps parameter name -> constant for Instruction-typed parameters.
    Follows calls to other compiler::build functions passing constants along."""
    out = set()
    if seen is None:
        seen = set()
    key = (f["path"], tuple(sorted(bound.items())))
    if key in seen or depth > 6:
        return out
    seen.add(key)
    params = f.get("params", [])
    lid2const = {}
    for p in params:
        if p.get("k") == "Binding" and p.get("name") in bound:
            lid2const[p["lid"]] = bound[p["name"]]

    def const_of(e):
        d = path_def(e)
        if d and d.startswith(INSTR + "::"):
            return d
        l = hirq.local_of(e)
        if l is not None and l in lid2const:
            return lid2const[l]
        return None

    for n in walk(f["hir"]):
        k = n.get("k")
        if k in ("MethodCall", "Call"):
            d = callee(n)
            if d is None:
                continue
            args = call_args(n)
            if last(d) == "push_instruction" and "GarnishData" in d:
                if len(args) >= 2:
                    c = const_of(args[1])
                    if c:
                        out.add(c)
            elif d in F.fns and F.fns[d]["crate"] == "garnish_lang_compiler" and "::build::" in d:
                g = F.fns[d]
                b2 = {}
                gp = g.get("params", [])
                for i, a in enumerate(args):
                    if i < len(gp) and gp[i].get("k") == "Binding":
                        c = const_of(a)
                        if c:
                            b2[gp[i]["name"]] = c
                out |= instr_consts_emitted(F, g, b2, seen, depth + 1)
        elif k == "Tup" and len(n["es"]) == 2 and n.get("ty", "").startswith("(" + INSTR):
            c = const_of(n["es"][0])
            if c and last(c) != "Invalid":
                out.add(c)
    return out


def builder_table(F, r):
    """Definition variant -> set of Instruction constants its handle_parse_node arm can emit."""
    ms = dispatch_matches(F, DEFN, ["garnish_lang_compiler"], 0.8)
    table = {}
    for f, m, _named in ms:
        if "::build::" not in f["path"]:
            continue
        for alts, _g, arm in arm_table(m):
            fake = {"path": f["path"] + "#arm@" + loc(arm), "params": f.get("params", []), "hir": arm["body"]}
            ins = instr_consts_emitted(F, fake, {})
            for a in alts:
                if a[0] == "V":
                    table.setdefault(a[1], set()).update(ins)
                    table.setdefault("@loc:" + a[1], loc(arm))
    return table


def runtime_dispatch_table(F, r):
    """Instruction variant -> runtime fn called by its execute_current_instruction arm."""
    ms = dispatch_matches(F, INSTR, ["garnish_lang_runtime"], 0.8)
    table = {}
    for f, m, _named in ms:
        for alts, _g, arm in arm_table(m):
            fns = set()
            for d, n in hirq.calls_in(arm["body"]):
                g = F.fns.get(d)
                if g and g["crate"] == "garnish_lang_runtime" and g.get("vis") == "Public":
                    fns.add(d)
            for a in alts:
                if a[0] == "V":
                    table[a[1]] = (fns, loc(arm))
    return table


def op_fn_wiring(F, fpath):
    """For a runtime op fn: (helper called, Instruction constant passed, GarnishNumber method passed)."""
    f = F.fns.get(fpath)
    if not f:
        return None
    res = {"instr": set(), "num": set(), "helper": set()}
    for d, n in hirq.calls_in(f["hir"]):
        g = F.fns.get(d)
        if g is None or g["crate"] != "garnish_lang_runtime":
            continue
        for a in call_args(n):
            pd = path_def(a)
            if pd and pd.startswith(INSTR + "::"):
                res["instr"].add(pd)
                res["helper"].add(d)
            if pd and pd.startswith("garnish_lang_traits::data::GarnishNumber::"):
                res["num"].add(last(pd))
                res["helper"].add(d)
    # constants handed straight to defer_op in this body
    for d, n in hirq.calls_in(f["hir"]):
        if last(d) == "defer_op" and "GarnishData" in d:
            args = call_args(n)
            if len(args) >= 2:
                pd = path_def(args[1])
                if pd and pd.startswith(INSTR + "::"):
                    res["instr"].add(pd)
    return res


def rule_T2(ctx):
    F = ctx.F
    r = RuleResult("T2", "operator-wiring: spelling -> TokenType -> Definition -> Instruction -> runtime fn -> number method equals spec/operators.json")
    sp = spec("operators.json")
    rows = lexer_operator_table(F)
    r.floor("operator spellings in the lexer table", len(rows), 60)
    deft = definition_table(F, r)
    r.floor("get_definition arms with a (Definition, SecondaryDefinition) body", len(deft), 73)
    bt = builder_table(F, r)
    r.floor("handle_parse_node arms", len([k for k in bt if not k.startswith("@loc:")]), 69)
    rt = runtime_dispatch_table(F, r)
    r.floor("execute_current_instruction arms", len(rt), 56)
    r.analysed["tables"] = {"lexer": len(rows), "definition": len(deft), "builder": len([k for k in bt if not k.startswith('@loc:')]), "runtime": len(rt)}

    def chain(tok):
        """TokenType variant -> (definition, instrs, fns, detail)"""
        if tok not in deft:
            return None
        d0, d1, _l = deft[tok]
        ins = bt.get(d0, set())
        fns = set()
        for i in ins:
            if i in rt:
                fns |= rt[i][0]
        return d0, d1, ins, fns

    seen_spellings = {}
    for s, tok, fpath, where in rows:
        if s in seen_spellings and seen_spellings[s] != tok:
            r.finding(fpath, "spelling:" + s, where, "spelling %r is mapped to two token types (%s, %s)" % (s, last(seen_spellings[s]), last(tok)))
        seen_spellings[s] = tok
    # 1. every spec spelling is wired as the spec says
    for s, want in sp["operators"].items():
        key = "spelling:" + s
        if s not in seen_spellings:
            r.examine(key, True)
            r.finding("garnish_lang_compiler::lex::lexer::Lexer::new", key, "-", "operator %r of the language table is missing from the lexer's operator list" % s)
            continue
        tok = seen_spellings[s]
        c = chain(tok)
        where = [w for (s2, _t, _f, w) in rows if s2 == s][0]
        if c is None:
            r.examine(key, True)
            r.finding("garnish_lang_compiler::parse::parser::get_definition", key, where, "token type %s of %r has no (Definition, SecondaryDefinition) arm" % (last(tok), s))
            continue
        d0, d1, ins, fns = c
        fn_names = set(last(x) for x in fns)
        r.examine(key, True, {"spelling": s, "token": last(tok), "definition": last(d0), "class": last(d1 or "?"),
                              "instructions": sorted(map(last, ins)), "runtime_fns": sorted(fn_names)})
        allowed = set(want["aux"]) | ({want["fn"]} if want["fn"] else set())
        if want["fn"] and want["fn"] not in fn_names:
            r.finding("wiring", key, where, "operator %r must reach runtime fn `%s`; derived chain %s -> %s -> {%s} -> {%s}" % (
                s, want["fn"], last(tok), last(d0), ",".join(sorted(map(last, ins))), ",".join(sorted(fn_names))))
        extra = fn_names - allowed
        if extra:
            r.finding("wiring", key + ":extra", where, "operator %r reaches runtime fn(s) {%s} the language table does not give it (allowed {%s})" % (
                s, ",".join(sorted(extra)), ",".join(sorted(allowed))))
        # number method + instruction constant agreement
        if want["fn"]:
            for fp in fns:
                if last(fp) != want["fn"]:
                    continue
                w = op_fn_wiring(F, fp)
                if want["num"] is not None:
                    r.examine(key + ":num", True)
                    if w["num"] != {want["num"]}:
                        r.finding(fp, key + ":num", loc(F.fns[fp]["hir"]), "`%s` (operator %r) must compute with GarnishNumber::%s, found {%s}" % (
                            last(fp), s, want["num"], ",".join(sorted(w["num"]))))
                # the instruction constant reported to the host must be one that dispatches here
                disp = set(i for i, (fs, _l) in rt.items() if fp in fs)
                if w["instr"]:
                    r.examine(key + ":opid", True)
                    if not w["instr"] <= disp:
                        r.finding(fp, key + ":opid", loc(F.fns[fp]["hir"]), "`%s` reports Instruction {%s} to the host but is dispatched from {%s}" % (
                            last(fp), ",".join(sorted(map(last, w["instr"]))), ",".join(sorted(map(last, disp)))))
    # 2. spellings the spec does not know: info
    for s in seen_spellings:
        if s not in sp["operators"]:
            r.info.append("spelling %r (%s) is not in spec/operators.json: language extension, not checked" % (s, last(seen_spellings[s])))
    # 3. token classes
    classes = token_classes(F)
    for cname, want in sp["classes"].items():
        tok = TOKEN + "::" + cname
        key = "class:" + cname
        if tok not in deft:
            r.examine(key, True)
            r.finding("garnish_lang_compiler::parse::parser::get_definition", key, "-", "token class %s has no definition arm" % cname)
            continue
        d0, d1, ins, fns = chain(tok)
        fn_names = set(last(x) for x in fns)
        r.examine(key, True, {"class": cname, "definition": last(d0), "instructions": sorted(map(last, ins)), "runtime_fns": sorted(fn_names)})
        allowed = set(want["aux"]) | ({want["fn"]} if want["fn"] else set())
        if want["fn"] and want["fn"] not in fn_names:
            r.finding("wiring", key, deft[tok][2], "token class %s must reach runtime fn `%s`; derived %s -> {%s} -> {%s}" % (
                cname, want["fn"], last(d0), ",".join(sorted(map(last, ins))), ",".join(sorted(fn_names))))
        if fn_names - allowed:
            r.finding("wiring", key + ":extra", deft[tok][2], "token class %s reaches {%s}, allowed {%s}" % (cname, ",".join(sorted(fn_names - allowed)), ",".join(sorted(allowed))))
    # 4. every instruction constant handed to defer_op inside an op fn equals a dispatching instruction
    n_defer = 0
    for i, (fs, where) in rt.items():
        for fp in fs:
            w = op_fn_wiring(F, fp)
            if w and w["instr"]:
                n_defer += 1
                r.examine("opid:" + last(fp), True)
                disp = set(j for j, (fs2, _l) in rt.items() if fp in fs2)
                if not w["instr"] <= disp:
                    r.finding(fp, "opid:" + last(fp), loc(F.fns[fp]["hir"]), "`%s` reports Instruction {%s} to the host but is dispatched from {%s}" % (
                        last(fp), ",".join(sorted(map(last, w["instr"]))), ",".join(sorted(map(last, disp)))))
    r.floor("runtime fns passing an Instruction constant towards defer_op", n_defer, 10)
    return r


# ------------------------------------------------------------------------------------ T3


def priority_inserts(F):
    """(Definition variant, number, fn, loc) for every `map.insert(Definition::X, n)` on a
    HashMap<Definition, usize> in the compiler crate, in source order."""
    rows = []
    for f in F.fns.values():
        if f["crate"] != "garnish_lang_compiler":
            continue
        for n in walk(f["hir"]):
            if n.get("k") == "MethodCall" and n.get("m") == "insert" and "HashMap<" + DEFN in n.get("recv_ty", ""):
                if len(n["args"]) == 2:
                    d = path_def(n["args"][0])
                    v = hirq.lit_value(n["args"][1])
                    if d and isinstance(v, int):
                        rows.append((d, v, f["path"], n["sp"]))

    def spkey(row):
        parts = row[3].split(":")
        return (parts[0], int(parts[1]), int(parts[2].split("-")[0]))

    rows.sort(key=spkey)
    return rows


def rule_T3(ctx):
    F = ctx.F
    r = RuleResult("T3", "precedence-table: the priority map is total, induces the ordered tiers of spec/precedence.json, and associativity classes are as specified")
    sp = spec("precedence.json")
    rows = priority_inserts(F)
    r.floor("priority inserts", len(rows), 60)
    prio = {}
    where = {}
    for d, v, fpath, l in rows:
        if d in prio and prio[d] != v:
            r.info.append("%s inserted twice (%d then %d): the map keeps %d" % (last(d), prio[d], v, v))
        prio[d] = v
        where[d] = (fpath, ":".join(l.split(":")[:2]))
    deft = definition_table(F, r)
    mapfn = rows[0][2] if rows else "garnish_lang_compiler::parse::parser::make_priority_map"
    # (a) total: every definition get_definition can return (except no_priority), plus List
    producible = set(d0 for (d0, _d1, _l) in deft.values())
    producible.add(DEFN + "::List")
    for d in sorted(producible):
        if last(d) in sp["no_priority"]:
            continue
        r.examine("total:" + last(d), True)
        if d not in prio:
            r.finding(mapfn, "total:" + last(d), "-", "definition %s can be produced by the parser but has no priority: parse_token would fail or mis-nest it" % last(d))
    # (b) ordered partition
    known = {}
    for ti, tier in enumerate(sp["tiers"]):
        for name in tier:
            known[DEFN + "::" + name] = ti
    names = [d for d in prio if d in known]
    r.floor("prioritised definitions known to the spec", len(names), 60)
    for d in prio:
        if d not in known:
            r.info.append("definition %s has a priority but is not in spec/precedence.json (extension; only its effect on known ones is checked)" % last(d))
    for d in known:
        if d not in prio and last(d) not in sp["no_priority"]:
            r.examine("order:" + last(d), True)
            r.finding(mapfn, "order:" + last(d), "-", "spec definition %s has no priority in the map" % last(d))
    names.sort(key=lambda d: (known[d], last(d)))
    # compare each definition with the representative of its own tier and with the next tier: O(n) checks
    # that imply the whole pre-order.
    by_tier = {}
    for d in names:
        by_tier.setdefault(known[d], []).append(d)
    tiers = sorted(by_tier)
    for i, t in enumerate(tiers):
        ds = by_tier[t]
        rep = ds[0]
        for d in ds:
            r.examine("tier:" + last(d), True, {"definition": last(d), "priority": prio[d], "tier": t})
            if prio[d] != prio[rep]:
                fp, l = where[d]
                r.finding(fp, "tier:" + last(d), l, "%s (priority %d) must bind exactly as tightly as %s (priority %d): same tier in the operator table" % (
                    last(d), prio[d], last(rep), prio[rep]))
        if i + 1 < len(tiers):
            nxt = by_tier[tiers[i + 1]]
            lo = max(prio[d] for d in ds)
            for d2 in nxt:
                r.examine("order:%s<%s" % (last(rep), last(d2)), True)
                if not lo < prio[d2]:
                    worst = [d for d in ds if prio[d] >= prio[d2]][0]
                    fp, l = where[d2]
                    r.finding(fp, "order:%s<%s" % (last(worst), last(d2)), l, "%s (priority %d) must bind tighter than %s (priority %d) per the operator table" % (
                        last(worst), prio[worst], last(d2), prio[d2]))
    # (c) associativity classes from get_definition
    cls = {}
    for tok, (d0, d1, l) in deft.items():
        cls.setdefault(d0, set()).add((last(d1) if d1 else "?", l))
    want_cls = {}
    for name in sp["assoc"]["right_to_left_binary"]:
        want_cls[name] = "BinaryRightToLeft"
    for name in sp["assoc"]["prefix"]:
        want_cls[name] = "UnaryPrefix"
    for name in sp["assoc"]["suffix"]:
        want_cls[name] = "UnarySuffix"
    for name in sp["assoc"]["optional_binary"]:
        want_cls[name] = "OptionalBinaryLeftToRight"
    deffn = "garnish_lang_compiler::parse::parser::get_definition"
    for d0, cs in sorted(cls.items()):
        name = last(d0)
        if name == "Drop":
            continue
        for c, l in cs:
            r.examine("assoc:" + name, True, {"definition": name, "class": c})
            if name in want_cls:
                if c != want_cls[name]:
                    r.finding(deffn, "assoc:" + name, l, "%s must be %s, is %s" % (name, want_cls[name], c))
            else:
                if c in ("BinaryRightToLeft", "UnaryPrefix", "UnarySuffix", "OptionalBinaryLeftToRight") and DEFN + "::" + name in known:
                    r.finding(deffn, "assoc:" + name, l, "%s is classified %s but the operator table makes it a left-to-right binary / value" % (name, c))
    for name in want_cls:
        if DEFN + "::" + name not in cls:
            r.examine("assoc:" + name, True)
            r.finding(deffn, "assoc:" + name, "-", "no token maps to %s" % name)
    # docs cross-reference (info only)
    try:
        docs = open(os.path.join(ctx.repo, "docs", "src", "precedence.md")).read()
        r.analysed["docs_precedence_md_bytes"] = len(docs)
    except OSError:
        pass
    return r


# ------------------------------------------------------------------------------------ T6

ORD = "core::cmp::Ordering"

PRED = {  # predicate -> set of Ordering variants for which it is true (std definition)
    "is_lt": {"Less"},
    "is_le": {"Less", "Equal"},
    "is_gt": {"Greater"},
    "is_ge": {"Greater", "Equal"},
    "is_eq": {"Equal"},
    "is_ne": {"Less", "Greater"},
}


def ordering_variant(e):
    d = path_def(e)
    if d and (d.startswith("core::cmp::Ordering::") or d.startswith("std::cmp::Ordering::")) and last(d) in ("Less", "Equal", "Greater"):
        return last(d)
    return None


def rule_T6(ctx):
    F = ctx.F
    r = RuleResult("T6", "comparison-wiring: false ordering / predicate pairs and comparable type pairs")
    sp = spec("operators.json")
    found = 0
    helper_paths = set()
    for name, want in sp["comparisons"].items():
        cands = [f for f in F.find_fns(crate="garnish_lang_runtime", name=name) if f.get("vis") == "Public"]
        if not cands:
            r.anchor_missing("runtime fn " + name, "public fn not found")
            continue
        f = cands[0]
        ords = []
        preds = []
        for n in walk(f["hir"]):
            if n.get("k") in ("Call", "MethodCall"):
                d = callee(n)
                if d and d in F.fns and F.fns[d]["crate"] == "garnish_lang_runtime":
                    for a in call_args(n):
                        ov = ordering_variant(a)
                        if ov:
                            ords.append(ov)
                            helper_paths.add(d)
                if n.get("k") == "MethodCall" and n.get("m") in PRED and "Ordering" in n.get("recv_ty", ""):
                    preds.append(n["m"])
            # the predicate handed on as a function item (`helper(this, Ordering::Greater, Ordering::is_lt)`)
            if n.get("k") == "Path" and n.get("res") in ("def", "self"):
                pd = n.get("def") or ""
                if last(pd) in PRED and "Ordering" in pd and "cmp" in pd:
                    preds.append(last(pd))
        key = "cmp:" + name
        r.examine(key, True, {"fn": name, "false_ord": ords, "predicate": preds})
        found += 1
        if len(set(ords)) != 1 or len(set(preds)) != 1:
            r.finding(f["path"], key, loc(f["hir"]), "expected exactly one false-ordering constant and one Ordering predicate, found %s / %s" % (ords, preds))
            continue
        fo, pr = ords[0], preds[0]
        if fo in PRED[pr]:
            r.finding(f["path"], key + ":false_ord", loc(f["hir"]), "`%s` reports Ordering::%s for incomparable operands, and %s(%s) is true: cross-type comparison would yield true" % (name, fo, pr, fo))
        if pr != want["predicate"]:
            r.finding(f["path"], key + ":predicate", loc(f["hir"]), "`%s` must apply Ordering::%s, applies %s" % (name, want["predicate"], pr))
    r.floor("comparison functions", found, 4)
    # comparable pairs in the helper: only (X, X) arms for X in comparable_pairs; everything else returns false_ord
    comparable = set(sp["comparable_pairs"])
    n_arms = 0
    # the type-pair dispatch may sit behind an intermediate helper: close over runtime-crate callees (3 hops)
    frontier = set(helper_paths)
    for _hop in range(3):
        nxt = set()
        for hp in frontier:
            for d, _n in hirq.calls_in(F.fns[hp]["hir"]):
                if d in F.fns and F.fns[d]["crate"] == "garnish_lang_runtime" and d not in helper_paths:
                    nxt.add(d)
        helper_paths |= nxt
        frontier = nxt
    for hp in sorted(helper_paths):
        h = F.fns[hp]
        # the dispatch is the helper that is told the caller's false ordering
        if not any("cmp::Ordering" in (b.get("ty") or "") for prm in h.get("params", []) for b in walk(prm) if b.get("k") == "Binding"):
            continue
        for m in hirq.matches_in(h["hir"], lambda t: t.replace(" ", "") == "(%s,%s)" % (GDT, GDT)):
            outer = m is hirq.matches_in(h["hir"], lambda t: t.replace(" ", "") == "(%s,%s)" % (GDT, GDT))[0]
            for alts, guard, arm in arm_table(m):
                for a in alts:
                    if a[0] == "T" and all(x[0] == "V" for x in a[1]):
                        l, rr = last(a[1][0][1]), last(a[1][1][1])
                        n_arms += 1
                        r.examine("pair:%s,%s" % (l, rr), True, {"pair": [l, rr]})
                        if l != rr:
                            r.finding(hp, "pair:%s,%s" % (l, rr), loc(arm), "mixed-type pair (%s, %s) is made comparable; the language orders only like with like" % (l, rr))
                        elif outer and l not in comparable:
                            r.finding(hp, "pair:%s,%s" % (l, rr), loc(arm), "(%s, %s) is made comparable; the ordered types are %s" % (l, rr, sorted(comparable)))
                    elif is_catch_all(a):
                        # must return the false ordering parameter
                        body = peel(arm["body"])
                        ok = False
                        for x in walk(arm["body"]):
                            if x.get("k") == "Path" and x.get("res") == "local" and "Ordering" in x.get("ty", ""):
                                ok = True
                        r.examine("pair:_", False)
                        if not ok:
                            r.finding(hp, "pair:_:" + loc(arm), loc(arm), "catch-all arm of the comparison does not return the caller's false ordering")
    r.floor("explicit comparable type-pair arms", n_arms, 6)
    return r


# ------------------------------------------------------------------------------------ T13 / N4


def rule_T13(ctx):
    """The group argument of the token-placing helpers is always the enclosing bracket's *node index* (taken from the group
    stack), never the nesting depth.  Sibling call sites must agree (Engler-style cross-check, frozen by origin kind)."""
    from .origin import Deep, Body

    F = ctx.F
    r = RuleResult("T13", "group-argument agreement: every call that places a token is told the enclosing bracket's node index (from the group stack), not the nesting depth")
    fns = [f for f in F.fns.values() if f["crate"] == "garnish_lang_compiler" and "::parse::" in f["path"] and f["kind"] != "Closure"]
    # callee parameter positions with the role: a parameter named under_group
    role = {}
    for f in fns:
        for i, p in enumerate(f.get("params", [])):
            if p.get("k") == "Binding" and p.get("name") == "under_group":
                role[f["path"]] = i
    r.floor("parser helpers taking the enclosing group", len(role), 2)
    n = 0
    for f in fns:
        body = Body(f)
        for d, c in hirq.calls_in(f["hir"]):
            if d not in role:
                continue
            args = call_args(c)
            if role[d] >= len(args):
                continue
            n += 1
            a = args[role[d]]
            kinds = set()
            origins = list(body.origins(a))
            # a value obtained from a private parser helper (`enclosing_group_node(&stack)`): what that helper returns
            expanded = []
            for o in origins:
                dd = callee(o) if o.get("k") in ("Call", "MethodCall") else None
                g = F.fns.get(dd) if dd else None
                if g is not None and g["crate"] == "garnish_lang_compiler" and "::parse::" in g["path"] and g["kind"] != "Closure" and g.get("hir") and dd not in role:
                    from .origin import return_exprs
                    gb = Body(g)
                    for re_ in return_exprs(g):
                        expanded.extend(gb.origins(re_))
                else:
                    expanded.append(o)
            for o in expanded:
                k = o.get("k")
                if k == "Param" and o not in origins:
                    kinds.add("group-stack-entry" if any("Vec<" in (b.get("ty") or "") or "[" in (b.get("ty") or "") for b in [o]) else "helper-param")
                    continue
                if k == "Param":
                    pn = f["params"][o["index"]].get("name") if o["index"] < len(f.get("params", [])) else "?"
                    kinds.add("forwarded" if o["index"] == role.get(f["path"], -1) else "param:" + str(pn))
                elif k == "MethodCall" and o.get("m") in ("get", "last", "first"):
                    kinds.add("group-stack-entry")
                elif k == "Call" and "error" in last(callee(o) or ""):
                    continue  # the diverging error arm of the lookup
                elif k == "MethodCall" and o.get("m") == "len":
                    kinds.add("depth(len)")
                elif k == "Path" and (o.get("def") or "").endswith("::None"):
                    kinds.add("none")
                elif k == "Field" or k == "TupleFieldOf":
                    kinds.add("group-stack-entry")
                else:
                    kinds.add("other:" + str(o.get("m") or k))
            kinds.discard("none")
            ok = bool(kinds) and kinds <= {"forwarded", "group-stack-entry"}
            r.examine((f["path"], loc(c)), True, {"caller": last(f["path"]), "callee": last(d), "where": loc(c), "group_argument_from": sorted(kinds)})
            if not ok:
                r.finding(f["path"], "group-arg:%s:%s" % (last(d), "/".join(sorted(kinds - {"forwarded", "group-stack-entry"}) or ["unknown"])), loc(c),
                          "`%s` is told its enclosing group is a value originating from %s; every sibling call passes the bracket's node index taken from the group stack - a depth is compared against node indices when the parent chain is walked, so the token escapes its brackets" % (last(d), sorted(kinds)))
    r.floor("calls passing the enclosing group", n, 5)
    return r


def rule_N4(ctx):
    """PartialOrd for SimpleNumber: every arm's ordering comes from `partial_cmp` of the primitive values (so NaN is
    incomparable and -0.0 equals 0.0); no arm manufactures a total order."""
    F = ctx.F
    r = RuleResult("N4", "number ordering is primitive partial_cmp: incomparable floats stay incomparable")
    cands = [f for f in F.fns.values() if f.get("trait_item") == "core::cmp::PartialOrd::partial_cmp" and f.get("impl_self", "").endswith("::SimpleNumber")]
    if not cands:
        r.anchor_missing("impl PartialOrd for SimpleNumber", "partial_cmp not found")
        return r
    f = cands[0]
    n = 0
    ms = [m for m in walk(f["hir"]) if m.get("k") == "Match" and m.get("src") == "Normal"]
    for m in ms:
        for arm in m["arms"]:
            n += 1
            body = peel(arm["body"])
            d = callee(body) if body.get("k") in ("Call", "MethodCall") else None
            ok = d is not None and last(d) == "partial_cmp" and (d.startswith("core::cmp::PartialOrd::partial_cmp") or "impl" in d)
            recv_ty = body.get("recv_ty", "") if body.get("k") == "MethodCall" else ""
            prim = recv_ty.lstrip("&").strip() in ("i32", "f64", "i64", "f32")
            r.examine((f["path"], loc(arm)), True, {"arm": loc(arm), "ordering_from": last(d) if d else body.get("k"), "on": recv_ty})
            # operand order: the receiver derives from the payload bound on the self side, the argument from the other side
            if ok and prim and body.get("k") == "MethodCall" and body.get("args"):
                pat = arm["pat"]
                while pat.get("k") in ("Ref", "Deref"):
                    pat = pat["pat"]
                if pat.get("k") == "Tuple" and len(pat["pats"]) == 2:
                    left_l = set(b["lid"] for b in walk(pat["pats"][0]) if b.get("k") == "Binding")
                    right_l = set(b["lid"] for b in walk(pat["pats"][1]) if b.get("k") == "Binding")
                    recv_l = set(x["lid"] for x in walk(body["recv"]) if x.get("k") == "Path" and x.get("res") == "local")
                    arg_l = set(x["lid"] for x in walk(body["args"][0]) if x.get("k") == "Path" and x.get("res") == "local")
                    if (recv_l & right_l and not recv_l & left_l) or (arg_l & left_l and not arg_l & right_l):
                        vn = [last((q.get("def") or "?")) for q in pat["pats"]]
                        for qi, q in enumerate(pat["pats"]):
                            while q.get("k") in ("Ref", "Deref"):
                                q = q["pat"]
                            vn[qi] = last(q.get("def") or "?")
                        r.finding(f["path"], "operands-swapped:" + ",".join(vn), loc(arm),
                                  "an arm of SimpleNumber::partial_cmp compares other with self (the receiver of partial_cmp is the right-hand payload): for that pair of representations `a < b` answers `b < a`")
            if not (ok and prim):
                inner = [last(callee(x) or "") for x in walk(arm["body"]) if x.get("k") in ("Call", "MethodCall")]
                r.finding(f["path"], "ordering-source:" + "/".join(sorted(set(i for i in inner if i)) or ["?"]), loc(arm),
                          "an arm of SimpleNumber::partial_cmp does not return the primitive partial_cmp of its operands (calls: %s): a total order such as total_cmp makes NaN comparable and separates -0.0 from 0.0" % sorted(set(inner)))
    r.floor("arms of SimpleNumber::partial_cmp", n, 4)
    return r


# ------------------------------------------------------------------------------------ G6
# Parent-chain walks are capped.  The parser finds where a token belongs, and finally the root, by following `parent` links
# upwards.  Malformed input can leave a loop in those links (`1+;;@a--2*3`), so every such walk counts its iterations and
# gives up with an error once the count exceeds the number of nodes - the termination argument for these loops.


def parent_walk_loops(f):
    """[(loop, capped?)] for the loops of f whose body reads a node's parent link."""
    out = []
    for lp in walk(f["hir"]):
        if lp.get("k") != "Loop" or str(lp.get("src", "")).startswith("ForLoop"):
            continue  # a `for` over an iterator ends with the iterator
        reads_parent = False
        for n in walk(lp):
            if n.get("k") == "Field" and n.get("name") == "parent":
                reads_parent = True
            if n.get("k") == "MethodCall" and n.get("m") == "get_parent":
                reads_parent = True
        if not reads_parent:
            continue
        # nested loops: judge the innermost loop that reads the link
        if any(x is not lp and x.get("k") == "Loop" and any((y.get("k") == "Field" and y.get("name") == "parent") or (y.get("k") == "MethodCall" and y.get("m") == "get_parent") for y in walk(x)) for x in walk(lp)):
            continue
        counters = set()
        for n in walk(lp):
            if n.get("k") == "AssignOp" and n.get("op") in ("+=", "+", "Add", "AddAssign"):
                l = hirq.local_of(n["l"])
                if l is not None:
                    counters.add(l)
            if n.get("k") == "Assign":
                l = hirq.local_of(n["l"])
                r_ = peel(n["r"])
                if l is not None and r_.get("k") == "Binary" and r_.get("op") == "+" and hirq.local_of(r_["l"]) == l:
                    counters.add(l)
        capped = False
        cap_ifs = []
        for n in walk(lp):
            if n.get("k") != "If":
                continue
            c = peel(n["cond"])
            if c.get("k") == "Binary" and c.get("op") in (">", ">=", "<", "<=", "=="):
                sides = [c["l"], c["r"]]
                has_counter = any(hirq.local_of(x) in counters for x in sides)
                has_len = any(peel(x).get("k") == "MethodCall" and peel(x).get("m") == "len" for x in sides)
                exits = any(x.get("k") == "Ret" or (x.get("k") == "Match" and x.get("src") == "TryDesugar") or x.get("k") == "Break" for x in walk(n.get("then") or {}))
                if has_counter and has_len and exits:
                    capped = True
                    cap_ifs.append(n)
        if capped:
            # ... on EVERY iteration that goes round again: a cap that only runs under some condition (`if under_group.is_none()`)
            # leaves the other iterations unbounded.  One-bit abstract run of an iteration: "the cap test was evaluated".
            from .rules_round3 import _d10_eval
            ids = set(id(x) for x in cap_ifs)
            def act(nd):
                return id(nd) in ids
            body = lp.get("body")
            target = body
            for m in walk(body):
                if m.get("k") == "If" and any(x.get("k") in ("Let", "LetExpr") for x in walk(m.get("cond") or {})):
                    target = m.get("then")
                    break
            if isinstance(target, dict) and "k" not in target and "stmts" in target:
                target = {"k": "Block", "b": target}
            drops = []
            fall = _d10_eval(target, {False}, drops, 0, act)
            if drops or False in fall:
                capped = False
        out.append((lp, capped))
    return out


def rule_G6(ctx):
    F = ctx.F
    r = RuleResult("G6", "parent-chain walks are capped: every parser loop that follows parent links counts its iterations and gives up once the count exceeds the number of nodes")
    n = 0
    for f in sorted(F.fns.values(), key=lambda f: f["path"]):
        if f["crate"] != "garnish_lang_compiler" or "::parse::" not in f["path"] or f["kind"] == "Closure":
            continue
        k = 0
        for lp, capped in parent_walk_loops(f):
            n += 1
            k += 1
            r.examine((f["path"], loc(lp)), True, {"fn": f["path"], "loop": loc(lp), "capped": capped})
            if not capped:
                r.finding(f["path"], "uncapped-parent-walk#%d" % k, loc(lp), "the loop at %s follows parent links without an iteration cap tied to the node count: a loop in the parent chain (malformed input can produce one) makes the parser spin forever" % loc(lp))
    r.floor("parser loops following parent links", n, 2)
    for f in F.fns_in("gfixture::g6::"):
        if f["kind"] == "Closure":
            continue
        res = parent_walk_loops(f)
        bad = any(not c for _l, c in res)
        if f["name"].startswith("ctl_"):
            r.control(f["name"], bad)
        elif f["name"].startswith("ok_"):
            r.neg_control(f["name"], bool(res) and not bad)
    return r
