"""A7 character accounting and A9 position accounting of the lexer, by abstract interpretation of the character consumer's
MIR once per (lexing state, character class).

The consumer (`process_char(&mut self, c)`) is interpreted with the character fixed to one representative of each class the
code can tell apart - every character literal the lexer compares with, every character of the operator table, and one
member of each std class it asks about (alphabetic, numeric, ASCII whitespace, other) - and with the lexing state fixed
to each of its variants; everything else (buffer content, counters, flags other than the ones listed) stays abstract.
Events are counted along every path:

  A7  the character is pushed onto the token buffer (+1), popped again (-1), the buffer is turned into a token (its live
      copies are *emitted*), the buffer is reset.  On every path that ends without a recorded error
      live + emitted == 1: the character is part of exactly one token text - never dropped (0) and never duplicated (2);
      and a reset never discards a live copy that was not emitted.
  A9  for the line feed: the row counter advances exactly once and the column counter is not advanced; for every other
      character (except the two whose accounting the language leaves open, CR and FF) the row counter does not move and
      the column counter advances exactly once.

Both are necessary conditions of C13 (token texts reproduce the input; a token's line is the line of its first character)
and hold for every input because they hold for every (state, class) step.  What is trusted: the class partition (only the
enumerated predicates are applied to the character - anything else fails closed), the model of the trie walk (a buffer
containing a character that is in no operator spelling matches no trie node; the spellings come from T2's table), and the
`chars().all(pred)` shape of the identifier test."""
from .facts import loc, walk
from . import ai, mirq, hirq
from .ai import const, variant, is_variant, TOP
from .hirq import last
from .report import RuleResult

STRING_PUSH = "alloc::string::String::push"
STRING_POP = "alloc::string::String::pop"
STRING_NEW = "alloc::string::String::new"
CHAR_PREDS = {
    "is_numeric": lambda ch: ch.isnumeric(),
    "is_alphanumeric": lambda ch: ch.isalnum(),
    "is_alphabetic": lambda ch: ch.isalpha(),
    "is_ascii_whitespace": lambda ch: ch in " \t\n\x0c\r",
    "is_whitespace": lambda ch: ch.isspace(),
    "is_ascii_digit": lambda ch: ch in "0123456789",
    "is_ascii_alphanumeric": lambda ch: ch.isascii() and ch.isalnum(),
    "is_ascii_alphabetic": lambda ch: ch.isascii() and ch.isalpha(),
    "is_ascii": lambda ch: ch.isascii(),
    "is_control": lambda ch: ord(ch) < 32 or 127 <= ord(ch) < 160,
    "is_ascii_punctuation": lambda ch: ch.isascii() and not ch.isalnum() and not ch.isspace() and 32 < ord(ch) < 127,
}
UNSETTLED = (13, 12)  # CR, FF: the property leaves their line/column accounting open


class Unmodelled(Exception):
    pass


class LexShape:
    """Name-free description of the lexer: struct, fields by role, the consumer / starter / trie-walk functions."""

    def __init__(self, F):
        self.F = F
        self.err = None
        cands = [(p, a) for p, a in F.adts.items() if a["kind"] == "struct" and p.startswith("garnish_lang_compiler") and p.endswith("::lexer::Lexer")]
        if not cands:
            self.err = "struct *::lexer::Lexer not found"
            return
        self.struct, adt = cands[0]
        self.fields = adt["variants"][0]["fields"]
        short = self.struct.split("::")[-1]
        self.methods = [f for f in F.fns.values() if f["crate"] == "garnish_lang_compiler" and f["kind"] != "Closure" and (f.get("impl_self") or "").split("<")[0].endswith(short)]
        def sig(f):
            ls = f["mir"]["locals"]
            return [ls[i]["ty"] for i in range(0, f["mir"]["argc"] + 1)]
        self.consumer = self.starter = None
        self.walks = []
        for f in self.methods:
            s = sig(f)
            if len(s) == 3 and s[1].startswith("&mut ") and s[2] == "char":
                if s[0].startswith("core::option::Option<") and "LexerToken" in s[0]:
                    self.consumer = f
                elif s[0] == "()":
                    self.starter = f
            if len(s) == 2 and s[0].startswith("core::option::Option<&") and "OperatorNode" in s[0]:
                self.walks.append(f["path"])
        if not self.consumer or not self.starter or not self.walks:
            self.err = "consumer (&mut self, char) -> Option<LexerToken>, starter (&mut self, char) -> () or trie walk not found"
            return
        idx = {}
        strings = [i for i, fd in enumerate(self.fields) if fd["ty"] == "alloc::string::String"]
        if len(strings) != 1:
            self.err = "expected exactly one String field (the token buffer), found %d" % len(strings)
            return
        idx["buffer"] = strings[0]
        enums = [i for i, fd in enumerate(self.fields) if fd["ty"] in F.adts and F.adts[fd["ty"]]["kind"] == "enum" and all(not v["fields"] for v in F.adts[fd["ty"]]["variants"])]
        if len(enums) != 1:
            self.err = "expected exactly one field-less enum field (the lexing state), found %d" % len(enums)
            return
        idx["state"] = enums[0]
        self.state_variants = [v["name"] for v in F.adts[self.fields[enums[0]]["ty"]]["variants"]]
        res = [i for i, fd in enumerate(self.fields) if fd["ty"].startswith("core::result::Result<(), ")]
        if len(res) != 1:
            self.err = "error slot not found"
            return
        idx["result"] = res[0]
        self.bools = [i for i, fd in enumerate(self.fields) if fd["ty"] == "bool"]
        # row / column counters: LexerToken::new(text, type, row, column) <- start fields <- counters (in the starter)
        row = col = None
        tok_new = None
        mir = self.consumer["mir"]
        asg = mirq.assignments(mir)
        for b in mir["blocks"]:
            t = b["term"]
            if t["k"] == "Call" and last(t.get("def") or "") == "new" and "LexerToken" in (t.get("def") or "") and len(t["args"]) == 4:
                tok_new = t.get("def")
                fl = []
                for a in t["args"][2:4]:
                    l = mirq.op_local(a)
                    f_ = None
                    for o in (mirq.origins(mir, l, asg) if l is not None else []):
                        if o[1] != "term" and o[2].get("k") == "Use":
                            pl = mirq.op_place(o[2]["op"])
                            if pl and pl["l"] == 1 and len(pl["p"]) == 2 and isinstance(pl["p"][1], dict):
                                f_ = pl["p"][1]["f"]
                    fl.append(f_)
                if None not in fl:
                    srow, scol = fl
                    # counters: the fields copied into the start fields by the starter
                    sm = self.starter["mir"]
                    for sb in sm["blocks"]:
                        for s in sb["stmts"]:
                            if s["k"] == "Assign" and s["place"]["l"] == 1 and len(s["place"]["p"]) == 2 and isinstance(s["place"]["p"][1], dict):
                                tgt = s["place"]["p"][1]["f"]
                                l2 = mirq.op_local(s["rv"]["op"]) if s["rv"]["k"] == "Use" else None
                                src = None
                                if l2 is not None:
                                    for o in mirq.origins(sm, l2, mirq.assignments(sm)):
                                        if o[1] != "term" and o[2].get("k") == "Use":
                                            pl = mirq.op_place(o[2]["op"])
                                            if pl and pl["l"] == 1 and len(pl["p"]) == 2 and isinstance(pl["p"][1], dict):
                                                src = pl["p"][1]["f"]
                                if src is not None and tgt == srow:
                                    row = src
                                if src is not None and tgt == scol:
                                    col = src
        self.token_new = tok_new
        if row is None or col is None or tok_new is None:
            self.err = "row / column counters could not be derived from the token constructor's arguments"
            return
        idx["row"], idx["col"] = row, col
        self.idx = idx
        # flags with a resting value between characters, by role (no field names):
        #  * constructed `true`: the one-shot "restart with the current character" flag (A7 checks that every exit restores it)
        #  * the end-of-input flag: constructed `false`, set `true` by a method that then feeds the consumer a constant character
        self.rest_true, self.end_flag = set(), None
        for f in self.methods:
            for b in f["mir"]["blocks"]:
                for st_ in b["stmts"]:
                    if st_["k"] == "Assign" and st_["rv"]["k"] == "Aggregate" and st_["rv"].get("agg") == "Adt" and (st_["rv"].get("adt") or "") == self.struct:
                        asg_ = mirq.assignments(f["mir"])
                        for i, o in enumerate(st_["rv"].get("ops", [])):
                            if i not in self.bools:
                                continue
                            vals = set()
                            if "const" in o:
                                vals.add(o["const"].get("int"))
                            else:
                                l_ = mirq.op_local(o)
                                for og in (mirq.origins(f["mir"], l_, asg_) if l_ is not None else []):
                                    if og[1] != "term" and og[2].get("k") == "Use" and "const" in og[2]["op"]:
                                        vals.add(og[2]["op"]["const"].get("int"))
                                    else:
                                        vals.add(None)
                            if vals == {1}:
                                self.rest_true.add(i)
        for f in self.methods:
            if f is self.consumer or f is self.starter:
                continue
            feeds_const = any(b["term"]["k"] == "Call" and (b["term"].get("def") == self.consumer["path"]) and len(b["term"]["args"]) == 2 and "const" in b["term"]["args"][1] for b in f["mir"]["blocks"])
            if not feeds_const:
                continue
            for b in f["mir"]["blocks"]:
                for st_ in b["stmts"]:
                    if st_["k"] == "Assign" and st_["rv"]["k"] == "Use" and "const" in st_["rv"]["op"] and st_["rv"]["op"]["const"].get("int") == 1:
                        fi, whole = self.field_of(st_["place"])
                        if fi in self.bools and whole and fi not in self.rest_true:
                            self.end_flag = fi
        self.key = lambda role: "_1.*.%d" % idx[role]
        self.tracked = set("_1.*.%d" % i for i in [idx["state"], idx["result"]] + self.bools)

    def field_of(self, place):
        """field index when place is (*_1).<field>[...]"""
        pr = place["p"]
        if place["l"] == 1 and len(pr) >= 2 and pr[0] == "*" and isinstance(pr[1], dict) and "f" in pr[1]:
            return pr[1]["f"], len(pr) == 2
        return None, False


def all_pred_fn(F, path):
    """`fn(s: &str) -> bool { s.chars().all(pred) }` -> def path of pred, else None"""
    f = F.fns.get(path)
    if not f or not f.get("hir"):
        return None
    for n in walk(f["hir"]):
        if n.get("k") == "MethodCall" and (n.get("def") or "").endswith("Iterator::all") and n["args"]:
            r = hirq.peel(n["recv"])
            if r.get("k") == "MethodCall" and (r.get("def") or "").endswith("::chars"):
                pd = hirq.path_def(n["args"][0])
                if pd in F.fns:
                    return pd
    return None


class Step:
    """One abstract step: the consumer (or, inlined, the starter) interpreted with character `code` fixed."""

    # ts = (live, emitted, lastc, row_inc, col_inc, col_reset, notes)
    def __init__(self, sh, code, alphabet, depth=0, cparams=(2,)):
        self.cparams = set(cparams)  # parameter locals of the interpreted function that hold the consumed character
        self.sh = sh
        self.F = sh.F
        self.code = code
        self.alphabet = alphabet
        self.depth = depth
        self.viol = []
        self.pure_cache = {}

    # ---------------------------------------------------------------- helpers
    def is_c(self, v):
        return isinstance(v, tuple) and v and v[0] == "c" and v[1] == self.code

    def deref(self, interp, v, env):
        if isinstance(v, tuple) and v and v[0] == "r":
            return interp.read_key(v[1], env)
        return v

    def pure(self, path, argvals):
        """Evaluate a workspace function on constant arguments (no tracked state): the constant it returns on every path, or TOP."""
        k = (path, tuple(argvals))
        if k in self.pure_cache:
            return self.pure_cache[k]
        self.pure_cache[k] = TOP
        f = self.F.fns.get(path)
        if f is None or f["kind"] == "Closure":
            return TOP
        init = {"_%d" % (i + 1): a for i, a in enumerate(argvals) if a is not TOP}
        sub = ai.Interp(f, hooks={"on_call": lambda it, env, ts, bi, t: self._pure_call(it, env, ts, t)}, init_env=init, cap=4000)
        try:
            sub.run()
        except ai.StateCapExceeded:
            return TOP
        vals = set(sub.read_key("_0", env) for env, _ts, _b in sub.returns)
        if len(vals) == 1:
            v = vals.pop()
            if isinstance(v, tuple) and v and v[0] == "c":
                self.pure_cache[k] = v
        return self.pure_cache[k]

    def _pure_call(self, it, env, ts, t):
        v = self.char_pred(it, env, t)
        if v is not None:
            return [(v, ts, None)]
        return None

    def char_pred(self, interp, env, t):
        d = t.get("def") or ""
        if d.startswith("core::char::methods::<impl char>::") and t["args"]:
            a = self.deref(interp, interp.operand(t["args"][0], env), env)
            nm = last(d)
            if isinstance(a, tuple) and a and a[0] == "c":
                if nm in CHAR_PREDS:
                    return const(1 if CHAR_PREDS[nm](chr(a[1])) else 0)
                if nm in ("len_utf8", "to_ascii_lowercase", "to_ascii_uppercase"):
                    return TOP
                raise Unmodelled("char method %s applied to the consumed character is not in the class partition (%s)" % (nm, loc(t)))
        return None

    # ---------------------------------------------------------------- hooks
    def on_assign(self, interp, env, ts, bi, st):
        sh = self.sh
        fld, whole = sh.field_of(st["place"])
        if fld is None:
            return None
        live, emitted, lastc, row_inc, col_inc, col_reset, notes = ts
        rv = st["rv"]
        if fld == sh.idx["buffer"] and whole:
            # a whole-buffer store: fresh String (reset) or a value derived from the buffer (kept)
            fresh = False
            l = mirq.op_local(rv["op"]) if rv["k"] == "Use" else None
            if l is not None:
                orgs = mirq.origins(interp.mir, l, self._asg(interp))
                fresh = bool(orgs) and all(o[1] == "term" and (o[2].get("def") or "") == STRING_NEW for o in orgs)
            if fresh:
                rk = sh.key("result")
                slot = env.get(rk)
                slot = slot[1] if is_variant(slot) else (env.get(rk + ".#") or (None, "?"))[1]
                if live > 0 and emitted == 0 and slot != "Err":
                    self.viol.append(("dropped-by-reset", loc(st), "the token buffer is reset while it holds the consumed character and no token was made from it"))
                return ((0, emitted, False, row_inc, col_inc, col_reset, notes),)
            return None
        if fld in (sh.idx["row"], sh.idx["col"]) and whole:
            kind = None
            if rv["k"] == "Use" and "const" in rv["op"] and rv["op"]["const"].get("int") == 0:
                kind = "zero"
            else:
                l = mirq.op_local(rv["op"]) if rv["k"] == "Use" else None
                if l is None and rv["k"] == "Use":
                    pl = mirq.op_place(rv["op"])
                    l = pl["l"] if pl else None
                if l is not None:
                    for o in mirq.origins(interp.mir, l, self._asg(interp)):
                        n_ = o[2]
                        if o[1] != "term" and n_.get("k") == "BinaryOp" and n_["op"].startswith("Add"):
                            ops = [n_["l"], n_["r"]]
                            one = any("const" in x and x["const"].get("int") == 1 for x in ops)
                            selfread = any((mirq.op_place(x) or {}).get("l") is not None for x in ops)
                            if one and selfread:
                                kind = "inc"
                        if o[1] != "term" and n_.get("k") == "BinaryOp" and n_["op"].startswith("Sub"):
                            kind = "dec"
            if kind is None:
                kind = "other"
            if fld == sh.idx["row"]:
                if kind == "inc":
                    row_inc += 1
                else:
                    notes = notes + (("row-" + kind, loc(st)),)
            else:
                if kind == "inc":
                    col_inc += 1
                elif kind == "zero":
                    col_reset += 1
                else:
                    notes = notes + (("col-" + kind, loc(st)),)
            return ((live, emitted, lastc, row_inc, col_inc, col_reset, notes),)
        return None

    @staticmethod
    def on_switch(interp, env, ts, bi, t, d):
        """A branch on a logging level (inside the expansion of log's trace!/debug!...) has no effect on anything tracked:
        follow the 'disabled' edge only."""
        ex = t.get("exp") or []
        if any(m in ("trace", "debug", "info", "warn", "error", "log") or m.endswith("::log") or m.endswith("::__log") for m in ex):
            for v, bb in t["targets"]:
                if v == 0:
                    return [(bb, dict(env), ts)]
        return None

    def _asg(self, interp):
        a = interp.__dict__.get("_asg_cache")
        if a is None:
            a = mirq.assignments(interp.mir)
            interp.__dict__["_asg_cache"] = a
        return a

    def from_param(self, interp, operand):
        """is the operand (a copy of) a parameter holding the consumed character, as opposed to a literal?"""
        if "const" in operand:
            return False
        l = mirq.op_local(operand)
        if l is None:
            pl = mirq.op_place(operand)
            l = pl["l"] if pl else None
        if l is None:
            return False
        if l in self.cparams:
            return True
        return any(o[2].get("k") == "Param" and o[2].get("index") in self.cparams for o in mirq.origins(interp.mir, l, self._asg(interp)))

    def buffer_ref(self, interp, v):
        return isinstance(v, tuple) and v and v[0] == "r" and v[1] == self.sh.key("buffer")

    def on_call(self, interp, env, ts, bi, t):
        sh = self.sh
        d = t.get("resolved") or t.get("def") or ""
        dd = t.get("def") or ""
        args = [interp.operand(a, env) for a in t["args"]]
        live, emitted, lastc, row_inc, col_inc, col_reset, notes = ts
        v = self.char_pred(interp, env, t)
        if v is not None:
            return [(v, ts, None)]
        if dd == STRING_PUSH and args and self.buffer_ref(interp, args[0]):
            a = self.deref(interp, args[1], env) if len(args) > 1 else TOP
            if self.is_c(a) and self.from_param(interp, t["args"][1]):
                return [(TOP, (live + 1, emitted, True, row_inc, col_inc, col_reset, notes), None)]
            if isinstance(a, tuple) and a and a[0] == "c":
                return [(TOP, (live, emitted, False, row_inc, col_inc, col_reset, notes), None)]
            raise Unmodelled("an unknown character is pushed onto the token buffer at %s" % loc(t))
        if dd == STRING_POP and args and self.buffer_ref(interp, args[0]):
            if lastc and live > 0:
                return [(TOP, (live - 1, emitted, False, row_inc, col_inc, col_reset, notes), None)]
            return [(TOP, (live, emitted, False, row_inc, col_inc, col_reset, notes + (("pop-of-earlier-character", loc(t)),)), None)]
        if dd == sh.token_new:
            # is the text a plain clone of the buffer?
            l = mirq.op_local(t["args"][0])
            plain = False
            if l is not None:
                for o in mirq.origins(interp.mir, l, self._asg(interp)):
                    if o[1] == "term" and (o[2].get("def") or "").endswith("Clone::clone"):
                        av = interp.operand(o[2]["args"][0], env) if o[2]["args"] else TOP
                        pl = mirq.op_place(o[2]["args"][0]) if o[2]["args"] else None
                        # the clone's receiver is `&(*_1).buffer`
                        src = mirq.origins(interp.mir, pl["l"], self._asg(interp)) if pl else []
                        for so in src:
                            if so[1] != "term" and so[2].get("k") == "Ref":
                                f_, whole = sh.field_of(so[2]["place"])
                                if f_ == sh.idx["buffer"] and whole:
                                    plain = True
            notes = notes + (("token", loc(t)),)
            if plain:
                return [(TOP, (live, emitted + live, lastc, row_inc, col_inc, col_reset, notes), None)]
            return [(TOP, (live, emitted, lastc, row_inc, col_inc, col_reset, notes), None)]
        g_ = self.F.fns.get(d)
        if g_ is not None and g_ in sh.methods and d != sh.consumer["path"] and d not in sh.walks and g_["mir"]["argc"] >= 1 and (
                g_["mir"]["locals"][1]["ty"].startswith("&mut ") or (g_["mir"]["locals"][1]["ty"].startswith("&") and g_["mir"]["locals"][0]["ty"] == "bool")):
            return self.inline_method(interp, env, ts, t, args, g_)
        if d in sh.walks:
            # the trie walk over the buffer: a buffer holding a character of no operator spelling reaches no node
            if live > 0 and chr(self.code) not in self.alphabet:
                return [(variant("None"), ts, None)]
            return [(variant("None"), ts, None), (variant("Some", TOP), ts, None)]
        if dd in ("core::cmp::PartialEq::eq", "core::cmp::PartialEq::ne") and len(args) == 2:
            names = []
            for a in args:
                nm = None
                if isinstance(a, tuple) and a and a[0] == "r":
                    val = interp.read_key(a[1], env)
                    if is_variant(val):
                        nm = val[1]
                    else:
                        tg = env.get(a[1] + ".#")
                        if tg:
                            nm = tg[1]
                elif is_variant(a):
                    nm = a[1]
                names.append(nm)
            if None not in names and all(n in sh.state_variants for n in names):
                same = names[0] == names[1]
                return [(const(1 if same == (last(dd) == "eq") else 0), ts, None)]
            return [(const(0), ts, None), (const(1), ts, None)]
        if d in self.F.fns and self.F.fns[d]["crate"] == "garnish_lang_compiler":
            g = self.F.fns[d]
            gl = g["mir"]["locals"]
            argc = g["mir"]["argc"]
            if argc == 1 and gl[1]["ty"] == "char" and gl[0]["ty"] == "bool":
                a = self.deref(interp, args[0], env)
                if isinstance(a, tuple) and a and a[0] == "c":
                    r_ = self.pure(d, [a])
                    if r_ is TOP:
                        raise Unmodelled("character predicate %s could not be evaluated on %r" % (d, chr(a[1])))
                    return [(r_, ts, None)]
            if argc == 1 and gl[1]["ty"] == "&str" and gl[0]["ty"] == "bool":
                pred = all_pred_fn(self.F, d)
                if pred and live > 0:
                    r_ = self.pure(pred, [const(self.code)])
                    if isinstance(r_, tuple) and r_[0] == "c" and r_[1] == 0:
                        return [(const(0), ts, None)]
                return [(const(0), ts, None), (const(1), ts, None)]
            # other functions of the compiler crate (constructors, &self accessors): no tracked effect
            return None
        if dd.startswith("core::option::Option::<T>::") and args:
            nm = last(dd)
            a0 = self.deref(interp, args[0], env)
            if nm in ("map", "and_then", "filter", "copied", "cloned", "as_ref", "as_mut", "as_deref", "or", "xor", "take"):
                if is_variant(a0, "None") and nm not in ("or", "xor"):
                    return [(variant("None"), ts, None)]
                if is_variant(a0, "Some") and nm in ("map", "copied", "cloned", "as_ref", "as_mut", "as_deref"):
                    return [(variant("Some", TOP), ts, None)]
                return [(variant("None"), ts, None), (variant("Some", TOP), ts, None)]
        if dd == "core::slice::<impl [T]>::contains" and len(args) == 2:
            hay = self.deref(interp, args[0], env)
            needle = self.deref(interp, args[1], env)
            if isinstance(hay, tuple) and hay and hay[0] == "t" and all(isinstance(x, tuple) and x and x[0] == "c" for x in hay[1]) and isinstance(needle, tuple) and needle and needle[0] == "c":
                return [(const(1 if any(x[1] == needle[1] for x in hay[1]) else 0), ts, None)]
            if isinstance(needle, tuple) and needle and needle[0] == "c" and needle[1] == self.code and self.mentions_c_type(t):
                raise Unmodelled("membership test of the consumed character in a set that is not a constant array (%s)" % loc(t))
            return [(const(0), ts, None), (const(1), ts, None)]
        # any other call that receives the consumed character itself
        for a in t["args"]:
            av = self.deref(interp, interp.operand(a, env), env)
            if self.is_c(av) and not t.get("exp") and not dd.startswith(("core::fmt::", "alloc::fmt::")):
                lty = interp.mir["locals"][mirq.op_local(a)]["ty"] if mirq.op_local(a) is not None else ""
                if lty in ("char", "&char"):
                    raise Unmodelled("the consumed character is passed to %s, which the class partition does not know (%s)" % (dd, loc(t)))
        return None

    def mentions_c_type(self, t):
        return any("char" in (g.get("txt") or "") for g in t.get("gargs", []))

    def inline_method(self, interp, env, ts, t, args, g):
        """Interpret a `&mut self` method of the lexer in place: the tracked fields of *self flow in and out, a parameter that
        receives (a copy of) the consumed character keeps counting as that character, a literal does not."""
        if self.depth > 3:
            raise Unmodelled("lexer methods nest deeper than 4 calls at %s" % loc(t))
        sh = self.sh
        init_env = {}
        cparams = set()
        for i, a in enumerate(args):
            if i == 0:
                continue
            v = self.deref(interp, a, env) if not (isinstance(a, tuple) and a and a[0] == "r") else a
            if isinstance(v, tuple) and v and v[0] in ("c", "v", "t"):
                init_env["_%d" % (i + 1)] = v
            if isinstance(v, tuple) and v and v[0] == "c" and v[1] == self.code and self.from_param(interp, t["args"][i]) and g["mir"]["locals"][i + 1]["ty"] == "char":
                cparams.add(i + 1)
        for k in env:
            if k.startswith("_1.*."):
                init_env[k] = env[k]
        sub = Step(sh, self.code, self.alphabet, self.depth + 1, cparams)
        sub_ts = (ts[0], ts[1], ts[2], ts[3], ts[4], ts[5], ts[6])
        it = ai.Interp(g, hooks={"on_assign": sub.on_assign, "on_call": sub.on_call, "on_switch": Step.on_switch,
                                 "track": lambda k: ".*" not in k or k in sh.tracked or any(k.startswith(x + ".") for x in sh.tracked)},
                       init_env=init_env, init_ts=sub_ts, cap=8000)
        it.run()
        self.viol.extend(sub.viol)
        outs = []
        seen = set()
        for renv, rts, _b in it.returns:
            e2 = dict((k, v) for k, v in env.items() if not k.startswith("_1.*."))
            for k, v in renv.items():
                if k.startswith("_1.*."):
                    e2[k] = v
            rv = it.read_key("_0", renv)
            if isinstance(rv, tuple) and rv and rv[0] == "r":
                rv = TOP
            sig = (ai.freeze(e2), rts, repr(rv))
            if sig in seen:
                continue
            seen.add(sig)
            outs.append((rv, rts, e2))
        return outs


def run_step(sh, state, code, alphabet, at_end=False):
    """Interpret the consumer from `state` on character `code`.  Returns (exits, violations) with
    exits = set of (slot, live, emitted, row_inc, col_inc, col_reset, notes)."""
    st = Step(sh, code, alphabet)
    init = {"_2": const(code), sh.key("state") + ".#": ("vn", state), sh.key("result") + ".#": ("vn", "Ok")}
    for b in sh.bools:
        nm = sh.fields[b]["name"]
        init["_1.*.%d" % b] = TOP
    # the two flags with a documented resting value between characters
    for b in sh.bools:
        if b in sh.rest_true:
            init["_1.*.%d" % b] = const(1)
        if b == sh.end_flag:
            init["_1.*.%d" % b] = const(1 if at_end else 0)
    init = {k: v for k, v in init.items() if v is not TOP}
    it = ai.Interp(sh.consumer, hooks={"on_assign": st.on_assign, "on_call": st.on_call, "on_switch": Step.on_switch, "track": lambda k: ".*" not in k or k in sh.tracked or any(k.startswith(x + ".") for x in sh.tracked)},
                   init_env=init, init_ts=(0, 0, False, 0, 0, 0, ()), cap=30000)
    it.run()
    exits = set()
    rk = sh.key("result")
    for env, ts, _b in it.returns:
        slot = "?"
        v = env.get(rk)
        if is_variant(v):
            slot = v[1]
        elif env.get(rk + ".#"):
            slot = env[rk + ".#"][1]
        sc = env.get("_1.*.%d" % sorted(sh.rest_true)[0]) if sh.rest_true else None
        exits.add((slot, ts[0], ts[1], ts[3], ts[4], ts[5], ts[6], sc))
    return exits, st.viol, it.visited


def _char_literals(fns):
    lits = set()
    for f in fns:
        for m in [f["mir"]] + list(f.get("promoted") or []):
            for b in m["blocks"]:
                for st_ in b["stmts"]:
                    if st_["k"] == "Assign":
                        for o in _operands(st_["rv"]):
                            c = o.get("const") if isinstance(o, dict) else None
                            if c and c.get("ty") == "char" and "int" in c:
                                lits.add(c["int"])
                t = b["term"]
                if t["k"] == "Call":
                    for o in t["args"]:
                        c = o.get("const")
                        if c and c.get("ty") == "char" and "int" in c:
                            lits.add(c["int"])
    return lits


def representatives(sh, alphabet):
    """One character per class the lexer can tell apart: every character literal its code compares with stays an individual;
    the operator alphabet and the std classes are represented once per signature
    (a literal? in the alphabet? numeric / alphanumeric / ASCII whitespace / ASCII?)."""
    fns = [g for g in sh.F.fns.values() if g["crate"] == "garnish_lang_compiler" and "::lex::" in g["path"]
           and not (g.get("name") == "new" and "Lexer" in (g.get("impl_self") or ""))]  # `new` holds the operator table: its characters are the alphabet
    lits = _char_literals(fns)
    codes = set(lits) | set(ord(ch) for ch in alphabet) | set([ord("a"), ord("5"), 12, 1, 0xE9, 0x663, 0xA7, 0x2003, 32, 9, 13, 10, 0])
    out = {}
    for code in sorted(codes):
        ch = chr(code)
        sig = (code if code in lits else None, ch in alphabet, ch.isnumeric(), ch.isalnum(), ch in " \t\n\x0c\r", ch.isascii())
        out.setdefault(sig, code)
    return sorted(out.values())


def _operands(rv):
    k = rv["k"]
    if k in ("Use", "Cast", "Repeat"):
        return [rv["op"]]
    if k == "BinaryOp":
        return [rv["l"], rv["r"]]
    if k == "UnaryOp":
        return [rv["e"]]
    if k == "Aggregate":
        return list(rv["ops"])
    return []


def analyse(ctx):
    key = "lexer2"
    if key in ctx.memo:
        return ctx.memo[key]
    from .rules_tables import lexer_operator_table
    F = ctx.F
    sh = LexShape(F)
    res = {"shape": sh, "steps": [], "error": sh.err, "unmodelled": []}
    if sh.err:
        ctx.memo[key] = res
        return res
    rows = lexer_operator_table(F)
    alphabet = set(ch for s, _t, _f, _w in rows for ch in s)
    res["alphabet"] = "".join(sorted(alphabet))
    reps = representatives(sh, alphabet)
    res["representatives"] = reps
    jobs = []
    for state in sh.state_variants:
        for code in reps:
            for at_end in ([False] if code != 0 else [False, True]):
                jobs.append((state, code, at_end))
    global _JOB_CTX
    _JOB_CTX = (sh, alphabet)
    import multiprocessing, os
    results = None
    if len(jobs) > 8 and os.environ.get("GCHECK_SERIAL") != "1":
        try:
            mpc = multiprocessing.get_context("fork")
            with mpc.Pool(min(16, os.cpu_count() or 4)) as pool:
                results = pool.map(_job, jobs, chunksize=4)
        except Exception:
            results = None
    if results is None:
        results = [_job(j) for j in jobs]
    for (state, code, at_end), out in zip(jobs, results):
        if out[0] == "ok":
            res["steps"].append({"state": state, "code": code, "at_end": at_end, "exits": out[1], "viol": out[2], "visited": out[3]})
        else:
            res["unmodelled"].append((state, code, out[1]))
    ctx.memo[key] = res
    return res


_JOB_CTX = None


def _job(j):
    sh, alphabet = _JOB_CTX
    state, code, at_end = j
    try:
        exits, viol, visited = run_step(sh, state, code, alphabet, at_end)
        return ("ok", exits, viol, visited)
    except (Unmodelled, ai.StateCapExceeded) as e:
        return ("unmodelled", str(e))


def _chr(code):
    return repr(chr(code))


def rule_A7(ctx):
    r = RuleResult("A7", "character accounting: on every path of the character consumer that records no error the consumed character is part of exactly one token text (pushed once and kept, or emitted once), per lexing state and character class")
    res = analyse(ctx)
    sh = res["shape"]
    if res["error"]:
        r.anchor_missing("lexer shape", res["error"])
        return r
    for state, code, why in res["unmodelled"]:
        r.finding(sh.consumer["path"], "unmodelled:%s:%d" % (state, code), "-", "cannot interpret state %s on %s: %s (failing closed)" % (state, _chr(code), why))
    n = 0
    groups = {}
    for s in res["steps"]:
        n += 1
        bad = []
        for (slot, live, emitted, row_inc, col_inc, col_reset, notes, sc) in s["exits"]:
            if slot == "Err":
                continue
            if s["code"] == 0 and s["at_end"]:
                continue  # the end-of-input sentinel is not a character of the input
            if live + emitted != 1:
                bad.append("dropped" if live + emitted == 0 else "duplicated(%d)" % (live + emitted))
            if sc is not None and not (isinstance(sc, tuple) and sc == ("c", 1)):
                bad.append("skip-flag-left-set")
            if sum(1 for n_ in notes if n_[0] == "token") > 1:
                bad.append("two-tokens-in-one-step")
        if not (s["code"] == 0 and s["at_end"]):
            for kind, where, msg in s["viol"]:
                bad.append(kind)
        r.examine((s["state"], s["code"], s["at_end"]), True, {"state": s["state"], "char": _chr(s["code"]), "paths_to_return": len(s["exits"]), "abstract_states": s["visited"]} if n % 37 == 1 else None)
        for b in sorted(set(bad)):
            groups.setdefault((s["state"], b), []).append(s["code"])
    for (state, b), codes in sorted(groups.items()):
        what = {"dropped": "is neither kept in the token buffer nor part of an emitted token: it is silently dropped", "skip-flag-left-set": "leaves the one-shot 'do not start a token with this character' flag set for the next character, which is then dropped",
                "dropped-by-reset": "is discarded by a buffer reset before any token was made from it",
                "two-tokens-in-one-step": "makes the step build two tokens although it can hand back only one: the first one (text consumed earlier) is overwritten and lost"}.get(b, "is accounted %s" % b)
        r.finding(sh.consumer["path"], "%s:%s" % (b, state), loc(sh.consumer["mir"]["blocks"][0]["term"]),
                  "in lexing state %s the character %s %s (on a path that records no error)" % (state, ", ".join(_chr(c) for c in codes[:6]) + (" ..." if len(codes) > 6 else ""), what))
    r.analysed["states"] = sh.state_variants
    r.analysed["character_classes"] = [_chr(c) for c in res["representatives"]]
    r.analysed["operator_alphabet"] = res["alphabet"]
    r.floor("(state, character class) steps interpreted", n, 100)
    r.control("mutated_copy_without_buffer_pushes", control_a7(sh, set(res["alphabet"])))
    return r


def rule_A9(ctx):
    r = RuleResult("A9", "position accounting: the line feed advances the row counter exactly once and not the column; every other character (CR / FF excepted) advances the column exactly once and not the row - per lexing state")
    res = analyse(ctx)
    sh = res["shape"]
    if res["error"]:
        r.anchor_missing("lexer shape", res["error"])
        return r
    for state, code, why in res["unmodelled"]:
        r.finding(sh.consumer["path"], "unmodelled:%s:%d" % (state, code), "-", "cannot interpret state %s on %s: %s (failing closed)" % (state, _chr(code), why))
    n = 0
    groups = {}
    for s in res["steps"]:
        code = s["code"]
        if code in UNSETTLED or (code == 0 and s["at_end"]):
            continue
        n += 1
        bad = set()
        for (slot, live, emitted, row_inc, col_inc, col_reset, notes, sc) in s["exits"]:
            if slot == "Err":
                continue
            if code == 10:
                if row_inc != 1:
                    bad.add("line-feed-row-advanced-%d-times" % row_inc)
                if col_inc != 0:
                    bad.add("line-feed-advances-column")
            else:
                if row_inc != 0:
                    bad.add("row-advanced-by-non-newline")
                if col_inc != 1:
                    bad.add("column-advanced-%d-times" % col_inc)
        r.examine((s["state"], code, s["at_end"]), True, {"state": s["state"], "char": _chr(code)} if n % 41 == 1 else None)
        for b in bad:
            groups.setdefault((s["state"], b), []).append(code)
    for (state, b), codes in sorted(groups.items()):
        r.finding(sh.consumer["path"], "%s:%s" % (b, state), loc(sh.consumer["mir"]["blocks"][0]["term"]),
                  "in lexing state %s, consuming %s: %s on a path that records no error - the line / column reported for every later token is off" % (state, ", ".join(_chr(c) for c in codes[:6]) + (" ..." if len(codes) > 6 else ""), b.replace("-", " ")))
    r.floor("(state, character class) steps interpreted", n, 100)
    r.control("mutated_copy_without_row_stores", control_a9(sh, set(res["alphabet"])))
    return r


# ---------------------------------------------------------------------------------------------------------------------
# A14  per-token reset completeness.  When a token ends the consumer returns the lexer to its neutral state: state := the
#      neutral variant, buffer := empty, type := none - and every counter / flag that the consumer both sets to a constant and
#      changes while a token is being read.  One that is left out of the reset carries its value into the next token (the
#      closing-quote count of the previous literal makes the next one-character literal end late or never).
def reset_analysis(sh):
    # the consumer and the `&mut self` methods it (transitively) calls: a refactor may move the reset into a helper
    fns, work = [], [sh.consumer]
    while work:
        f = work.pop()
        if f in fns:
            continue
        fns.append(f)
        for b in f["mir"]["blocks"]:
            t = b["term"]
            if t["k"] == "Call":
                g = sh.F.fns.get(t.get("resolved") or t.get("def") or "")
                if g is not None and g in sh.methods and g is not sh.starter and g["mir"]["argc"] >= 1 and g["mir"]["locals"][1]["ty"].startswith("&mut "):
                    work.append(g)
    writes = {}   # field -> list of (fn index, block, kind)
    regions = []
    for xi, f in enumerate(fns):
        bl = f["mir"]["blocks"]
        local = {}
        for bi, b in enumerate(bl):
            if b["cleanup"]:
                continue
            for s in b["stmts"]:
                if s["k"] != "Assign":
                    continue
                fi, whole = sh.field_of(s["place"])
                if fi is None or not whole:
                    continue
                rv = s["rv"]
                kind = "const" if (rv["k"] == "Use" and "const" in rv["op"]) or (rv["k"] == "Aggregate" and not rv.get("ops")) else "other"
                local.setdefault(fi, []).append((bi, kind))
            t = b["term"]
            if t["k"] == "Call" and t.get("dest"):
                fi, whole = sh.field_of(t["dest"])
                if fi is not None and whole:
                    local.setdefault(fi, []).append((bi, "call:" + last(t.get("def") or "")))
        for fi, ws in local.items():
            writes.setdefault(fi, []).extend((xi, b_, k_) for b_, k_ in ws)
        preds = {}
        for bi, b in enumerate(bl):
            for s_ in mirq.succs(b["term"]):
                preds.setdefault(s_, []).append(bi)
        def chain(bi):
            out, seen, x = [bi], {bi}, bi
            while True:
                t = bl[x]["term"]
                nxt = t["target"] if t["k"] == "Goto" else (t.get("target") if t["k"] in ("Call", "Drop", "Assert") else None)
                if nxt is None or nxt in seen or bl[nxt]["cleanup"]:
                    break
                out.append(nxt); seen.add(nxt); x = nxt
            x = bi
            while True:
                ps = [p for p in preds.get(x, []) if not bl[p]["cleanup"]]
                if len(ps) != 1 or ps[0] in seen or bl[ps[0]]["term"]["k"] not in ("Goto", "Call", "Drop", "Assert"):
                    break
                out.append(ps[0]); seen.add(ps[0]); x = ps[0]
            return set(out)
        for bi, _k in local.get(sh.idx["state"], []):
            region = chain(bi)
            fields = set(fi for fi, ws in local.items() for (b2, _k2) in ws if b2 in region)
            # a helper called inside the region contributes what it assigns on its own straight line
            if sh.idx["buffer"] in fields:
                regions.append((xi, region, fields))
    excluded = {sh.idx["row"], sh.idx["col"], sh.idx["state"], sh.idx["result"], sh.idx["buffer"]} | set(sh.rest_true) | ({sh.end_flag} if sh.end_flag is not None else set())
    cands = {}
    for fi, ws in writes.items():
        if fi in excluded or sh.fields[fi]["ty"] not in ("usize", "bool", "u32", "u64", "i32"):
            continue
        kinds = set(k for _x, _b, k in ws)
        if "const" in kinds and (kinds - {"const"} or sh.fields[fi]["ty"] == "bool"):
            cands[fi] = ws
    return [(reg, fields) for _xi, reg, fields in regions], cands, set()


def rule_A14(ctx):
    F = ctx.F
    r = RuleResult("A14", "per-token reset completeness: the block that returns the lexer to its neutral state when a token ends also resets every counter / flag the consumer both sets to a constant and changes while reading a token")
    sh = LexShape(F)
    if sh.err:
        r.anchor_missing("lexer shape", sh.err)
        return r
    regions, cands, starter_fields = reset_analysis(sh)
    r.floor("token-end reset blocks (state and buffer reset together)", len(regions), 1)
    r.floor("per-token counters / flags", len(cands), 2)
    for fi in sorted(cands):
        nm = sh.fields[fi]["name"]
        ok = all(fi in fields for _reg, fields in regions) or False
        r.examine((nm,), True, {"field": nm, "reset_with_the_token": ok})
        if not ok:
            r.finding(sh.consumer["path"], "not-reset-with-token:%s" % nm, loc(sh.consumer["mir"]["blocks"][0]["term"]), "the lexer field `%s` is set to a constant and changed while a token is read, but the block that ends a token (state, buffer and type reset) does not reset it: its value carries over into the next token - e.g. the closing-quote count of the previous literal makes a following one-character literal end late, swallowing source text" % nm)
    r.control("mutated_copy_with_one_reset_store_removed", control_a14(sh))
    return r


# ---------------------------------------------------------------------------------------------------------------------
# In-memory mutation controls.  A7 / A9 / A14 expect zero findings on the tree and the lexer is one of a kind (no fixture twin),
# so each run also analyses a copy of the consumer's MIR with the behaviour under test removed - every push of the consumed
# character into the token buffer, every store to the row counter, one store of the per-token reset - and must report it.
def _mutated_shape(sh, edit):
    """a copy of the lexer shape in which `edit` was applied to (copies of) every method except the starter and the trie walks;
    the behaviour under test may sit in a helper the consumer calls"""
    import copy
    sh2 = copy.copy(sh)
    ms, over = [], {}
    for m in sh.methods:
        if m is sh.starter or m["path"] in sh.walks:
            ms.append(m)
            continue
        m2 = copy.deepcopy(m)
        edit(m2)
        ms.append(m2)
        over[m2["path"]] = m2
        if m is sh.consumer:
            sh2.consumer = m2
    sh2.methods = ms
    sh2.F = _FnsOverlay(sh.F, over)
    return sh2


def control_a7(sh, alphabet):
    def edit(f):
        for b in f["mir"]["blocks"]:
            t = b["term"]
            if t["k"] == "Call" and (t.get("def") or "").endswith("String::push") and t.get("target") is not None:
                b["term"] = {"k": "Goto", "target": t["target"], "sp": t.get("sp"), "exp": None}
    sh2 = _mutated_shape(sh, edit)
    for state in sh.state_variants:
        try:
            exits, viol, _v = run_step(sh2, state, 97, alphabet, False)
        except (Unmodelled, ai.StateCapExceeded):
            continue
        for (slot, live, emitted, row_inc, col_inc, col_reset, notes, sc) in exits:
            if slot != "Err" and live + emitted != 1:
                return True
    return False


def control_a9(sh, alphabet):
    row = sh.idx["row"]
    def edit(f):
        for b in f["mir"]["blocks"]:
            b["stmts"] = [s for s in b["stmts"] if not (s["k"] == "Assign" and sh.field_of(s["place"]) == (row, True))]
    sh2 = _mutated_shape(sh, edit)
    for state in sh.state_variants:
        try:
            exits, viol, _v = run_step(sh2, state, 10, alphabet, False)
        except (Unmodelled, ai.StateCapExceeded):
            continue
        for (slot, live, emitted, row_inc, col_inc, col_reset, notes, sc) in exits:
            if slot != "Err" and row_inc != 1:
                return True
    return False


def control_a14(sh):
    regions, cands, _s = reset_analysis(sh)
    if not cands or not regions:
        return False
    victim = sorted(cands)[-1]
    def edit(f):
        for b in f["mir"]["blocks"]:
            b["stmts"] = [s for s in b["stmts"] if not (s["k"] == "Assign" and sh.field_of(s["place"]) == (victim, True) and s["rv"]["k"] == "Use" and "const" in s["rv"]["op"])]
    sh2 = _mutated_shape(sh, edit)
    regions2, cands2, _s2 = reset_analysis(sh2)
    # with the constant stores gone the field is either no longer reset with the token, or no longer a counter that is reset at all
    return victim not in cands2 or not all(victim in fields for _reg, fields in regions2)


class _FnsOverlay:
    def __init__(self, F, over):
        self._F = F
        self.fns = dict(F.fns)
        self.fns.update(over)

    def __getattr__(self, k):
        return getattr(self._F, k)
