"""Store rules for BasicGarnishData / SimpleGarnishData: D3 block-stanza-agreement, W1 writers."""
from .facts import walk, loc
from . import hirq
from .hirq import peel, callee, call_args, last
from .origin import Body
from .report import RuleResult
from .rules_numeric import allow


def _self_block_field(e):
    """`self.<block>` field expression (a StorageBlock field of self) -> block field name, else None."""
    e = peel(e)
    if e.get("k") == "Field" and "StorageBlock" in e.get("ty", ""):
        return e["name"]
    if e.get("k") == "MethodCall" and "StorageBlock" in e.get("ty", ""):
        # accessor form self.data_block() / self.data_block_mut()
        n = e["m"]
        return n[:-4] if n.endswith("_mut") else n
    return None


def _block_of_member(e, member):
    """e is `<block expr>.<member>` -> block name."""
    e = peel(e)
    if e.get("k") == "Field" and e.get("name") == member:
        return _self_block_field(e["e"])
    return None


_BODIES = {}


def _body_of(f):
    from .origin import Body
    if id(f) not in _BODIES:
        _BODIES[id(f)] = Body(f)
    return _BODIES[id(f)]


def analyse_push_sibling(F, f):
    """Roles of one push_to_*_block sibling: guard block(s), grown position/block, size args, pushed block, slices."""
    roles = {"guard": set(), "grow": [], "sizes": {}, "push": set(), "slice": set(), "where": f["span"]}
    for n in walk(f["hir"]):
        k = n.get("k")
        if k == "Binary" and n.get("op") in (">=", ">", "==", "<", "<="):
            for side in ("l", "r"):
                for m in ("cursor", "size"):
                    b = _block_of_member(n[side], m)
                    if b:
                        roles["guard"].add(b)
        if k in ("MethodCall", "Call"):
            d = callee(n) or ""
            if last(d) == "reallocate_heap":
                args = call_args(n)[1:] if n.get("k") == "MethodCall" else call_args(n)
                for i, a in enumerate(args):
                    pa = peel(a)
                    # an argument bound to a local first (`let grown = self.x_block.next_size();`)
                    hops = 0
                    while pa.get("k") == "Path" and pa.get("res") == "local" and hops < 4:
                        ds = [d_ for d_ in _body_of(f).defs.get(pa["lid"], []) if isinstance(d_, dict) and d_.get("k") not in ("Param", "ClosureParam", "Destructure", "Field")]
                        if len(ds) != 1:
                            break
                        pa = peel(ds[0])
                        a = ds[0]
                        hops += 1
                    if pa.get("k") == "MethodCall" and pa.get("m") == "next_size":
                        roles["grow"].append((i, _self_block_field(pa["recv"])))
                    else:
                        b = _block_of_member(a, "size")
                        roles["sizes"][i] = b
                roles["nargs"] = len(args)
            elif last(d) == "push_to_block":
                for a in call_args(n):
                    b = _self_block_field(a)
                    if b:
                        roles["push"].add(b)
        if k == "Index":
            for m in walk(n["idx"]):
                if m.get("k") == "Field" and m.get("name") in ("start", "cursor"):
                    b = _self_block_field(m["e"])
                    if b:
                        roles["slice"].add(b)
    return roles


def d3_push_findings(F, fns):
    """Cross-check the siblings; returns (findings, template) where template[i] = block at reallocate position i."""
    roles = {f["path"]: analyse_push_sibling(F, f) for f in fns}
    findings = []
    # position template by majority of `.size` arguments
    votes = {}
    for p, r in roles.items():
        for i, b in r["sizes"].items():
            votes.setdefault(i, {}).setdefault(b, 0)
            votes[i][b] += 1
    template = {}
    for i, v in votes.items():
        best = sorted(v.items(), key=lambda kv: -kv[1])
        template[i] = best[0][0]
    for p, r in sorted(roles.items()):
        where = ":".join(r["where"].split(":")[:2])
        if len(r["grow"]) != 1:
            findings.append((p, "grow-count", where, "expected exactly one next_size() argument to reallocate_heap, found %d" % len(r["grow"])))
            continue
        gi, gb = r["grow"][0]
        if len(r["guard"]) != 1:
            findings.append((p, "guard-blocks", where, "the fullness test mixes blocks %s" % sorted(r["guard"])))
        own = sorted(r["guard"])[0] if r["guard"] else gb
        if gb != own:
            findings.append((p, "grow-block", where, "tests %s for fullness but grows %s (next_size() of the wrong block)" % (own, gb)))
        if template.get(gi) not in (None, own) or (gi not in template and False):
            findings.append((p, "grow-position", where, "grows argument position %d of reallocate_heap, which every sibling uses for %s, but this function's block is %s" % (gi, template.get(gi), own)))
        for i, b in sorted(r["sizes"].items()):
            if template.get(i) != b:
                findings.append((p, "size-position:%d" % i, where, "passes %s.size at position %d where the siblings pass %s.size" % (b, i, template.get(i))))
        if r["push"] != {own}:
            findings.append((p, "push-block", where, "pushes into %s but tested/grew %s" % (sorted(r["push"]), own)))
        if r["slice"] - {own}:
            findings.append((p, "slice-block", where, "slices the heap with the extent of %s while working on %s" % (sorted(r["slice"] - {own}), own)))
    # every position must be grown by exactly one sibling
    grown = {}
    for p, r in roles.items():
        for gi, gb in r["grow"]:
            grown.setdefault(gi, []).append(p)
    nargs = max([r.get("nargs", 0) for r in roles.values()] or [0])
    for i in range(nargs):
        if len(grown.get(i, [])) != 1:
            findings.append(("<siblings>", "position:%d" % i, "-", "reallocate_heap position %d is grown by %d sibling(s); expected exactly one" % (i, len(grown.get(i, [])))))
    return findings, template, roles


def analyse_reallocate(F, f, template):
    """Check the copy stanzas of reallocate_heap.  Each `for i in 0..<b>_cursor` loop with its following assignments
    must use one block throughout, and the size it installs must be the parameter at that block's position."""
    body = Body(f)
    params = [p.get("name") for p in f.get("params", [])]
    # parameter name -> position among the size parameters (skip self)
    ppos = {}
    k = 0
    for p in f.get("params", []):
        if p.get("k") == "Binding" and p.get("name") != "self":
            ppos[p["lid"]] = k
            k += 1
    findings = []
    stanzas = []

    def block_of_local_member(e, member):
        for o in body.origins(e):
            b = _block_of_member(o, member)
            if b:
                return b
        return None

    # linearise top-level statements of the function body
    top = peel(f["hir"])
    blk = top["b"] if top.get("k") == "Block" else None
    if blk is None:
        return [("<anchor>", "reallocate-shape", "-", "reallocate_heap body is not a block")], stanzas
    cur = None
    for st in blk["stmts"]:
        e = st.get("e") or st.get("init")
        if e is None:
            continue
        loops = [n for n in walk(e) if n.get("k") == "Loop" and str(n.get("src", "")).startswith("ForLoop")]
        # the for loop is wrapped in a Match(into_iter(range)) desugaring: find the range end
        fl = [n for n in walk(e) if n.get("k") == "Match" and n.get("src") == "ForLoopDesugar"]
        if fl:
            m = fl[0]
            rng = None
            for x in walk(m["scrut"]):
                if x.get("k") == "Struct" and (x.get("def") or "").startswith("core::ops::range::Range"):
                    rng = x
            cursor_block = None
            if rng:
                for fld in rng["fields"]:
                    if fld["name"] == "end":
                        cursor_block = block_of_local_member(fld["e"], "cursor")
            start_blocks = set()
            for x in walk(m):
                if x.get("k") == "Index":
                    for y in walk(x["idx"]):
                        if y.get("k") == "Path" and y.get("res") == "local":
                            b = block_of_local_member(y, "start")
                            if b:
                                start_blocks.add(b)
            cur = {"where": loc(m), "cursor": cursor_block, "starts": start_blocks, "set_start": set(), "set_size": set(), "size_param": set(), "advance_param": set()}
            stanzas.append(cur)
            continue
        # the copy loop may have been extracted into a helper: a call handed one block's cursor and start opens a stanza too
        ee0 = peel(e)
        if ee0.get("k") in ("Call", "MethodCall"):
            cbs, sbs = set(), set()
            for a in call_args(ee0):
                pa = peel(a)
                if pa.get("k") == "Path" and pa.get("res") == "local" or pa.get("k") == "Field":
                    b1 = block_of_local_member(a, "cursor")
                    b2 = block_of_local_member(a, "start")
                    if b1:
                        cbs.add(b1)
                    if b2:
                        sbs.add(b2)
            if cbs and sbs:
                cur = {"where": loc(ee0), "cursor": sorted(cbs)[0] if len(cbs) == 1 else "/".join(sorted(cbs)), "starts": sbs, "set_start": set(), "set_size": set(), "size_param": set(), "advance_param": set()}
                stanzas.append(cur)
                continue
        if cur is None:
            continue
        ee = peel(e)
        if ee.get("k") == "Assign":
            for member, key in (("start", "set_start"), ("size", "set_size")):
                b = _block_of_member(ee["l"], member)
                if b:
                    cur[key].add(b)
                    if member == "size":
                        l = hirq.local_of(ee["r"])
                        if l in ppos:
                            cur["size_param"].add(ppos[l])
        elif ee.get("k") == "AssignOp":
            l = hirq.local_of(ee["r"])
            if l in ppos:
                cur["advance_param"].add(ppos[l])
    inv = {b: i for i, b in template.items()}
    for i, s in enumerate(stanzas):
        blocks = set([s["cursor"]]) | s["starts"] | s["set_start"] | s["set_size"]
        blocks.discard(None)
        name = "stanza:%d" % i
        if len(blocks) != 1:
            findings.append((f["path"], name, s["where"], "copy stanza %d mixes blocks: cursor of %s, start of %s, writes start of %s and size of %s" % (
                i, s["cursor"], sorted(s["starts"]), sorted(s["set_start"]), sorted(s["set_size"]))))
            continue
        b = list(blocks)[0]
        if not s["set_start"] or not s["set_size"]:
            findings.append((f["path"], name, s["where"], "copy stanza %d for %s does not install both the new start and the new size" % (i, b)))
        want = inv.get(b)
        if s["size_param"] and want is not None and s["size_param"] != {want}:
            findings.append((f["path"], name + ":size", s["where"], "stanza for %s installs size parameter #%s but the callers pass that block's size at position %d" % (b, sorted(s["size_param"]), want)))
        if s["advance_param"] and s["size_param"] and s["advance_param"] != s["size_param"]:
            findings.append((f["path"], name + ":advance", s["where"], "stanza for %s advances the block start by parameter #%s but installs size parameter #%s" % (b, sorted(s["advance_param"]), sorted(s["size_param"]))))
    return findings, stanzas


def rule_D3(ctx):
    F = ctx.F
    r = RuleResult("D3", "block-stanza-agreement: the six push_to_*_block siblings and the six copy stanzas of reallocate_heap each use one block in every role")
    sib = []
    realloc = None
    for f in F.fns.values():
        if f["crate"] != "garnish_lang_simple_data" or f["kind"] == "Closure":
            continue
        names = set(last(d) for d, _n in hirq.calls_in(f["hir"]))
        if "reallocate_heap" in names and "push_to_block" in names:
            sib.append(f)
        if f.get("name") == "reallocate_heap":
            realloc = f
    r.floor("push_to_*_block siblings", len(sib), 6)
    fnd, template, roles = d3_push_findings(F, sib)
    for p, rl in roles.items():
        for role in ("guard", "grow", "push", "slice"):
            r.examine((p, role), True, {"fn": last(p), "role": role, "blocks": sorted(rl[role]) if role != "grow" else rl["grow"]} if role == "grow" else None)
        for i in rl["sizes"]:
            r.examine((p, "size", i), True)
    for p, inst, where, msg in fnd:
        r.finding(p, inst, where, msg)
    r.analysed["position_template"] = {str(k): v for k, v in sorted(template.items())}
    if realloc is None:
        r.anchor_missing("reallocate_heap", "function not found")
    else:
        fnd2, stanzas = analyse_reallocate(F, realloc, template)
        r.floor("copy stanzas in reallocate_heap", len(stanzas), 6)
        for s in stanzas:
            r.examine((realloc["path"], s["where"]), True, {"stanza": s["where"], "cursor": s["cursor"], "start": sorted(s["starts"]), "writes": sorted(s["set_start"] | s["set_size"])})
        for p, inst, where, msg in fnd2:
            r.finding(p, inst, where, msg)
    # controls from the fixture
    csib = [f for f in F.fns_in("gfixture::d3::") if f["kind"] != "Closure" and "push_to" in f.get("name", "")]
    if csib:
        cf, _t, _r = d3_push_findings(F, csib)
        r.control("ctl_push_to_b_block", any("ctl_push_to_b_block" in x[0] for x in cf))
        r.neg_control("ok_push_to_a_block", not any("ok_push_to_a_block" in x[0] for x in cf))
    return r


# --------------------------------------------------------------------------------------- W1


def rule_W1(ctx):
    """who-may-write: raw heap writers, stack-head writers, SimpleDataList mutation."""
    F = ctx.F
    r = RuleResult("W1", "writers: only the enumerated store primitives write the raw heap / the stack heads; SimpleGarnishData's data list is append-only")
    al = allow("heap_writers.json")
    # 1. functions that obtain a mutable view of the Basic heap: calls to data_mut(), &mut self.data, index-assign to self.data
    writers = {}
    for f in F.fns.values():
        if f["crate"] != "garnish_lang_simple_data":
            continue
        for n in walk(f["hir"]):
            k = n.get("k")
            hit = None
            if k == "MethodCall" and n.get("def", "").endswith("BasicGarnishData::<T, Companion>::data_mut"):
                hit = "data_mut()"
            elif k == "AddrOf" and n.get("mut"):
                inner = peel(n["e"])
                if inner.get("k") == "Field" and inner.get("name") == "data" and "BasicGarnishData" in inner.get("base_ty", ""):
                    hit = "&mut self.data"
            elif k in ("Assign", "AssignOp"):
                l = n["l"]
                for m in walk(l):
                    if m.get("k") == "Field" and m.get("name") == "data" and "BasicGarnishData" in m.get("base_ty", ""):
                        hit = "self.data[..] ="
            elif k == "MethodCall" and n.get("m") in ("push", "insert", "remove", "clear", "truncate", "resize", "sort_by", "swap", "extend", "pop", "drain"):
                rv = peel(n["recv"])
                if rv.get("k") == "Field" and rv.get("name") == "data" and "BasicGarnishData" in rv.get("base_ty", ""):
                    hit = "self.data.%s()" % n["m"]
            if hit:
                writers.setdefault(f["path"], set()).add(hit)
    # level 2: functions that hand out `&mut` into the heap, and their callers anywhere in the workspace
    providers = set(p for p in writers if "&mut" in F.fns[p]["hir"].get("ty", ""))
    changed = True
    while changed:
        changed = False
        for f in F.fns.values():
            if f["path"] in providers or "&mut" not in f["hir"].get("ty", ""):
                continue
            if f["crate"] not in ("garnish_lang_simple_data",):
                continue
            for d, n in hirq.calls_in(f["hir"]):
                tg = set([d]) | set(g["path"] for g in F.impls_of.get(d, []))
                if tg & providers:
                    providers.add(f["path"])
                    changed = True
                    break
    r.analysed["mutable_cell_providers"] = sorted(providers)
    for f in F.fns.values():
        if f["crate"] not in ("garnish_lang_simple_data", "garnish_lang_runtime", "garnish_lang_compiler", "garnish_lang_traits"):
            continue
        if f["path"] in providers:
            continue
        for d, n in hirq.calls_in(f["hir"]):
            tg = set([d]) | set(g["path"] for g in F.impls_of.get(d, []))
            hit = tg & providers
            if hit:
                writers.setdefault(f["path"], set()).add("&mut cell from " + last(sorted(hit)[0]))
    heap_allowed = al.get("basic_heap_writers", {})
    # callers index: a private helper all of whose callers are reviewed writers is part of them (extracted code)
    callers = {}
    for f in F.fns.values():
        if f["crate"] not in ("garnish_lang_simple_data", "garnish_lang_runtime", "garnish_lang_compiler", "garnish_lang_traits"):
            continue
        for d, _n in hirq.calls_in(f["hir"]):
            callers.setdefault(d, set()).add(f["path"])

    def allowed_writer(p, depth=0):
        if any(p.startswith(a) or a in p for a in heap_allowed):
            return True
        f = F.fns.get(p)
        if f is None or depth > 1 or f.get("vis") == "Public":
            return False
        cs = callers.get(p, set())
        return bool(cs) and all(allowed_writer(c, depth + 1) for c in cs)

    for p, hs in sorted(writers.items()):
        r.examine(("heap", p), True, {"fn": p, "writes_heap_via": sorted(hs)})
        if not any(p.startswith(a) or a in p for a in heap_allowed) and allowed_writer(p):
            r.info.append("heap writer %s is a private helper called only by reviewed writers (%s)" % (p, ", ".join(sorted(callers.get(p, set())))[:160]))
            continue
        if not any(p.startswith(a) or a in p for a in heap_allowed):
            r.finding(p, "heap-writer", ":".join(F.fns[p]["span"].split(":")[:2]), "obtains a mutable view of BasicGarnishData's raw heap (%s) but is not one of the reviewed store primitives" % ", ".join(sorted(hs)))
    r.floor("functions writing the raw heap", len(writers), 3)
    # 2. stack heads of BasicGarnishData
    heads = {}
    for f in F.fns.values():
        if f["crate"] != "garnish_lang_simple_data":
            continue
        for d, n in hirq.calls_in(f["hir"]):
            if last(d) in ("set_current_register", "set_current_value", "set_current_frame") and "BasicGarnishData" in d:
                heads.setdefault(f["path"], set()).add(last(d))
    head_allowed = al.get("basic_stack_head_writers", {})
    for p, hs in sorted(heads.items()):
        r.examine(("heads", p), True, {"fn": p, "sets": sorted(hs)})
        if not any(a in p for a in head_allowed):
            r.finding(p, "stack-head-writer", ":".join(F.fns[p]["span"].split(":")[:2]), "writes a stack head (%s) but is not a push/pop trait method, pop_frame or the compactor" % ", ".join(sorted(hs)))
    r.floor("functions writing the Basic stack heads", len(heads), 2)
    # 3. SimpleGarnishData: the value list is only ever pushed to
    mut = {}
    for f in F.fns.values():
        if f["crate"] != "garnish_lang_simple_data":
            continue
        for n in walk(f["hir"]):
            if n.get("k") == "MethodCall" and "SimpleDataList" in n.get("recv_ty", "") or (n.get("k") == "MethodCall" and "alloc::vec::Vec<garnish_lang_simple_data::data::SimpleData<" in n.get("recv_ty", "")):
                m = n.get("m")
                if m in ("insert", "remove", "clear", "truncate", "swap", "swap_remove", "pop", "drain", "retain", "get_mut", "iter_mut", "last_mut", "first_mut", "sort", "sort_by", "dedup", "resize", "split_off", "append", "set_len", "as_mut_slice"):
                    mut.setdefault(f["path"], set()).add(m)
            if n.get("k") in ("Assign", "AssignOp"):
                l = peel(n["l"])
                if l.get("k") == "Index" and ("SimpleDataList" in l.get("base_ty", "") or "Vec<garnish_lang_simple_data::data::SimpleData<" in l.get("base_ty", "")):
                    mut.setdefault(f["path"], set()).add("index-assign")
    simple_allowed = al.get("simple_list_mutators", {})
    n_push = 0
    for f in F.fns.values():
        if f["crate"] == "garnish_lang_simple_data":
            for n in walk(f["hir"]):
                if n.get("k") == "MethodCall" and n.get("m") == "push" and ("SimpleDataList" in n.get("recv_ty", "") or "Vec<garnish_lang_simple_data::data::SimpleData<" in n.get("recv_ty", "")):
                    n_push += 1
    r.floor("push sites on the Simple value list", n_push, 1)
    for p, ms in sorted(mut.items()):
        r.examine(("simple", p), True, {"fn": p, "mutates_value_list_via": sorted(ms)})
        if not any(a in p for a in simple_allowed):
            r.finding(p, "simple-list-mutation", ":".join(F.fns[p]["span"].split(":")[:2]), "mutates SimpleGarnishData's value list in place (%s): stored values must stay at their address unchanged" % ", ".join(sorted(ms)))
    return r


# --------------------------------------------------------------------------------------- G4

LOOKUP_METHODS = ("get_list_item", "get_list_item_with_symbol", "get_list_len", "get_list_item_iter")


def _err_constructions(F, f):
    """Locally constructed error values in f: (label, where).  label = DataErrorType variant, 'state_error',
    RuntimeError constructor name, or 'untyped' (a message-only error)."""
    out = []
    claimed = set()
    for n in walk(f["hir"]):
        k = n.get("k")
        if k not in ("Call", "MethodCall"):
            continue
        d = callee(n) or ""
        label = None
        if d.endswith("DataError::new"):
            label = "untyped"
            for a in call_args(n):
                for m in walk(a):
                    if m.get("k") in ("Path", "Call"):
                        pd = hirq.path_def(m) if m.get("k") == "Path" else callee(m)
                        if pd and "DataErrorType::" in pd:
                            label = last(pd)
        elif d in ("core::result::Result::Err",) or d.endswith("::Err"):
            inner = n["args"][0] if n.get("args") else None
            pi = peel(inner) if inner else {}
            # Err(DataError::new(..)) is counted once, at the inner call
            if pi.get("k") in ("Call", "MethodCall") and ((callee(pi) or "").endswith(("DataError::new", "DataError::from")) or last(callee(pi) or "") in ("unsupported_types",) or ("RuntimeError" in (callee(pi) or "") and last(callee(pi) or "") == "new")):
                continue
            label = "untyped"
        elif d.endswith("DataError::from") or (last(d) == "from" and "DataError" in n.get("ty", "")):
            label = "untyped"
        elif last(d) in ("state_error", "instruction_error", "implementation_error"):
            label = last(d)
        elif "RuntimeError" in d and last(d) in ("new", "unsupported_types"):
            label = "RuntimeError::" + last(d)
        if label:
            key = (loc(n), label)
            if key in claimed:
                continue
            claimed.add(key)
            out.append((label, loc(n)))
    return out


INTLIKE = ("usize", "u64", "u32", "u16", "u8", "i64", "i32", "isize", "bool", "i8", "i16", "u128", "i128")


def _is_ok_none(e):
    e = peel(e) if isinstance(e, dict) else e
    if isinstance(e, dict) and e.get("k") == "Call" and (callee(e) or "").endswith("::Ok") and e["args"]:
        a = peel(e["args"][0])
        return (hirq.path_def(a) or "").endswith("Option::None")
    return False


def early_absent_sites(f):
    """(findings [(where, why)], number of loops containing a return) - `return Ok(None)` inside a loop that is controlled by
    the shape / kind of a value (a match on a non-integer scrutinee, an `if let`) rather than by integer tests only."""
    fnd = []
    loops = [0]

    def rec(n, ctx, in_loop):
        if isinstance(n, list):
            for x in n:
                rec(x, ctx, in_loop)
            return
        if not isinstance(n, dict):
            return
        k = n.get("k")
        if k == "Closure":
            return
        if k == "Loop":
            if any(x.get("k") == "Ret" for x in walk(n)):
                loops[0] += 1
            for v in n.values():
                if isinstance(v, (dict, list)):
                    rec(v, [], True)
            return
        if k == "Ret" and in_loop and n.get("e") is not None and _is_ok_none(n["e"]):
            bad = [c for c in ctx if c[0] == "data"]
            if bad:
                fnd.append((loc(n), bad[0][1]))
            return
        if k == "Match" and in_loop and n.get("src") == "Normal":
            sty = (n["scrut"].get("ty") or "").lstrip("&").replace("mut ", "").strip()
            rec(n["scrut"], ctx, in_loop)
            for arm in n["arms"]:
                if sty in INTLIKE:
                    c = ("int", "")
                else:
                    c = ("data", "in the arm at %s of a match on a value of type %s" % (loc(arm["pat"]), sty[:60]))
                rec(arm.get("guard"), ctx, in_loop)
                rec(arm["body"], ctx + [c], in_loop)
            return
        if k == "If" and in_loop:
            cond = n["cond"]
            is_let = any(x.get("k") == "Let" for x in walk(cond))
            c = ("data", "under the `if let` at %s" % loc(n)) if is_let else ("int", "")
            rec(cond, ctx, in_loop)
            rec(n.get("then"), ctx + [c], in_loop)
            rec(n.get("else"), ctx + [c], in_loop)
            return
        for v in n.values():
            if isinstance(v, (dict, list)):
                rec(v, ctx, in_loop)

    rec(f["hir"], [], False)
    return fnd, loops[0]


def rule_G4(ctx):
    F = ctx.F
    r = RuleResult("G4", "lookup-error-discipline: list lookups construct only the reviewed errors (not-a-list / corrupt cell); 'absent' and 'out of range' are Ok(None)")
    al = allow("lookup_errors.json")
    scope = []
    for f in F.fns.values():
        ti = f.get("trait_item", "")
        if f["crate"] == "garnish_lang_simple_data" and any(ti.endswith("GarnishData::" + m) for m in LOOKUP_METHODS):
            scope.append(f)
    # helpers of those methods inside the data crate (one level of resolved calls, transitively)
    seen = set(f["path"] for f in scope)
    work = list(scope)
    helper_names = al.get("_helper_scope", ["get_list_associations_len", "get_list_association", "search_for_associative_item", "search_for_associative_item_index"])
    while work:
        f = work.pop()
        for d, n in hirq.calls_in(f["hir"]):
            g = F.fns.get(d)
            if g and g["crate"] == "garnish_lang_simple_data" and g["path"] not in seen and g.get("name") in helper_names:
                seen.add(g["path"])
                scope.append(g)
                work.append(g)
    for f in F.fns.values():
        if f["crate"] == "garnish_lang_runtime" and f.get("name") in ("index_list", "access_with_symbol") and f["kind"] != "Closure":
            scope.append(f)
    r.floor("list lookup functions in scope", len(scope), 8)
    r.analysed["functions"] = sorted(f["path"] for f in scope)
    for f in scope:
        errs = _err_constructions(F, f)
        by = {}
        for label, where in errs:
            by.setdefault(label, []).append(where)
        r.examine((f["path"], "fn"), bool(errs), {"fn": f["path"], "constructed_errors": {k: len(v) for k, v in by.items()}})
        fa = al.get(f["path"], {})
        for label, wheres in sorted(by.items()):
            for w in wheres:
                r.examine((f["path"], label, w), True)
            allowed = fa.get(label, {}).get("count", 0)
            if len(wheres) > allowed:
                r.finding(f["path"], "err:%s|n=%d" % (label, len(wheres)), wheres[0],
                          "list lookup constructs %d error(s) of kind %s at %s; the reviewed list allows %d%s. A lookup must report an absent key or an index outside 0..n-1 as Ok(None)" % (
                              len(wheres), label, ", ".join(wheres), allowed, (" (" + fa[label]["reason"] + ")") if label in fa else ""))
    # G4b: inside a probing / scanning loop "absent" is decided by exhausting the sequence, never by the kind of an item met
    n_loops = 0
    for f in scope:
        fnd, nl = early_absent_sites(f)
        n_loops += nl
        if nl:
            r.examine((f["path"], "loops"), True, {"fn": f["path"], "loops_with_returns_examined": nl, "early_absent": len(fnd)})
        for k_, (where, why) in enumerate(fnd):
            r.finding(f["path"], "early-absent#%d" % (k_ + 1), where, "inside a lookup loop `Ok(None)` (absent) is returned %s: a key stored further along the probe / scan sequence is reported absent; absence may only follow from exhausting the sequence (a counter or ordering test)" % why)
    r.analysed["lookup_loops_examined"] = n_loops
    # controls
    for f in F.fns_in("gfixture::g4::"):
        if f["kind"] == "Closure":
            continue
        if f["name"].startswith("g4b_"):
            fnd, _nl = early_absent_sites(f)
            if f["name"].startswith("g4b_ctl_"):
                r.control(f["name"], bool(fnd))
            else:
                r.neg_control(f["name"], not fnd)
            continue
        hit = bool(_err_constructions(F, f))
        if f["name"].startswith("ctl_"):
            r.control(f["name"], hit)
        elif f["name"].startswith("ok_"):
            r.neg_control(f["name"], not hit)
    return r


# --------------------------------------------------------------------------------------- T14


def _ord_const(e):
    d = hirq.path_def(e)
    if d and (d.startswith("core::cmp::Ordering::") or d.startswith("std::cmp::Ordering::")):
        return last(d)
    return None


def comparator_findings(F, f):
    """For every closure handed to sort_by / sort_unstable_by / binary_search_by in f whose body is a match over the pair
    of its arguments: arms with constant results must be antisymmetric (mirror pattern -> reversed ordering)."""
    out = []
    n = 0
    for x in walk(f["hir"]):
        if x.get("k") != "MethodCall" or x.get("m") not in ("sort_by", "sort_unstable_by", "binary_search_by", "max_by", "min_by", "sort_by_cached_key"):
            continue
        for a in x["args"]:
            c = peel(a)
            if c.get("k") == "Path" and c.get("res") == "def" and c.get("def") in F.fns:
                # a named comparator (`sort_by(compare_items)`): its body is the comparator
                body = peel(F.fns[c["def"]]["hir"].get("body") or F.fns[c["def"]]["hir"])
            elif c.get("k") == "Closure":
                body = peel(c["body"])
            else:
                continue
            if body.get("k") != "Match":
                continue
            n += 1
            rows = []
            for arm in body["arms"]:
                for alt in hirq.norm_pat(arm["pat"]):
                    if alt[0] != "T" or len(alt[1]) != 2:
                        continue
                    key = tuple((last(p[1]) if p[0] == "V" else "_") for p in alt[1])
                    rows.append((key, _ord_const(arm["body"]), arm))
            seen = {}
            for key, res, arm in rows:
                seen.setdefault(key, (res, arm))
            # keyed arm (V(k1, ..), V(k2, ..)) => k1.cmp(k2): ascending by the FIRST payload field - the order the binary search
            # over the same cells assumes (it compares `.0` of the cell with the wanted key and walks up on Less)
            for key, res, arm in rows:
                if key[0] == key[1] and key[0] != "_" and res is None:
                    pat = arm["pat"]
                    while pat.get("k") in ("Ref", "Deref"):
                        pat = pat["pat"]
                    if pat.get("k") == "Tuple" and len(pat["pats"]) == 2:
                        def first_binding(q):
                            while q.get("k") in ("Ref", "Deref"):
                                q = q["pat"]
                            if q.get("k") == "TupleStruct" and q["pats"]:
                                b0 = q["pats"][0]
                                while b0.get("k") in ("Ref", "Deref"):
                                    b0 = b0["pat"]
                                rest = [b.get("lid") for x in q["pats"][1:] for b in walk(x) if b.get("k") == "Binding"]
                                return (b0["lid"] if b0.get("k") == "Binding" else None), rest
                            return None, []
                        l1, rest1 = first_binding(pat["pats"][0])
                        l2, rest2 = first_binding(pat["pats"][1])
                        b = peel(arm["body"])
                        if b.get("k") == "MethodCall" and b.get("m") in ("cmp", "partial_cmp") and b["args"]:
                            rl, al = hirq.local_of(b["recv"]), hirq.local_of(b["args"][0])
                            if (rl, al) == (l2, l1):
                                out.append(("descending-key:%s" % key[0], loc(arm), "the comparator orders two %s cells by their key in DESCENDING order (k2.cmp(k1)); the lookup is a binary search that assumes ascending keys" % key[0]))
                            elif rl in rest1 + rest2 or al in rest1 + rest2:
                                out.append(("wrong-sort-key:%s" % key[0], loc(arm), "the comparator orders two %s cells by a payload field other than the first (the key the binary search compares)" % key[0]))
            rev = {"Less": "Greater", "Greater": "Less", "Equal": "Equal"}
            for key, (res, arm) in seen.items():
                if res is None or key[0] == key[1]:
                    continue
                mk = (key[1], key[0])
                if mk not in seen:
                    out.append(("missing-mirror:%s,%s" % key, loc(arm), "comparator arm (%s, %s) => %s has no mirrored arm (%s, %s)" % (key[0], key[1], res, key[1], key[0])))
                    continue
                mres = seen[mk][0]
                if mres is not None and mres != rev[res]:
                    out.append(("asymmetric:%s,%s" % key, loc(arm), "comparator says (%s, %s) => %s but (%s, %s) => %s: not antisymmetric, so sorting / searching by it is unspecified" % (key[0], key[1], res, key[1], key[0], mres)))
    return out, n


def rule_T14(ctx):
    F = ctx.F
    r = RuleResult("T14", "comparator-antisymmetry: every match-based comparator given to a sort or search returns opposite orderings for mirrored arguments")
    total = 0
    for f in sorted(F.fns.values(), key=lambda f: f["path"]):
        if f["crate"] != "garnish_lang_simple_data" or f["kind"] == "Closure":
            continue
        fnd, n = comparator_findings(F, f)
        total += n
        if n:
            r.examine((f["path"],), True, {"fn": f["path"], "comparators": n, "violations": len(fnd)})
        seen = set()
        for inst, where, msg in fnd:
            if inst in seen:
                continue
            seen.add(inst)
            r.finding(f["path"], inst, where, msg)
    r.floor("match-based comparators in the data crate", total, 1)
    for f in F.fns_in("gfixture::t14::"):
        if f["kind"] == "Closure":
            continue
        fnd, n = comparator_findings(F, f)
        if f["name"].startswith("ctl_"):
            r.control(f["name"], bool(fnd))
        elif f["name"].startswith("ok_"):
            r.neg_control(f["name"], not fnd)
    return r


# ---------------------------------------------------------------------------------------------------------------------
# W2  intern-key fidelity: SimpleGarnishData keys its constant table on a hash of the value alone (cache_add never compares
#     the stored value on a hit), so "a different constant gets a different address" needs every hand-written Hash impl the
#     key passes through to feed the hasher a loss-free encoding of the whole payload.
_INT_BITS = {"i8": 8, "u8": 8, "i16": 16, "u16": 16, "i32": 32, "u32": 32, "i64": 64, "u64": 64, "i128": 128, "u128": 128, "isize": 64, "usize": 64}
_LOSSY_METHODS = {"fract", "trunc", "round", "floor", "ceil", "abs", "signum", "len", "is_nan", "is_finite", "is_sign_negative", "is_sign_positive", "count",
                  "to_ascii_lowercase", "to_ascii_uppercase", "to_lowercase", "to_uppercase", "trim", "wrapping_abs", "rem_euclid", "min", "max", "clamp",
                  "first", "last", "is_empty", "is_some", "is_none", "unsigned_abs", "leading_zeros", "trailing_zeros", "count_ones"}
_LOSSY_BINOPS = {"%", "/", "&", "|", ">>", "<<", "^", "*", "==", "!=", "<", "<=", ">", ">=", "&&", "||"}


def _lossy_cast(n):
    a, b = (n.get("from_ty") or "").lstrip("&"), (n.get("ty") or "")
    if a in ("f64", "f32") and b in _INT_BITS:
        return "%s as %s drops the fraction and saturates" % (a, b)
    if a == "f64" and b == "f32":
        return "f64 as f32 rounds"
    if a in _INT_BITS and b in _INT_BITS and _INT_BITS[b] < _INT_BITS[a]:
        return "%s as %s truncates" % (a, b)
    if a in _INT_BITS and b in ("f32", "f64") and _INT_BITS[a] > (24 if b == "f32" else 53):
        return "%s as %s rounds" % (a, b)
    if a == "char" and b in _INT_BITS and _INT_BITS[b] < 32:
        return "char as %s truncates" % b
    return None


def _hash_feeds(hir):
    """(receiver expression, node) for each value fed to a hasher: `x.hash(state)` / `Hash::hash(&x, state)` / `state.write_*(x)`."""
    out = []
    for n in walk(hir):
        if n.get("k") == "MethodCall" and n.get("def") == "core::hash::Hash::hash":
            out.append((n["recv"], n))
        elif n.get("k") == "Call" and callee(n) == "core::hash::Hash::hash" and n.get("args"):
            out.append((n["args"][0], n))
        elif n.get("k") == "MethodCall" and (n.get("def") or "").startswith("core::hash::Hasher::write") and n.get("args"):
            out.append((n["args"][0], n))
    return out


def hash_impl_findings(F, f):
    """Lossy encodings in a hand-written Hash::hash body.  Returns (findings, arms examined, feeds examined)."""
    fnd = []
    body = Body(f)
    feeds = _hash_feeds(f["hir"])
    def lossy_in(e, seen):
        for m in walk(e):
            k = m.get("k")
            if k == "Cast":
                why = _lossy_cast(m)
                if why:
                    return why, m
            if k == "MethodCall" and m.get("m") in _LOSSY_METHODS and "exp" not in m:
                return "`.%s()` is not one-to-one" % m["m"], m
            if k == "Binary" and m.get("op") in _LOSSY_BINOPS and "exp" not in m:
                return "`%s` is not one-to-one" % m["op"], m
            if k == "Path" and m.get("res") == "local" and m.get("lid") not in seen:
                seen.add(m["lid"])
                for d in body.defs.get(m["lid"], []):
                    if isinstance(d, dict) and d.get("k") not in ("Binding", "Param"):
                        got = lossy_in(d, seen)
                        if got:
                            return got
        return None
    for recv, node in feeds:
        got = lossy_in(recv, set())
        if got:
            why, m = got
            fnd.append(("lossy-feed:%s" % why.split(" ")[0 if why[0] != "`" else 0].strip("`"), loc(node),
                        "the value fed to the hasher at %s goes through a lossy step (%s at %s): distinct constants then share one hash, and the hash-keyed intern table "
                        "hands the second one the first one's address" % (loc(node), why, loc(m))))
    arms = 0
    for n in walk(f["hir"]):
        if n.get("k") != "Match" or n.get("src") != "Normal":
            continue
        sc = peel(n["scrut"])
        if not (sc.get("k") == "Path" and sc.get("name") == "self"):
            continue
        for arm in n["arms"]:
            arms += 1
            binds = [b for b in walk(arm["pat"]) if b.get("k") == "Binding"]
            used = set(m.get("lid") for fr, _ in _hash_feeds(arm["body"]) for m in walk(fr) if m.get("k") == "Path" and m.get("res") == "local")
            # follow one level of let-bound intermediates
            for fr, _ in _hash_feeds(arm["body"]):
                for m in walk(fr):
                    if m.get("k") == "Path" and m.get("res") == "local":
                        for d in body.defs.get(m["lid"], []):
                            if isinstance(d, dict):
                                used |= set(x.get("lid") for x in walk(d) if x.get("k") == "Path" and x.get("res") == "local")
            has_payload = any(p.get("k") in ("TupleStruct", "Struct") and (p.get("pats") or p.get("fields")) for p in [arm["pat"]]) and \
                any(x.get("k") != "Wild" or True for x in (arm["pat"].get("pats") or []))
            for b in binds:
                if b["lid"] not in used:
                    fnd.append(("payload-not-hashed:%s" % last(arm["pat"].get("def") or arm["pat"].get("txt") or "?"), loc(arm["pat"]),
                                "arm %s binds `%s` but never feeds it to the hasher" % (arm["pat"].get("txt"), b.get("name"))))
            wild = [x for x in (arm["pat"].get("pats") or []) if x.get("k") == "Wild"]
            if wild and arm["pat"].get("k") == "TupleStruct":
                fnd.append(("payload-not-hashed:%s" % last(arm["pat"].get("def") or "?"), loc(arm["pat"]),
                            "arm %s ignores its payload (`_`), so all values of the variant share one hash" % arm["pat"].get("txt")))
            if arm.get("guard") is not None and _hash_feeds(arm["body"]):
                pass
    # an enum's variants must stay apart: per-variant feeds (a match on self) or the discriminant.  A rendering of the whole
    # value (`self.to_string()`, `format!("{}", self)`) merges variants that print alike - Integer(7) and Float(7.0).
    st = (f.get("impl_self") or "").split("<")[0]
    adt = F.adts.get(st)
    if adt and adt["kind"] == "enum" and len(adt["variants"]) >= 2 and arms == 0 and feeds:
        has_disc = any((callee(n) or "").endswith("mem::discriminant") for n in walk(f["hir"]) if n.get("k") == "Call")
        if not has_disc:
            fnd.append(("variants-not-separated", loc(feeds[0][1]),
                        "the hash of the enum %s is computed from one rendering of the whole value, without a per-variant feed or the discriminant: values of different variants that render alike (Integer(7) / Float(7.0)) share a hash, and the hash-keyed intern table hands the second the first one's address" % last(st)))
    return fnd, arms, len(feeds)


def _is_derived(f):
    """A #[derive(Hash)] body: every call in it carries the derive's expansion marker."""
    calls = [n for n in walk(f["hir"]) if n.get("k") in ("Call", "MethodCall")]
    return all("Hash" in (n.get("exp") or []) or "Hash" in ((n.get("f") or {}).get("exp") or []) for n in calls)


def rule_W2(ctx):
    F = ctx.F
    r = RuleResult("W2", "intern-key fidelity: the hash that alone keys SimpleGarnishData's constant table is computed from a loss-free encoding of the whole value")
    # 1. intern sites: functions that finish() a hasher and use the result as a map key
    sites = []
    site_keyers = {}
    for f in F.fns.values():
        if f["crate"] != "garnish_lang_simple_data" or f["kind"] == "Closure":
            continue
        ms = [n for n in walk(f["hir"]) if n.get("k") == "MethodCall"]
        if not (any(n["m"] == "insert" for n in ms) and any(n["m"] == "get" for n in ms)):
            continue
        # the key is a finished hash - computed here, or by a helper of the crate that returns one (`Self::cache_key(&value)`)
        keyers = []
        for d, _c in hirq.calls_in(f["hir"]):
            g = F.fns.get(d)
            if g is not None and g["crate"] == f["crate"] and g["kind"] != "Closure" and g.get("hir") and g["mir"]["locals"][0]["ty"] == "u64" and any(
                    n.get("k") == "MethodCall" and n.get("m") == "finish" for n in walk(g["hir"])):
                keyers.append(g)
        if any(n["m"] == "finish" for n in ms) or keyers:
            sites.append(f)
            site_keyers[f["path"]] = keyers
    r.floor("hash-keyed intern sites in the data crate", len(sites), 1)
    hashed_types = set()
    for f in sites:
        tys = []
        for recv, node in [x for h in [f] + site_keyers.get(f["path"], []) for x in _hash_feeds(h["hir"])]:
            t = (recv.get("ty") or "").lstrip("&")
            tys.append(t)
            hashed_types.add(t.split("<")[0])
        # does the site compare the stored value on a hit?  if it does, a lossy hash costs speed, not correctness
        compares = any(n.get("k") == "Binary" and n.get("op") == "==" and "SimpleData" in (peel(n["l"]).get("ty") or "") for n in walk(f["hir"]))
        r.examine((f["path"],), True, {"fn": f["path"], "hashes": tys, "compares_stored_value_on_hit": compares})
        if compares:
            r.info.append("%s compares the stored value on a hit: hash fidelity is not needed for correctness there" % f["path"])
    # 2. close over field types, analysing hand-written Hash impls
    todo = list(hashed_types)
    seen = set()
    manual = 0
    while todo:
        t = todo.pop()
        if t in seen:
            continue
        seen.add(t)
        adt = F.adts.get(t)
        if adt is None:
            continue
        for v in adt.get("variants", []) or [{"fields": adt.get("fields", [])}]:
            for fld in v.get("fields", []):
                todo.append(fld["ty"].lstrip("&").split("<")[0])
        impl = [g for g in F.fns.values() if g.get("name") == "hash" and (g.get("impl_trait") or "").startswith("core::hash::Hash") and (g.get("impl_self") or "").split("<")[0] == t]
        for g in impl:
            if _is_derived(g):
                r.examine((g["path"],), True, {"fn": g["path"], "derived": True})
                continue
            manual += 1
            fnd, arms, feeds = hash_impl_findings(F, g)
            r.examine((g["path"],), True, {"fn": g["path"], "derived": False, "arms": arms, "values_fed_to_hasher": feeds, "violations": len(fnd)})
            done = set()
            for inst, where, msg in fnd:
                if inst in done:
                    continue
                done.add(inst)
                r.finding(g["path"], inst, where, msg)
    r.analysed["types_in_intern_key"] = sorted(seen & set(F.adts))
    r.floor("hand-written Hash impls in the intern key", manual, 1)
    for f in sorted(F.fns.values(), key=lambda f: f["path"]):
        if "gfixture::w2::" not in f["path"] or f.get("name") != "hash":
            continue
        fnd, _a, _n = hash_impl_findings(F, f)
        nm = last(f.get("impl_self") or "")
        if nm.startswith("Ctl"):
            r.control(nm, bool(fnd))
        elif nm.startswith("Ok"):
            r.neg_control(nm, not fnd)
    return r


# ---------------------------------------------------------------------------------------------------------------------
# D6  frame-cell codec: BasicGarnishData::push_frame encodes (current frame, current register) into one of the Frame* cells and
#     pop_frame decodes the cell and restores both.  The two tables must be inverse of each other, variant by variant.
def _opt_pat(p):
    """('some', lid) | ('none',) | ('any',) for a pattern over Option<_>."""
    if p.get("k") == "Expr" and isinstance(p.get("e"), dict):
        p = p["e"]
    k = p.get("k")
    if k == "TupleStruct" and last(p.get("def") or "") == "Some":
        inner = (p.get("pats") or [{}])[0]
        return ("some", inner.get("lid")) if inner.get("k") == "Binding" else ("some", None)
    if k == "Path" and last(p.get("def") or p.get("txt") or "") == "None":
        return ("none",)
    if k == "Binding" and not p.get("sub"):
        return ("any", p.get("lid"))
    return ("any", None)


def frame_writer_table(f):
    """variant -> {role: payload position}, plus findings about links dropped by the writer. roles are the accessor names of the scrutinee."""
    for n in walk(f["hir"]):
        if n.get("k") != "Match" or n.get("src") != "Normal" or n["scrut"].get("k") != "Tup":
            continue
        roles = []
        for e in n["scrut"]["es"]:
            e = peel(e)
            roles.append(e.get("m") if e.get("k") == "MethodCall" else None)
        if None in roles or len(roles) < 2:
            continue
        table, fnd = {}, []
        for arm in n["arms"]:
            pats = arm["pat"].get("pats") if arm["pat"].get("k") == "Tuple" else None
            if not pats or len(pats) != len(roles):
                fnd.append(("writer-arm-shape", loc(arm["pat"]), "arm at %s is not a tuple pattern over %s" % (loc(arm["pat"]), roles)))
                continue
            body = peel(arm["body"])
            if body.get("k") == "Block" and body["b"].get("expr") and not body["b"]["stmts"]:
                body = peel(body["b"]["expr"])
            variant = last((body.get("f") or {}).get("def") or body.get("def") or "?") if body.get("k") in ("Call", "Path") else "?"
            if body.get("k") not in ("Call", "Path"):
                fnd.append(("writer-arm-shape", loc(arm["pat"]), "arm at %s does not construct a cell directly" % loc(arm["pat"])))
                continue
            args = body.get("args") or []
            enc = {}
            for role, p in zip(roles, pats):
                kind = _opt_pat(p)
                pos = None
                if kind[0] in ("some", "any") and len(kind) > 1 and kind[1] is not None:
                    for i, a in enumerate(args):
                        if any(x.get("k") == "Path" and x.get("lid") == kind[1] for x in walk(a)):
                            pos = i
                if kind[0] != "none" and pos is None:
                    fnd.append(("writer-drops:%s:%s" % (role, variant), loc(arm["pat"]), "push side: the arm at %s accepts a present %s but stores %s without it - the link is lost when the frame is popped" % (loc(arm["pat"]), role, variant)))
                if pos is not None:
                    enc[role] = pos
            table.setdefault(variant, []).append((enc, loc(arm["pat"])))
        return roles, table, fnd, n
    return None, None, [], None


def frame_reader_table(f, variants):
    """variant -> {setter: payload position} from `let (a, b) = match cell {V(x, y) => (Some(*x), None), ...}; set_a(a); set_b(b)`."""
    body = Body(f)
    for st in walk(f["hir"]):
        if st.get("k") != "Let" or st["pat"].get("k") != "Tuple" or not st.get("init"):
            continue
        m = peel(st["init"])
        if m.get("k") != "Match":
            continue
        def pv(p):
            if p.get("k") == "Expr" and isinstance(p.get("e"), dict):
                p = p["e"]
            return last(p.get("def") or "")
        names = [pv(a["pat"]) for a in m["arms"]]
        if not (set(names) & set(variants)):
            continue
        binds = [p.get("lid") if p.get("k") == "Binding" else None for p in st["pat"]["pats"]]
        pos_role = {}
        for c in walk(f["hir"]):
            if c.get("k") == "MethodCall" and c.get("m", "").startswith("set_") and c.get("args"):
                a = peel(c["args"][0])
                if a.get("k") == "Path" and a.get("lid") in binds:
                    pos_role[binds.index(a["lid"])] = c["m"]
        table = {}
        for arm in m["arms"]:
            v = pv(arm["pat"])
            if v not in variants:
                continue
            b = peel(arm["body"])
            if b.get("k") != "Tup":
                table[v] = None
                continue
            pl = {}
            for i, p in enumerate(arm["pat"].get("pats") or []):
                if p.get("k") == "Binding":
                    pl[p["lid"]] = i
            dec = {}
            for i, e in enumerate(b["es"]):
                role = pos_role.get(i)
                src = [pl[x["lid"]] for x in walk(e) if x.get("k") == "Path" and x.get("lid") in pl]
                if role and src:
                    dec[role] = src[0]
            table[v] = (dec, loc(arm["pat"]))
        return pos_role, table, st
    return None, None, None


def frame_codec_findings(w, rd):
    roles, wt, fnd, _m = frame_writer_table(w)
    if wt is None:
        return None, None, [("anchor", loc(w["hir"]), "no match over a tuple of accessors found in %s" % w["path"])]
    pos_role, rt, _st = frame_reader_table(rd, set(wt))
    if rt is None:
        return wt, None, fnd + [("anchor", loc(rd["hir"]), "no `let (..) = match cell {..}` over the written variants found in %s" % rd["path"])]
    setter_of = lambda role: "set_" + role
    for v, encs in sorted(wt.items()):
        if v not in rt:
            fnd.append(("reader-missing:" + v, loc(rd["hir"]), "pop side has no arm for %s, which the push side writes" % v))
            continue
        if rt[v] is None:
            fnd.append(("reader-shape:" + v, loc(rd["hir"]), "pop side arm for %s does not yield a tuple" % v))
            continue
        dec, where = rt[v]
        for enc, wwhere in encs:
            want = dict((setter_of(r), p) for r, p in enc.items())
            if want != dec:
                fnd.append(("codec-mismatch:" + v, where, "push side stores %s into %s (%s) but pop side restores %s (%s): a frame written in that state comes back as a different state" % (
                    dict((r, "field %d" % p) for r, p in enc.items()), v, wwhere, dict((r, "field %d" % p) for r, p in dec.items()) or "nothing", where)))
    # every presence combination of the roles must be written
    combos = set()
    for arm in _m["arms"]:
        pats = arm["pat"].get("pats") if arm["pat"].get("k") == "Tuple" else None
        if pats:
            ks = [_opt_pat(p)[0] for p in pats]
            import itertools
            for c in itertools.product(*[(("some", "none") if k == "any" else (k,)) for k in ks]):
                combos.add(c)
    return wt, rt, fnd


def rule_D6(ctx):
    F = ctx.F
    r = RuleResult("D6", "frame-cell codec: the Frame* cell BasicGarnishData::push_frame writes for each (current frame, current register) state is decoded by pop_frame into the same state")
    ws = [f for f in F.fns.values() if f.get("name") == "push_frame" and "BasicGarnishData" in (f.get("impl_self") or "") and f["crate"] == "garnish_lang_simple_data"]
    rs = [f for f in F.fns.values() if f.get("name") == "pop_frame" and "BasicGarnishData" in (f.get("impl_self") or "") and f["crate"] == "garnish_lang_simple_data"]
    if not ws or not rs:
        r.anchor_missing("BasicGarnishData::push_frame / pop_frame", "not found")
        return r
    wt, rt, fnd = frame_codec_findings(ws[0], rs[0])
    n = 0
    for v, encs in sorted((wt or {}).items()):
        n += 1
        r.examine((v,), True, {"variant": v, "written_with": [e for e, _w in encs], "restored_as": (rt or {}).get(v) and rt[v][0]})
    for inst, where, msg in fnd:
        if inst == "anchor":
            r.anchor_missing(where, msg)
        else:
            r.finding(ws[0]["path"] if inst.startswith("writer") else rs[0]["path"], inst, where, msg)
    r.floor("frame cell variants written by push_frame", n, 4)
    for w in sorted(F.fns.values(), key=lambda f: f["path"]):
        if "gfixture::d6::" in w["path"] and w["name"].startswith("push_"):
            suffix = w["name"][5:]
            rd = [g for g in F.fns.values() if "gfixture::d6::" in g["path"] and g["name"] == "pop_" + suffix]
            if not rd:
                continue
            _a, _b, ff = frame_codec_findings(w, rd[0])
            if suffix.startswith("ctl_"):
                r.control(suffix, bool(ff))
            elif suffix.startswith("ok_"):
                r.neg_control(suffix, not ff)
    return r


# --------------------------------------------------------------------------------------- W3
# Accumulator reset.  The data objects build strings / byte lists / lists in an `Option<collection>` field between a start
# and an end call.  A build into a shared data object must not see what an earlier, aborted accumulation left behind: every
# function that starts an accumulation (stores `Some(<collection>)` into such a field) does so on every path - the store is
# never conditional on the field's previous content.

from . import mirq as _mirq  # noqa: E402


def accumulator_fields(F, crate_prefix):
    """(struct path, field index, field name) of Option<String|Vec..> fields of structs in the crate."""
    out = []
    for p, a in F.adts.items():
        if a["kind"] != "struct" or not p.startswith(crate_prefix):
            continue
        for i, fd in enumerate(a["variants"][0]["fields"]):
            ty = fd["ty"]
            if ty.startswith("core::option::Option<") and ("alloc::string::String" in ty or "alloc::vec::Vec<" in ty):
                out.append((p, i, fd["name"]))
    return out


def start_sites(f, fields_by_struct):
    """For a &mut self method: [(field name, where, witness path or None)] for every accumulator field it stores Some(..) into."""
    mir = f["mir"]
    if len(mir["locals"]) < 2:
        return []
    self_ty = mir["locals"][1]["ty"]
    if not self_ty.startswith("&mut "):
        return []
    cands = [(sp, flds) for sp, flds in fields_by_struct.items() if sp.split("::")[-1] in self_ty]
    if not cands:
        return []
    flds = dict((i, n) for _sp, fl in cands for i, n in fl)
    asg = _mirq.assignments(mir)

    def some_store(s):
        """statement stores an Option::Some aggregate into an accumulator field of *self -> field name"""
        if s["k"] != "Assign" or s["place"]["l"] != 1:
            return None
        pr = s["place"]["p"]
        if len(pr) != 2 or pr[0] != "*" or not (isinstance(pr[1], dict) and pr[1].get("f") in flds):
            return None
        rv = s["rv"]
        def is_some(rv_):
            return rv_.get("k") == "Aggregate" and rv_.get("variant") == "Some"
        if is_some(rv):
            return flds[pr[1]["f"]]
        if rv["k"] == "Use":
            l = _mirq.op_local(rv["op"])
            if l is not None:
                orgs = _mirq.origins(mir, l, asg)
                if orgs and all(o[1] != "term" and is_some(o[2]) for o in orgs):
                    return flds[pr[1]["f"]]
        return None

    started = {}
    for bi, b in enumerate(mir["blocks"]):
        if b["cleanup"]:
            continue
        for s in b["stmts"]:
            nm = some_store(s)
            if nm:
                started.setdefault(nm, loc(s))
    out = []
    for nm, where in sorted(started.items()):
        def marker(ci, cb, nm=nm):
            return any(some_store(s) == nm for s in cb["stmts"])
        w = None if marker(0, mir["blocks"][0]) else _mirq.path_avoiding(mir, [0], marker)
        out.append((nm, where, w))
    return out


def rule_W3(ctx):
    F = ctx.F
    r = RuleResult("W3", "accumulator reset: a function that starts an accumulation stores a fresh Some(collection) into the accumulator field on every path, never conditionally on what an earlier (possibly aborted) accumulation left there")
    acc = accumulator_fields(F, "garnish_lang_simple_data")
    by_struct = {}
    for sp, i, n in acc:
        by_struct.setdefault(sp, []).append((i, n))
    r.analysed["accumulator_fields"] = ["%s.%s" % (sp.split("::")[-1], n) for sp, _i, n in acc]
    n = 0
    for f in sorted(F.fns.values(), key=lambda f: f["path"]):
        if f["crate"] != "garnish_lang_simple_data" or f["kind"] == "Closure":
            continue
        for nm, where, w in start_sites(f, by_struct):
            n += 1
            r.examine((f["path"], nm), True, {"fn": f["path"], "accumulator": nm, "store_at": where, "stored_on_every_path": w is None})
            if w is not None:
                r.finding(f["path"], "conditional-start:" + nm, where,
                          "`%s` is (re)started only on some paths (a path through blocks %s reaches the return without the store): text or items left by an aborted earlier accumulation are kept and prepended to the next value built into the same data object" % (nm, w),
                          path=["CFG blocks: " + " -> ".join("bb%d" % x for x in w)])
    r.floor("functions starting an accumulation", n, 2)
    facc = accumulator_fields(F, "gfixture::w3")
    fby = {}
    for sp, i, nm in facc:
        fby.setdefault(sp, []).append((i, nm))
    for f in F.fns_in("gfixture::w3::"):
        if f["kind"] == "Closure" or not f.get("name", "").startswith(("ctl_", "ok_")):
            continue
        sites = start_sites(f, fby)
        bad = any(w is not None for _n, _wh, w in sites)
        if f["name"].startswith("ctl_"):
            r.control(f["name"], bad)
        else:
            r.neg_control(f["name"], bool(sites) and not bad)
    return r
