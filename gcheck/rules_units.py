"""Unit rules over HIR origins: D1 bytes-vs-chars, D1b char->u8 truncation, D2 heap-index-base."""
from .facts import walk, loc
from . import hirq
from .hirq import peel, callee, call_args, last
from .origin import Body
from .report import RuleResult

BYTE_LEN = ("core::str::<impl str>::len", "alloc::string::String::len", "core::char::methods::<impl char>::len_utf8")
CHAR_CONSUMERS = ("take", "skip", "nth", "step_by")


def is_byte_len(n):
    return n.get("k") == "MethodCall" and n.get("def") in BYTE_LEN


_FIELD_WRITES = {}


def field_writes(F, base_ty, name):
    """[(Body, rhs)] of every `x.name = rhs` / `x.name += rhs` on the ADT named by base_ty, crate-wide."""
    key = id(F)
    if key not in _FIELD_WRITES:
        idx = {}
        for g in F.fns.values():
            if g["crate"] not in ("garnish_lang_simple_data", "gfixture"):
                continue
            b = None
            for n in walk(g["hir"]):
                if n.get("k") in ("Assign", "AssignOp") and peel(n["l"]).get("k") == "Field":
                    l = peel(n["l"])
                    b = b or Body(g)
                    idx.setdefault((l.get("base_ty", "").split("<")[0], l.get("name")), []).append((b, n["r"]))
        _FIELD_WRITES[key] = idx
    return _FIELD_WRITES[key].get((base_ty.split("<")[0], name), [])


def d1_sites(F, f):
    """Yield (instance, where, msg, is_violation) for every character-count sink in f."""
    body = Body(f)
    n_sink = {}

    def origins_through_fields(expr):
        out, seen = [], set()
        work = [(body, expr)]
        while work:
            b, e = work.pop()
            for o in b.origins(e):
                out.append(o)
                if o.get("k") == "Field" and o.get("base_ty"):
                    k = (o["base_ty"].split("<")[0], o.get("name"))
                    if k not in seen:
                        seen.add(k)
                        work.extend(field_writes(F, o["base_ty"], o.get("name")))
        return out

    def sink(kind, expr, where, what):
        n_sink[kind] = n_sink.get(kind, 0) + 1
        orgs = origins_through_fields(expr)
        bad = [o for o in orgs if is_byte_len(o)]
        inst = "%s#%d" % (kind, n_sink[kind])
        if bad:
            return (inst, where, "%s receives a UTF-8 byte length (%s at %s) where a character count is required" % (what, last(bad[0]["def"]) + "()", loc(bad[0])), True)
        return (inst, where, None, False)

    for n in walk(f["hir"]):
        k = n.get("k")
        if k == "MethodCall" and n.get("m") in CHAR_CONSUMERS and "core::str::iter::Chars" in n.get("recv_ty", "") and n["args"]:
            yield sink("chars." + n["m"], n["args"][0], loc(n), "`%s` on a chars() iterator" % n["m"])
        elif k == "Call":
            d = callee(n)
            if d and d.endswith("::BasicData::CharList") and n["args"]:
                yield sink("CharList-header", n["args"][0], loc(n), "the CharList(n) header (n Char cells follow)")
        elif k == "Assign" and n["l"].get("k") == "Unary" and n["l"].get("op") == "*":
            tgt = n["l"]["e"]
            if any(o.get("k") == "MethodCall" and o.get("m") == "as_char_list_mut" for o in body.origins(tgt)):
                yield sink("CharList-header-write", n["r"], loc(n), "the CharList(n) header written in place (n Char cells follow)")
    ti = f.get("trait_item", "")
    if ti.endswith("GarnishData::get_char_list_len"):
        rets = [f["hir"]]
        for n in walk(f["hir"]):
            if n.get("k") == "Ret" and n.get("e"):
                rets.append(n["e"])
        for e in rets:
            yield sink("get_char_list_len-result", e, loc(peel(e)), "the result of get_char_list_len (a character count by the trait's contract: get_char_list_item indexes characters)")


def d1r_sites(f):
    """[(where, a character count reaches a bound?)] for every str slicing site of f"""
    body = Body(f)
    out = []
    def is_str(t):
        t = (t or "").lstrip("&").replace("mut ", "").strip()
        return t == "str" or t.startswith("alloc::string::String")
    def tainted(e):
        exprs, seen = [e], set()
        work = [x["lid"] for x in walk(e) if x.get("k") == "Path" and x.get("res") == "local"]
        while work:
            l = work.pop()
            if l in seen:
                continue
            seen.add(l)
            for d_ in body.defs.get(l, []):
                if isinstance(d_, dict) and d_.get("k") not in ("Param", "ClosureParam", "Field"):
                    src = d_["of"] if d_.get("k") == "Destructure" else d_
                    exprs.append(src)
                    work.extend(x["lid"] for x in walk(src) if x.get("k") == "Path" and x.get("res") == "local")
        for ex in exprs:
            for x in walk(ex):
                if x.get("k") == "MethodCall" and x.get("m") == "count" and any(y.get("k") == "MethodCall" and y.get("m") in ("chars", "char_indices") for y in walk(x["recv"])):
                    return True
        return False
    for n in walk(f["hir"]):
        k = n.get("k")
        if k == "MethodCall" and n.get("m") in ("get", "get_mut", "get_unchecked", "split_at", "split_at_checked", "truncate", "is_char_boundary") and is_str(n.get("recv_ty")) and n.get("args"):
            out.append((loc(n), tainted(n["args"][0])))
        elif k == "Index" and is_str(n.get("base_ty")):
            out.append((loc(n), tainted(n["idx"])))
    return out


def rule_D1(ctx):
    F = ctx.F
    r = RuleResult("D1", "bytes-vs-chars: a UTF-8 byte length never reaches a character-count sink on the literal path; no char->u8 truncation in the literal parsers")
    scope = [f for f in F.fns.values() if f["crate"] == "garnish_lang_simple_data"]
    sinks = 0
    for f in scope:
        for inst, where, msg, bad in d1_sites(F, f):
            sinks += 1
            r.examine((f["path"], inst), True, {"fn": f["path"], "sink": inst, "where": where, "byte_length_reaches_it": bad})
            if bad:
                r.finding(f["path"], inst, where, msg)
    r.floor("character-count sinks in the data crate", sinks, 3)
    # D1r, the reverse direction: a character count (`s.chars().count()`) is not a byte offset - it must not reach the bounds of a
    # str slice / `get(a..b)` / split_at (bounds-checked, so nothing panics: the literal silently loses its last bytes)
    n_off = 0
    for f in scope:
        if "::data::parsing::" not in f["path"] or not f.get("hir"):
            continue
        for where, bad in d1r_sites(f):
            n_off += 1
            r.examine((f["path"], "byte-offset", where), True, {"fn": f["path"], "where": where, "character_count_reaches_it": bad})
            if bad:
                r.finding(f["path"], "char-count-as-byte-offset#%d" % n_off, where, "a bound of the str slice at %s derives from a character count (chars().count()): for text with a multi-byte character the count is smaller than the byte offset meant, so the slice ends early - a quoted literal loses its last bytes (or is cut inside a character and rejected)" % where)
    r.analysed["str_slice_bounds_examined"] = n_off
    for f in F.fns_in("gfixture::d1::"):
        if f.get("name") in ("rev_ctl_count_as_offset", "rev_ok_len_as_offset"):
            res = d1r_sites(f)
            if f["name"].startswith("rev_ctl_"):
                r.control(f["name"][4:], any(b for _w, b in res))
            else:
                r.neg_control(f["name"][4:], bool(res) and not any(b for _w, b in res))
    # D1b: char -> u8 `as` casts in data::parsing (expected count zero: no floor, the fixture control keeps the rule honest)
    def d1b_sites(f):
        out = []
        # a local that a match arm has pinned to ASCII character literals (`'\\' | '\'' => push(c as u8)`) is as exact as a literal
        pinned = {}
        def ascii_lits(pat):
            alts = pat.get("pats") if pat.get("k") == "Or" else [pat]
            vals = []
            for a in alts or []:
                while isinstance(a, dict) and a.get("k") in ("Ref", "Deref"):
                    a = a["pat"]
                e_ = a.get("e") if isinstance(a, dict) and a.get("k") in ("Lit", "Expr", "PatLit") else None
                lit = (a.get("lit") if isinstance(a, dict) else None) or ((e_ or {}).get("lit") if isinstance(e_, dict) else None)
                if not lit or lit.get("t") != "char":
                    return False
                v = lit.get("v")
                if not isinstance(v, str) or len(v) != 1 or ord(v) > 0x7F:
                    return False
                vals.append(v)
            return bool(vals)
        for m in walk(f["hir"]):
            if m.get("k") == "Match":
                sc = peel(m.get("scrut") or {})
                if sc.get("k") == "Path" and sc.get("res") == "local":
                    for arm in m["arms"]:
                        if arm.get("guard") is None and ascii_lits(arm["pat"]):
                            for x in walk(arm["body"]):
                                pinned.setdefault(id(x), set()).add(sc["lid"])
        for n in walk(f["hir"]):
            if n.get("k") == "Cast" and n.get("from_ty") == "char" and n.get("ty") == "u8":
                inner = peel(n["e"])
                exact = inner.get("k") == "Lit" or (inner.get("k") == "Path" and inner.get("res") == "local" and inner.get("lid") in pinned.get(id(n), set()))
                out.append((n, exact))  # a constant ASCII escape like '\n' as u8 is exact
        return out
    casts = 0
    parsing_fns = 0
    for f in scope:
        if "::data::parsing::" not in f["path"]:
            continue
        parsing_fns += 1
        n_c = 0
        for n, is_lit in d1b_sites(f):
            casts += 1
            if is_lit:
                r.examine((f["path"], "lit-cast", casts), False)
                continue
            n_c += 1
            r.examine((f["path"], "char-as-u8", n_c), True, {"fn": f["path"], "where": loc(n)})
            r.finding(f["path"], "char-as-u8#%d" % n_c, loc(n), "`char as u8` keeps only the low byte: a character above U+00FF in a byte-list literal denotes a different byte, one above U+007F is not its UTF-8 encoding")
    r.analysed["char_to_u8_casts_in_data_parsing"] = casts
    r.floor("functions in data::parsing examined for char->u8 casts", parsing_fns, 2)
    for f in F.fns_in("gfixture::d1::"):
        if f["name"] == "ctl_char_as_u8":
            r.control(f["name"], any(not lit for _n, lit in d1b_sites(f)))
        elif f["name"] == "ok_char_utf8":
            r.neg_control(f["name"], not any(not lit for _n, lit in d1b_sites(f)))
    # controls
    for f in F.fns_in("gfixture::d1::"):
        if f["kind"] == "Closure":
            continue
        if f["name"] in ("ctl_char_as_u8", "ok_char_utf8"):
            continue
        hit = any(bad for _i, _w, _m, bad in d1_sites(F, f))
        if f["name"].startswith("ctl_"):
            r.control(f["name"], hit)
        elif f["name"].startswith("ok_"):
            r.neg_control(f["name"], not hit)
    return r


# --------------------------------------------------------------------------------------- D2

HEAP_ACCESSORS = ("BasicGarnishData::<T, Companion>::data", "BasicGarnishData::<T, Companion>::data_mut")


def _is_heap_expr(e):
    """Is e the raw heap vector of BasicGarnishData (self.data / self.data() / self.data_mut())?"""
    e = peel(e)
    k = e.get("k")
    if k == "MethodCall" and e.get("def", "").endswith(HEAP_ACCESSORS):
        return True
    if k == "Field" and e.get("name") == "data" and "BasicGarnishData" in e.get("base_ty", ""):
        return True
    return False


def _is_block_start(n):
    """n is a read of StorageBlock.start (field expr on a StorageBlock)."""
    return n.get("k") == "Field" and n.get("name") == "start" and "StorageBlock" in n.get("base_ty", "")


_CALLSITE_CACHE = {}
_STRUCT_INIT_CACHE = {}


def _field_inits(F, base_ty, field):
    """[(Body, initialiser expr)] of `field` in every struct literal of the ADT named by base_ty."""
    key = id(F)
    if key not in _STRUCT_INIT_CACHE:
        idx = {}
        for f in F.fns.values():
            if f["crate"] not in ("garnish_lang_simple_data", "gfixture"):
                continue
            b = None
            for n in walk(f["hir"]):
                if n.get("k") == "Struct" and n.get("def"):
                    if b is None:
                        b = Body(f)
                    for fl in n["fields"]:
                        if "e" in fl:
                            idx.setdefault((n["def"], fl["name"]), []).append((b, fl["e"]))
        _STRUCT_INIT_CACHE.clear()
        _STRUCT_INIT_CACHE[key] = idx
    t = base_ty.lstrip("&").replace("mut ", "").strip()
    t = t.split("<")[0]
    out = []
    for (d, fn), v in _STRUCT_INIT_CACHE[key].items():
        if fn == field and (d == t or d.split("<")[0] == t):
            out.extend(v)
    return out


def _call_sites(F, path):
    """[(Body of caller, argument expressions incl. receiver)] for every workspace call of `path`."""
    key = id(F)
    if key not in _CALLSITE_CACHE:
        idx = {}
        for f in F.fns.values():
            if f["crate"] != "garnish_lang_simple_data" and f["crate"] != "gfixture":
                continue
            b = None
            for d, n in hirq.calls_in(f["hir"]):
                if d in F.fns:
                    if b is None:
                        b = Body(f)
                    idx.setdefault(d, []).append((b, call_args(n)))
        _CALLSITE_CACHE.clear()
        _CALLSITE_CACHE[key] = idx
    return _CALLSITE_CACHE[key].get(path, [])


def _plain_defs(body):
    """lid -> defining expressions that give the local a NEW value (let initialisers, plain assignments, pattern sources).
    Compound assignments (`x -= 1`) adjust a value and keep its base, so they are not definitions here."""
    cache = body.__dict__.get("_plain_defs")
    if cache is not None:
        return cache
    cache = {}
    fn = body.fn
    for i_, p_ in enumerate(fn.get("params", [])):
        for n in walk(p_):
            if n.get("k") == "Binding":
                cache.setdefault(n["lid"], []).append({"k": "Param", "index": i_})
    def bind(pat, src):
        if pat.get("k") == "Tuple" and isinstance(src, dict) and peel(src).get("k") == "Tup" and len(peel(src)["es"]) == len(pat["pats"]):
            for q, e_ in zip(pat["pats"], peel(src)["es"]):
                bind(q, e_)
            return
        for n in walk(pat):
            if n.get("k") == "Binding":
                cache.setdefault(n["lid"], []).append({"k": "Destructure", "of": src})
    for n in walk(fn["hir"]):
        k = n.get("k")
        if k == "Let" and "pat" in n and n.get("init") is not None:
            pat = n["pat"]
            if pat.get("k") == "Binding" and not pat.get("sub"):
                cache.setdefault(pat["lid"], []).append(n["init"])
            else:
                bind(pat, n["init"])
        elif k == "LetExpr":
            bind(n["pat"], n["init"])
        elif k == "Match":
            for arm in n["arms"]:
                bind(arm["pat"], n["scrut"])
        elif k == "Assign":
            l = hirq.local_of(n["l"])
            if l is not None and peel(n["l"]).get("k") == "Path":
                cache.setdefault(l, []).append(n["r"])
        elif k == "Closure":
            for p_ in n.get("params", []):
                for m in walk(p_):
                    if m.get("k") == "Binding":
                        cache.setdefault(m["lid"], []).append({"k": "ClosureParam"})
    body.__dict__["_plain_defs"] = cache
    return cache


_PASS_RECV = {"clone", "min", "max", "into", "to_owned", "saturating_sub", "saturating_add", "checked_add", "checked_sub", "unwrap", "unwrap_or", "expect", "copied", "cloned"}


def _mentions_start(body, e, depth=0, ctxF=None, seen=None):
    """MUST analysis: is the index expression e rebased on a StorageBlock.start on every way it can get its value?
    A sum is based when one summand is; a local when every plain definition of it is; a parameter when every call site passes
    a based value; a range when both bounds are; a struct field when every initialiser is."""
    if e is None or depth > 14:
        return False
    if seen is None:
        seen = set()
    if isinstance(e, dict) and e.get("k") == "Destructure":
        return _mentions_start(body, e["of"], depth + 1, ctxF, seen)
    if isinstance(e, dict) and e.get("k") == "Param":
        if ctxF is None:
            return False
        callers = _call_sites(ctxF, body.fn["path"])
        key = ("p", body.fn["path"], e["index"])
        if key in seen:
            return True  # a cycle through this parameter adds no new way to obtain a value
        seen = seen | {key}
        return bool(callers) and all(_mentions_start(cb, args[e["index"]] if e["index"] < len(args) else None, depth + 1, ctxF, seen) for cb, args in callers)
    e = peel(e)
    k = e.get("k")
    if k == "Struct" and (e.get("def") or "").startswith("core::ops::range::"):
        fs = [f["e"] for f in e["fields"]]
        return bool(fs) and all(_mentions_start(body, x, depth + 1, ctxF, seen) for x in fs)
    if _is_block_start(e):
        return True
    if k == "Binary" and e.get("op") in ("+",):
        return _mentions_start(body, e["l"], depth + 1, ctxF, seen) or _mentions_start(body, e["r"], depth + 1, ctxF, seen)
    if k == "Binary" and e.get("op") in ("-",):
        return _mentions_start(body, e["l"], depth + 1, ctxF, seen)
    if k == "Path" and e.get("res") == "local":
        key = ("l", body.fn["path"], e["lid"])
        if key in seen:
            return True
        seen = seen | {key}
        defs = _plain_defs(body).get(e["lid"], [])
        return bool(defs) and all(_mentions_start(body, d, depth + 1, ctxF, seen) for d in defs)
    if k == "Field":
        nm = e.get("name", "")
        if nm.isdigit():
            # tuple field: of a tuple literal -> that element; of a call -> the call
            inner = peel(e["e"])
            if inner.get("k") == "Tup" and int(nm) < len(inner["es"]):
                return _mentions_start(body, inner["es"][int(nm)], depth + 1, ctxF, seen)
            return _mentions_start(body, e["e"], depth + 1, ctxF, seen)
        if ctxF is not None:
            inits = _field_inits(ctxF, e.get("base_ty", ""), nm)
            return bool(inits) and all(_mentions_start(ib, ie, depth + 1, ctxF, seen) for ib, ie in inits)
        return False
    if k in ("Call", "MethodCall"):
        d = callee(e) or ""
        if d.endswith("extents_to_start_end"):
            return any(_mentions_start(body, a, depth + 1, ctxF, seen) for a in call_args(e))
        if d.startswith("core::ops::range::") or last(d) in ("new",) and "Range" in d:
            return all(_mentions_start(body, a, depth + 1, ctxF, seen) for a in call_args(e))
        if k == "MethodCall" and e.get("m") in _PASS_RECV:
            return _mentions_start(body, e["recv"], depth + 1, ctxF, seen)
        if d.endswith(("::Ok", "::Some")) and e.get("args"):
            return _mentions_start(body, e["args"][0], depth + 1, ctxF, seen)
        if d in ("core::iter::traits::collect::IntoIterator::into_iter", "core::iter::traits::iterator::Iterator::next", "core::iter::traits::iterator::Iterator::rev") and call_args(e):
            return _mentions_start(body, call_args(e)[0], depth + 1, ctxF, seen)
        return False
    if k == "If":
        return _mentions_start(body, e.get("then"), depth + 1, ctxF, seen) and (e.get("else") is None or _mentions_start(body, e.get("else"), depth + 1, ctxF, seen))
    if k == "Match":
        arms = [a["body"] for a in e["arms"]]
        return bool(arms) and all(_mentions_start(body, a, depth + 1, ctxF, seen) for a in arms)
    if k == "Block":
        return _mentions_start(body, e["b"].get("expr"), depth + 1, ctxF, seen)
    if k in ("Cast", "Unary"):
        return _mentions_start(body, e["e"], depth + 1, ctxF, seen)
    return False


def d2_sites(F, f):
    body = Body(f)
    n = 0
    for x in walk(f["hir"]):
        if x.get("k") == "Index" and _is_heap_expr(x["e"]):
            n += 1
            ok = _mentions_start(body, x["idx"], 0, F)
            yield ("heap-index#%d" % n, loc(x), ok)


def rule_D2(ctx):
    F = ctx.F
    r = RuleResult("D2", "heap-index-base: every index or slice of BasicGarnishData's raw heap vector is rebased on a StorageBlock.start")
    scope = [f for f in F.fns.values() if f["crate"] == "garnish_lang_simple_data" and "::basic::" in f["path"]]
    from .rules_numeric import allow

    al = allow("heap_index.json")
    total = 0
    for f in scope:
        for inst, where, ok in d2_sites(F, f):
            total += 1
            r.examine((f["path"], inst), True, {"fn": f["path"], "site": inst, "where": where, "rebased": ok})
            if not ok:
                a = al.get(f["path"], {}).get(inst)
                if a:
                    r.info.append("allowed %s %s: %s" % (f["path"], inst, a))
                    continue
                r.finding(f["path"], inst, where, "raw heap vector indexed without a block base: the index expression has no StorageBlock.start among its origins (block-relative address used as an absolute one)")
    r.floor("raw heap index/slice sites", total, 10)
    for f in F.fns_in("gfixture::d2::"):
        if f["kind"] == "Closure":
            continue
        hit = any(not ok for _i, _w, ok in d2_sites(F, f))
        if f["name"].startswith("ctl_"):
            r.control(f["name"], hit)
        elif f["name"].startswith("ok_"):
            r.neg_control(f["name"], not hit)
    return r


# --------------------------------------------------------------------------------------- D5

from . import ai as _ai  # noqa: E402


def d5_analyse(F, f):
    """Accumulator strings (pushed to character by character) that are decoded by a workspace function must be emptied
    before they accumulate again.  Returns (violations, accumulators, decode sites)."""
    mir = f["mir"]
    # accumulators: String locals that receive String::push
    accs = set()
    for b in mir["blocks"]:
        t = b["term"]
        if t["k"] == "Call" and t.get("def") in ("alloc::string::String::push", "alloc::string::String::push_str"):
            pass
    viol = []
    decodes = set()
    pushes = set()

    def local_of_ref(v):
        if isinstance(v, tuple) and v and v[0] == "r" and v[1].count(".") == 0:
            return v[1]
        return None

    def on_call(interp, env, ts, bi, t):
        d = t.get("def") or ""
        args = [interp.operand(a, env) for a in t["args"]]
        consumed = ts or frozenset()
        if d in ("alloc::string::String::push", "alloc::string::String::push_str") and args:
            l = local_of_ref(args[0])
            if l:
                pushes.add(l)
                if l in consumed:
                    viol.append((l, bi, loc(t)))
            return None
        if d in ("alloc::string::String::as_str", "core::ops::deref::Deref::deref", "alloc::string::String::as_mut_str") and args:
            l = local_of_ref(args[0])
            if l and "alloc::string::String" in mir["locals"][int(l[1:])]["ty"]:
                return [(("strof", l), consumed, None)]
            return None
        if d in ("alloc::string::String::clear",) and args:
            l = local_of_ref(args[0])
            if l:
                return [(_ai.TOP, frozenset(consumed - {l}), None)]
            return None
        g = F.fns.get(t.get("resolved") or d)
        if g is not None and g["crate"] in ("garnish_lang_simple_data", "gfixture") and not t.get("exp"):
            hit = [a[1] for a in args if isinstance(a, tuple) and a and a[0] == "strof"]
            if hit:
                decodes.add((bi, hit[0]))
                return [(_ai.TOP, frozenset(consumed | set(hit)), None)]
        # a call that writes the accumulator local itself (String::new() assigned to it) resets it
        if not t["dest"]["p"]:
            k = "_%d" % t["dest"]["l"]
            if k in consumed:
                return [(_ai.TOP, frozenset(consumed - {k}), None)]
        return None

    def on_assign(interp, env, ts, bi, st):
        consumed = ts or frozenset()
        if not st["place"]["p"]:
            k = "_%d" % st["place"]["l"]
            if k in consumed:
                return (frozenset(consumed - {k}),)
        return None

    it = _ai.Interp(f, hooks={"on_call": on_call, "on_assign": on_assign, "track": lambda k: ".*" not in k}, init_ts=frozenset(), cap=60000)
    it.run()
    seen = set()
    out = []
    for l, bi, where in viol:
        if (l, bi) in seen:
            continue
        seen.add((l, bi))
        nm = mir["locals"][int(l[1:])].get("name", l)
        out.append((nm, where))
    return out, pushes, decodes, it.visited


def rule_D5(ctx):
    F = ctx.F
    r = RuleResult("D5", "escape-buffer-reset: in the literal parsers an accumulator that has been decoded is emptied before it accumulates the next escape")
    fns = [f for f in F.fns.values() if f["crate"] == "garnish_lang_simple_data" and "::data::parsing::" in f["path"] and f["kind"] != "Closure"]
    r.floor("functions in data::parsing", len(fns), 2)
    n_dec = 0
    for f in sorted(fns, key=lambda f: f["path"]):
        try:
            viol, pushes, decodes, states = d5_analyse(F, f)
        except _ai.StateCapExceeded as e:
            r.finding(f["path"], "state-cap", "-", "analysis exceeded its state cap (%s): failing closed" % e)
            continue
        n_dec += len(decodes)
        r.examine((f["path"],), bool(decodes), {"fn": f["path"], "accumulators": len(pushes), "decode_sites": len(decodes), "abstract_states": states} if decodes else None)
        n = 0
        for nm, where in viol:
            n += 1
            r.finding(f["path"], "stale-accumulator:%s#%d" % (nm, n), where, "`%s` is pushed to again after it was decoded, without being emptied in between: the next escape is decoded from the digits of all previous ones" % nm)
    r.floor("accumulator decode sites", n_dec, 1)
    for f in F.fns_in("gfixture::d5::"):
        if f["kind"] == "Closure":
            continue
        viol, _p, _d, _s = d5_analyse(F, f)
        if f["name"].startswith("ctl_"):
            r.control(f["name"], bool(viol))
        elif f["name"].startswith("ok_"):
            r.neg_control(f["name"], not viol)
    return r
