//! T15 controls: walking two iterators in lock step and then deciding which one is longer.
use std::cmp::Ordering;

/// `zip` over borrowed iterators pulls an item from the left one before it finds the right one exhausted: that item is gone
/// when `left.next()` is asked whether the left side is longer.
pub fn ctl_zip_then_next<I: Iterator<Item = u32>>(mut left: I, mut right: I) -> Ordering {
    for (a, b) in left.by_ref().zip(right.by_ref()) {
        if a != b {
            return a.cmp(&b);
        }
    }
    match (left.next(), right.next()) {
        (None, None) => Ordering::Equal,
        (None, Some(_)) => Ordering::Less,
        (Some(_), _) => Ordering::Greater,
    }
}

pub fn ctl_take_while_then_next<I: Iterator<Item = u32>>(mut it: I) -> Option<u32> {
    let _small: Vec<u32> = it.by_ref().take_while(|v| *v < 10).collect();
    it.next()
}

/// consuming `zip` whose operands are not looked at again loses nothing anybody asks for
pub fn ok_zip_owned<I: Iterator<Item = u32>>(left: I, right: I) -> bool {
    left.zip(right).all(|(a, b)| a == b)
}

/// the hand-written lock step keeps both last draws and hands them on
pub fn ok_manual_lockstep<I: Iterator<Item = u32>>(mut left: I, mut right: I) -> Ordering {
    let mut a = left.next();
    let mut b = right.next();
    loop {
        match (a, b) {
            (Some(x), Some(y)) => {
                if x != y {
                    return x.cmp(&y);
                }
            }
            _ => break,
        }
        a = left.next();
        b = right.next();
    }
    match (a, b) {
        (None, None) => Ordering::Equal,
        (None, Some(_)) => Ordering::Less,
        (Some(_), _) => Ordering::Greater,
    }
}
