#!/bin/sh
# tools/intake_seed.sh <worktree> <seed-id> <property> <summary> : verify a sub-agent's seed, store it under seeded/<seed-id>, run the property's rules on it.
W="$1"; ID="$2"; PROP="$3"; SUM="$4"
sh /verif/tools/verify_seed.sh "$W" > /tmp/intake_$ID.log 2>&1
cat /tmp/intake_$ID.log | cut -c1-220
D=/verif/seeded/$ID
mkdir -p "$D"
cp "$W/SEED/patch.diff" "$D/patch.diff"
[ -f "$W/SEED/notes.md" ] && cp "$W/SEED/notes.md" "$D/notes.md"
[ -d "$W/SEED/demo" ] && rsync -a --exclude target "$W/SEED/demo/" "$D/demo/"
[ -f "$W/SEED/demo.sh" ] && cp "$W/SEED/demo.sh" "$D/demo.sh"
python3 - "$D" "$ID" "$PROP" "$SUM" <<'PY'
import json,sys,re
d,i,p,s=sys.argv[1:5]
log=open('/tmp/intake_%s.log'%i).read()
ex=re.findall(r'exit=(\d+)',log)
base=re.search(r'(\d+)/(\d+)',log)
json.dump({"id":i,"property":p,"summary":s,"origin":"fresh sub-agent given only the property text and a scratch worktree",
 "confirmed":{"baseline":(re.search(r"stable_pass.*", log) or [log[:100]])[0],"demo_exit_with_change":int(ex[0]) if ex else None,"demo_exit_without_change":int(ex[1]) if len(ex)>1 else None},
 "expected_default":"detected"},open(d+'/meta.json','w'),indent=1)
print(open(d+'/meta.json').read())
PY
cd /verif && python3 tools/run_mutants.py "$ID" | tail -3
