//! G5 controls: walking a linked structure whose links may not form a tree.
pub struct N {
    pub left: Option<usize>,
    pub right: Option<usize>,
}
impl N {
    pub fn get_left(&self) -> Option<usize> {
        self.left
    }
    pub fn get_right(&self) -> Option<usize> {
        self.right
    }
}

/// follows the links with a work stack and never notices a node it has already seen
pub fn ctl_walk_without_marks(nodes: &[N], root: usize) -> Result<usize, String> {
    let mut count = 0;
    let mut pending = vec![root];
    while let Some(i) = pending.pop() {
        count += 1;
        if let Some(n) = nodes.get(i) {
            pending.extend(n.get_left());
            pending.extend(n.get_right());
        }
    }
    Ok(count)
}

pub fn ok_walk_with_marks(nodes: &[N], root: usize) -> Result<usize, String> {
    let mut seen = vec![false; nodes.len()];
    let mut count = 0;
    let mut pending = vec![root];
    while let Some(i) = pending.pop() {
        match seen.get(i).copied() {
            Some(false) => {}
            _ => return Err(format!("node {} is linked more than once", i)),
        }
        seen[i] = true;
        count += 1;
        if let Some(n) = nodes.get(i) {
            pending.extend(n.get_left());
            pending.extend(n.get_right());
        }
    }
    Ok(count)
}

/// marks and rejects, except that childless nodes skip the test altogether
pub fn ctl_walk_exempts_leaves(nodes: &[N], root: usize) -> Result<usize, String> {
    let mut seen = vec![false; nodes.len()];
    let mut count = 0;
    let mut pending = vec![root];
    while let Some(i) = pending.pop() {
        match (seen.get_mut(i), nodes.get(i)) {
            (Some(_), Some(n)) if n.get_left().is_none() && n.get_right().is_none() => {}
            (Some(s), Some(n)) if !*s => {
                *s = true;
                count += 1;
                pending.extend(n.get_left());
                pending.extend(n.get_right());
            }
            _ => return Err(format!("node {} is linked more than once", i)),
        }
    }
    Ok(count)
}
