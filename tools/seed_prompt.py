#!/usr/bin/env python3
"""tools/seed_prompt.py <PROP> <worktree> : print the brief for a fresh seeding sub-agent. It contains the property
text, the worktree path, and one line per change already collected for that property (so the new one differs) -
nothing about the checks."""
import glob, json, os, sys
prop, wt = sys.argv[1], sys.argv[2]
P = {}
for l in open('/verif/properties.jsonl'):
    p = json.loads(l); P[p['id']] = p
p = P[prop]
prev = []
for m in sorted(glob.glob('/verif/seeded/*/meta.json')):
    j = json.load(open(m))
    if j['property'] == prop:
        prev.append(j['summary'])
print(f"""You are helping test a verification effort for the Rust project garnish-lang/garnish-core (the Garnish scripting language core: lexer, parser, bytecode builder, stack-based runtime over a pluggable data trait, two data implementations SimpleGarnishData and BasicGarnishData).

Your own scratch git worktree of the repository is at {wt} . Work ONLY inside it (never touch /repo or /verif, never read /verif). There is no network; use `cargo ... --offline`. The workspace builds; run its test suite with `cd {wt} && cargo test --workspace --no-fail-fast --offline`: about 1500 tests pass and 39 tests (runtime mock tests hitting unimplemented!() stubs, one simple_data iterator test, 11 in tests/tests) ALREADY FAIL on the clean checkout - 'the test suite still passes' below means: the set of passing tests is unchanged (no test that passes on the clean checkout fails with your change).

Here is one semantic property that the project is supposed to satisfy:

--- PROPERTY {p['id']}: {p.get('title','')} ---
{p.get('statement','')}
--- anchors: {json.dumps(p.get('anchors', p.get('anchor','')))[:1500]}
---

YOUR TASK: write a realistic change (a small edit a developer could plausibly make: a refactor gone subtly wrong, an 'optimisation', an off-by-one, a swapped pair, a dropped case, two sites that each look fine alone...) to the NON-TEST source of the repository that BREAKS this property, while
 (1) the workspace still compiles,
 (2) the ENTIRE existing test suite still passes unchanged (do not edit, delete or add tests in the repo), and
 (3) the breakage needs something specific to manifest - a multi-step sequence of operations, an unusual input, a particular combination of operand types, a rarely-taken path, a specific growth/ordering history, or two cooperating sites - NOT something ordinary use would expose at once.
Read the code the property is about first, and find a place where the existing tests are blind. Prefer a semantic change in logic over anything cosmetic. Keep the change small (typically 1-15 lines). Do not just insert a panic!/unwrap or an obviously malicious special-case on a magic value; it should look like honest code.
""")
if prev:
    print("Changes ALREADY collected for this property - yours must be in a DIFFERENT place and use a DIFFERENT mechanism:")
    for s in prev: print("  - " + s)
print(f"""
DELIVERABLES, all under {wt}/SEED/ (create the directory; it is not part of the change):
  * SEED/patch.diff   - `git diff` of your change to the repository sources (must apply with `git apply` to a clean checkout; must NOT include SEED/ itself). Leave the change APPLIED in the worktree when you finish.
  * SEED/demo/        - a small standalone cargo binary crate (its own `[workspace]` table in Cargo.toml, path dependencies like `garnish_lang_compiler = {{ path = "../../compiler" }}`, `garnish_lang_simple_data = {{ path = "../../data" }}`, `garnish_lang_runtime = {{ path = "../../runtime" }}`, `garnish_lang_traits = {{ path = "../../traits" }}` as needed; copy {wt}/Cargo.lock to SEED/demo/Cargo.lock first so it resolves offline) whose `cargo run --offline --quiet` EXITS 0 on the unchanged code and EXITS NON-ZERO (assertion failure / process::exit(1) / panic) with your change applied. It should print what it observed. Keep it deterministic and quick (< 30 s), and guard anything that could hang or eat memory.
  * SEED/notes.md     - what you changed and why it breaks the property, exactly what is needed for it to manifest, why the existing tests do not notice, and the commands you ran with their observed results (test suite with the change: all pass; demo with change: fails; demo without change: passes).
Verify all three claims yourself before finishing (run the full test suite with the change applied; run the demo with and without the change - NEVER use `git stash` (the stash is shared with other people's worktrees of this repository and will swap changes between them); instead write `git diff > SEED/patch.diff`, then `git apply -R SEED/patch.diff` to remove your change and `git apply SEED/patch.diff` to restore it). Remove the demo's `target` directory when done. In your final message give a 3-line summary: file/function changed, what it needs to manifest, and the verification results.""")
