"""Rules added after the third round of seeded changes: N5 literal narrowing, D8 column units, T16 lexicographic structure,
W4 no visited-set in value flattening, D3b every path through the copy stanzas, D9 exclusive extents."""
from .facts import walk, loc
from . import hirq, mirq
from .hirq import peel, callee, call_args, last
from .origin import Body
from .report import RuleResult

INT_W = {"i8": 8, "i16": 16, "i32": 32, "i64": 64, "i128": 128, "isize": 64, "u8": 8, "u16": 16, "u32": 32, "u64": 64, "u128": 128, "usize": 64}


def _narrowing(frm, to):
    if frm not in INT_W or to not in INT_W:
        return False
    sf, st = frm[0] == "i", to[0] == "i"
    if INT_W[frm] > INT_W[to]:
        return True
    if INT_W[frm] == INT_W[to] and sf != st:
        return True
    if not sf and st and INT_W[frm] >= INT_W[to]:
        return True
    return False


def narrowing_conversions(F, f, _nested=True):
    """(where, T, target, casts) for every `T -> number` conversion called in f (closures written in f included) whose From
    impl narrows with an `as` cast."""
    out = []
    if _nested:
        for p, g in F.fns.items():
            if g["kind"] == "Closure" and p.startswith(f["path"] + "::{closure"):
                out.extend(narrowing_conversions(F, g, False))
    for b in f["mir"]["blocks"]:
        t = b["term"]
        if b["cleanup"] or t["k"] != "Call":
            continue
        d = t.get("def") or ""
        target = None
        if d == "core::convert::Into::into" and len(t.get("gargs", [])) >= 2:
            T, U = t["gargs"][0]["txt"], t["gargs"][1]["txt"]
            target = "<%s as core::convert::From<%s>>::from" % (U, T)
        elif d == "core::convert::From::from" and t.get("resolved"):
            target = t["resolved"]
        g = F.fns.get(target) if target else None
        if g is None or not (g["crate"].startswith("garnish_lang") or g["crate"] == "gfixture"):
            continue
        casts = []
        for gb in g["mir"]["blocks"]:
            for s in gb["stmts"]:
                if s["k"] == "Assign" and s["rv"]["k"] == "Cast" and s["rv"].get("cast") == "IntToInt" and _narrowing(s["rv"].get("from"), s["rv"].get("to")):
                    casts.append("%s as %s" % (s["rv"]["from"], s["rv"]["to"]))
        out.append((loc(t), target, casts))
    return out


def rule_N5(ctx):
    F = ctx.F
    r = RuleResult("N5", "literal narrowing: the literal parsers hand a parsed integer to the number type only through a conversion that does not narrow it with an `as` cast")
    scope = [f for f in F.fns.values() if f["crate"] == "garnish_lang_simple_data" and ("::data::parsing::" in f["path"] or (f.get("trait_item") or "").endswith("GarnishData::parse_add_number")) and f["kind"] != "Closure"]
    n = 0
    for f in sorted(scope, key=lambda f: f["path"]):
        k = 0
        for where, target, casts in narrowing_conversions(F, f):
            n += 1
            r.examine((f["path"], where), True, {"fn": f["path"], "conversion": target, "where": where, "narrowing_casts": casts})
            if casts:
                k += 1
                r.finding(f["path"], "narrowing-conversion#%d:%s" % (k, casts[0].replace(" ", "")), where,
                          "the parsed value goes through %s, which narrows it with `%s`: an integer literal outside the target range wraps to a different number instead of becoming a float / an error" % (target, casts[0]))
    r.floor("functions on the literal path", len(scope), 3)
    r.floor("number conversions on the literal path", n, 1)
    for f in F.fns_in("gfixture::round3::n5::"):
        if f["kind"] == "Closure" or not f.get("name", "").startswith(("ctl_", "ok_")):
            continue
        hit = any(c for _w, _t, c in narrowing_conversions(F, f))
        if f["name"].startswith("ctl_"):
            r.control(f["name"], hit)
        else:
            r.neg_control(f["name"], not hit)
    return r


# --------------------------------------------------------------------------------------- D8
def column_stores(F, f, col_fields):
    """(where, bad_origin) for every store into a column field of the lexer in f."""
    body = Body(f)
    out = []
    for n in walk(f["hir"]):
        if n.get("k") not in ("Assign", "AssignOp"):
            continue
        l = peel(n["l"])
        if l.get("k") == "Field" and l.get("name") in col_fields:
            bad = None
            for o in body.origins(n["r"]):
                if o.get("k") == "MethodCall" and o.get("m") == "len" and any(t in (o.get("recv_ty") or "") for t in ("str", "String")):
                    bad = loc(o)
            out.append((loc(n), bad))
    return out


def rule_D8(ctx):
    from .rules_lexer2 import LexShape
    F = ctx.F
    r = RuleResult("D8", "column units: the lexer's column counters (character counts) never receive a UTF-8 byte length")
    sh = LexShape(F)
    if sh.err:
        r.anchor_missing("lexer shape", sh.err)
        return r
    # column fields: the counter and the token-start column it is copied into
    names = set()
    names.add(sh.fields[sh.idx["col"]]["name"])
    mir = sh.starter["mir"]
    for b in mir["blocks"]:
        for s in b["stmts"]:
            if s["k"] == "Assign" and s["place"]["l"] == 1 and len(s["place"]["p"]) == 2 and s["rv"]["k"] == "Use":
                l = mirq.op_local(s["rv"]["op"])
                if l is not None:
                    for o in mirq.origins(mir, l):
                        if o[1] != "term" and o[2].get("k") == "Use":
                            pl = mirq.op_place(o[2]["op"])
                            if pl and pl["l"] == 1 and len(pl["p"]) == 2 and isinstance(pl["p"][1], dict) and pl["p"][1].get("f") == sh.idx["col"]:
                                names.add(s["place"]["p"][1]["n"])
    r.analysed["column_fields"] = sorted(names)
    n = 0
    for f in sh.methods:
        k = 0
        for where, bad in column_stores(F, f, names):
            n += 1
            r.examine((f["path"], where), True, {"fn": f["path"], "store": where, "byte_length_origin": bad})
            if bad:
                k += 1
                r.finding(f["path"], "column-from-byte-length#%d" % k, where, "a column field is computed from a byte length (len() at %s): columns count characters, so after a multi-byte character every later token of the line is reported too far right" % bad)
    r.floor("stores into the lexer's column fields", n, 3)
    for f in F.fns_in("gfixture::round3::d8::"):
        if f["kind"] == "Closure" or not f.get("name", "").startswith(("ctl_", "ok_")):
            continue
        hit = any(b for _w, b in column_stores(F, f, {"column", "start_column"}))
        if f["name"].startswith("ctl_"):
            r.control(f["name"], hit)
        else:
            r.neg_control(f["name"], not hit)
    return r


# --------------------------------------------------------------------------------------- T16
def lexicographic_sites(F, f):
    """For a function with a loop that compares items of two sequences: every comparison of the two *lengths* must be
    dominated by the loop (it is the tie-break after a common prefix).  Returns (n_length_comparisons, [where of early ones])."""
    mir = f["mir"]
    asg = mirq.assignments(mir)
    dom = mirq.dominators(mir)
    reach = mirq.reachable_blocks(mir)
    # loop headers: a reachable block with a predecessor it dominates
    preds = {}
    for bi in reach:
        for s in mirq.succs(mir["blocks"][bi]["term"]):
            preds.setdefault(s, []).append(bi)
    headers = [b for b in reach if any(b in dom.get(p, set()) for p in preds.get(b, []))]
    if not headers:
        return 0, [], 0
    # locals that hold a length: results of calls whose destination feeds size_to_number / named by a *len* function parameter call
    def is_len_local(l, depth=0):
        if depth > 6:
            return False
        for o in mirq.origins(mir, l, asg):
            if o[1] == "term":
                d = o[2].get("def") or ""
                if last(d) == "size_to_number":
                    return True
            elif o[2].get("k") == "Use":
                # `(a, b) = (f(x), f(y))`: a field of a tuple aggregate
                pl = mirq.op_place(o[2]["op"])
                if pl and len(pl["p"]) == 1 and isinstance(pl["p"][0], dict) and "f" in pl["p"][0]:
                    for (_b, _i, node) in asg.get(pl["l"], []):
                        if isinstance(node, dict) and node.get("k") == "Aggregate" and node.get("agg") == "Tuple" and pl["p"][0]["f"] < len(node["ops"]):
                            l2 = mirq.op_local(node["ops"][pl["p"][0]["f"]])
                            if l2 is not None and is_len_local(l2, depth + 1):
                                return True
            elif o[2].get("k") in ("Ref",):
                pass
        return False
    n = 0
    early = []
    for bi in sorted(reach):
        t = mir["blocks"][bi]["term"]
        if t["k"] != "Call":
            continue
        d = t.get("def") or ""
        if d in ("core::cmp::PartialOrd::partial_cmp", "core::cmp::Ord::cmp", "core::cmp::PartialEq::ne", "core::cmp::PartialEq::eq") and len(t["args"]) == 2:
            ls = [mirq.op_local(a) for a in t["args"]]
            if None in ls:
                continue
            if all(is_len_local(l) for l in ls):
                n += 1
                if not any(h in dom.get(bi, set()) for h in headers):
                    early.append(loc(t))
    return n, early, len(headers)


def rule_T16(ctx):
    F = ctx.F
    r = RuleResult("T16", "lexicographic structure: in the element-wise comparison of two lists the two lengths are compared only after the element loop (as the tie-break of a common prefix), never before it")
    n_fns = 0
    for f in sorted(F.fns.values(), key=lambda f: f["path"]):
        if f["crate"] != "garnish_lang_runtime" or "::comparison::" not in f["path"] or f["kind"] == "Closure":
            continue
        n, early, nh = lexicographic_sites(F, f)
        if n:
            n_fns += 1
            r.examine((f["path"],), True, {"fn": f["path"], "length_comparisons": n, "before_the_loop": early, "loops": nh})
            for k, w in enumerate(early):
                r.finding(f["path"], "length-compared-before-elements#%d" % (k + 1), w, "the two list lengths are compared at %s before the element loop has run: lists are then ordered by length first, not lexicographically ('z' < 'aa')" % w)
    r.floor("list comparison functions with a length tie-break", n_fns, 1)
    for f in F.fns_in("gfixture::round3::t16::"):
        if f["kind"] == "Closure" or not f.get("name", "").startswith(("ctl_", "ok_")):
            continue
        n, early, _nh = lexicographic_sites(F, f)
        if f["name"].startswith("ctl_"):
            r.control(f["name"], bool(early))
        else:
            r.neg_control(f["name"], n >= 1 and not early)
    return r


# --------------------------------------------------------------------------------------- W4
def flatten_walks(F, f, variant_suffix="::Concatenation"):
    """Loops in f that pop a work stack and, on a Concatenation cell, push its two sides: [(loop, dedup call or None)]."""
    out = []
    for lp in walk(f["hir"]):
        if lp.get("k") != "Loop":
            continue
        has_arm = False
        for m in walk(lp):
            if m.get("k") == "Match":
                for arm in m["arms"]:
                    names = [q.get("def") or "" for q in walk(arm["pat"]) if q.get("k") in ("TupleStruct", "Struct", "Expr", "Path")]
                    names += [(q.get("e") or {}).get("def") or "" for q in walk(arm["pat"]) if q.get("k") == "Expr"]
                    if any(nm.endswith(variant_suffix) or last(nm) == "Concatenation" for nm in names if nm):
                        pushes = [x for x in walk(arm["body"]) if x.get("k") == "MethodCall" and x.get("m") == "push"]
                        if len(pushes) >= 2:
                            has_arm = True
        if not has_arm:
            continue
        dedup = None
        for x in walk(lp):
            if x.get("k") == "MethodCall" and x.get("m") in ("insert", "contains", "contains_key") and any(t in (x.get("recv_ty") or "") for t in ("HashSet", "BTreeSet", "HashMap", "BTreeMap")):
                dedup = loc(x)
        out.append((lp, dedup))
    return out


def rule_W4(ctx):
    F = ctx.F
    r = RuleResult("W4", "flattening keeps every occurrence: the walk that flattens a concatenation into its item sequence expands every node it meets, without a visited set (a shared sub-sequence occurs as often as it is referenced)")
    n = 0
    for f in sorted(F.fns.values(), key=lambda f: f["path"]):
        if f["crate"] not in ("garnish_lang_simple_data", "garnish_lang_traits", "garnish_lang_runtime") or f["kind"] == "Closure":
            continue
        for lp, dedup in flatten_walks(F, f):
            n += 1
            r.examine((f["path"], loc(lp)), True, {"fn": f["path"], "walk": loc(lp), "visited_set": dedup})
            if dedup:
                r.finding(f["path"], "dedup-in-flatten", dedup, "the concatenation walk consults a visited set (%s): a concatenation node referenced twice contributes its items once, so `(x <> x) == x` - structural equality, length and indexing of values that share a sub-sequence are wrong" % dedup)
    r.floor("concatenation flattening walks", n, 1)
    for f in F.fns_in("gfixture::round3::w4::"):
        if f["kind"] == "Closure" or not f.get("name", "").startswith(("ctl_", "ok_")):
            continue
        ws = flatten_walks(F, f, "::Cat")
        if f["name"].startswith("ctl_"):
            r.control(f["name"], any(d for _l, d in ws))
        else:
            r.neg_control(f["name"], bool(ws) and not any(d for _l, d in ws))
    return r


# --------------------------------------------------------------------------------------- D3b
def rule_D3b(ctx):
    F = ctx.F
    r = RuleResult("D3b", "one way through the heap move: every path through reallocate_heap that returns Ok installs the new start and size of all six blocks (no shortcut path that moves some blocks and not others)")
    fs = [f for f in F.fns.values() if f["crate"] == "garnish_lang_simple_data" and f.get("name") == "reallocate_heap"]
    if not fs:
        r.anchor_missing("reallocate_heap", "function not found")
        return r
    f = fs[0]
    mir = f["mir"]
    # marker per block field: a store into `<block>.start` through *self
    stores = {}
    for bi, b in enumerate(mir["blocks"]):
        if b["cleanup"]:
            continue
        for s in b["stmts"]:
            if s["k"] == "Assign":
                pr = s["place"]["p"]
                names = [e.get("n") for e in pr if isinstance(e, dict) and "n" in e]
                if names and names[-1] == "start":
                    stores.setdefault(bi, set()).add(".".join(names[:-1]) or "?")
        t = b["term"]
    # accessor form: self.x_block_mut().start = ..  -> the call result local is the block; find by call name
    asg = mirq.assignments(mir)
    for bi, b in enumerate(mir["blocks"]):
        if b["cleanup"]:
            continue
        for s in b["stmts"]:
            if s["k"] == "Assign":
                pr = s["place"]["p"]
                if len(pr) >= 2 and pr[0] == "*" and isinstance(pr[-1], dict) and pr[-1].get("n") == "start":
                    for o in mirq.origins(mir, s["place"]["l"], asg):
                        if o[1] == "term" and last(o[2].get("def") or "").endswith("_block_mut"):
                            stores.setdefault(bi, set()).add(last(o[2]["def"])[:-4])
    for bi in list(stores):
        stores[bi].discard("?")
    blocks_named = sorted(set(x for v in stores.values() for x in v))
    r.analysed["blocks_with_a_start_store"] = blocks_named
    r.floor("blocks whose start is installed by reallocate_heap", len(blocks_named), 6)
    # a returning path that installs extents for some block but not for another one (error exits install none and are fine)
    def reach_avoiding(starts, avoid):
        seen = set()
        work = [b for b in starts if not mir["blocks"][b]["cleanup"] and b not in avoid]
        prev = {b: None for b in work}
        while work:
            b = work.pop(0)
            if b in seen:
                continue
            seen.add(b)
            for s_ in mirq.succs(mir["blocks"][b]["term"]):
                if s_ not in seen and s_ not in avoid and not mir["blocks"][s_]["cleanup"]:
                    prev.setdefault(s_, b)
                    work.append(s_)
        return seen, prev
    n = 0
    reported = set()
    for blk in blocks_named:
        n += 1
        avoid = set(bi for bi, v in stores.items() if blk in v)
        seen, prev = reach_avoiding([0], avoid)
        witness = None
        for bi in sorted(seen):
            others = stores.get(bi, set()) - {blk}
            if not others:
                continue
            seen2, _p2 = reach_avoiding([bi], avoid)
            if any(mir["blocks"][x]["term"]["k"] == "Return" for x in seen2):
                witness = (bi, sorted(others))
                break
        r.examine((f["path"], blk), True, {"block": blk, "a_returning_path_moves_other_blocks_without_it": bool(witness)})
        if witness and blk not in reported:
            reported.add(blk)
            bi, others = witness
            r.finding(f["path"], "partial-move:" + blk, loc(mir["blocks"][bi]["stmts"][0]) if mir["blocks"][bi]["stmts"] else "-",
                      "a returning path through reallocate_heap installs new extents for %s (block bb%d) without installing any for %s: the six blocks no longer move together - cells of a block that is skipped are found at extents that describe the old layout" % (others, bi, blk))
    return r


# --------------------------------------------------------------------------------------- D9
def extents_ends(F, f):
    """(where, kind) for each `Extents::new(start, end)` in f: kind 'last-index' when the end is `<something> - 1`."""
    body = Body(f)
    out = []
    for d, c in hirq.calls_in(f["hir"]):
        if not (last(d) == "new" and "Extents" in d):
            continue
        args = call_args(c)
        if len(args) < 2:
            continue
        kind = "ok"
        for o in body.origins(args[1]) + [peel(args[1])]:
            for x in walk(o):
                if x.get("k") == "Binary" and x.get("op") == "-":
                    rv = peel(x["r"])
                    if hirq.lit_value(rv) in (1, "1") or (callee(rv) or "").endswith("::one"):
                        kind = "last-index"
                if x.get("k") in ("Call", "MethodCall") and last(callee(x) or "") in ("sub", "decrement"):
                    a2 = call_args(x)
                    if last(callee(x) or "") == "decrement" or (len(a2) > 1 and ((callee(peel(a2[1])) or "").endswith("::one") or hirq.lit_value(a2[1]) in (1, "1"))):
                        kind = "last-index"
        out.append((loc(c), kind))
    return out


def rule_D9(ctx):
    F = ctx.F
    r = RuleResult("D9", "extents are half-open: the end handed to Extents::new is a length / an exclusive bound, never a last index (`len - 1`)")
    n = 0
    for f in sorted(F.fns.values(), key=lambda f: f["path"]):
        if f["crate"] not in ("garnish_lang_runtime", "garnish_lang_traits") or f["kind"] == "Closure":
            continue
        k = 0
        for where, kind in extents_ends(F, f):
            n += 1
            r.examine((f["path"], where), True, {"fn": f["path"], "extents_at": where, "end": kind} if n % 7 == 1 or kind != "ok" else None)
            if kind != "ok":
                k += 1
                r.finding(f["path"], "inclusive-end#%d" % k, where, "Extents::new at %s is given `len - 1` as its end: BasicGarnishData reads the end as exclusive, so the last item of the sequence is left out" % where)
    r.floor("Extents::new call sites in the runtime / traits crates", n, 10)
    for f in F.fns_in("gfixture::round3::d9::"):
        if f["kind"] == "Closure" or not f.get("name", "").startswith(("ctl_", "ok_")):
            continue
        hit = any(k != "ok" for _w, k in extents_ends(F, f))
        if f["name"].startswith("ctl_"):
            r.control(f["name"], hit)
        else:
            r.neg_control(f["name"], not hit)
    return r


# --------------------------------------------------------------------------------------- W5
def _callback_fields(F, struct):
    a = F.adts.get(struct)
    if not a:
        return []
    return [fd["name"] for fd in a["variants"][0]["fields"] if fd["ty"].startswith("fn(") or fd["ty"].startswith("for<") and " fn(" in fd["ty"][:12] or fd["ty"].startswith("for<'a> fn(")]


def carried_fields(F, f, struct_short):
    """fields of the struct that f initialises / assigns from the same field of another instance: {field}"""
    got = set()
    for n in walk(f["hir"]):
        if n.get("k") == "Assign":
            l = peel(n["l"])
            if l.get("k") == "Field" and struct_short in (l.get("base_ty") or ""):
                for x in walk(n["r"]):
                    if x.get("k") == "Field" and x.get("name") == l.get("name") and struct_short in (x.get("base_ty") or ""):
                        got.add(l["name"])
        if n.get("k") == "Struct" and struct_short in (n.get("def") or ""):
            for fl in n["fields"]:
                for x in walk(fl["e"]):
                    if x.get("k") == "Field" and x.get("name") == fl["name"] and struct_short in (x.get("base_ty") or ""):
                        got.add(fl["name"])
    return got


def rule_W5(ctx):
    F = ctx.F
    r = RuleResult("W5", "clones keep the host's callbacks: every function that builds a SimpleGarnishData from another one carries over each function-pointer field (resolver, op handler) from the source")
    struct = "garnish_lang_simple_data::simple::SimpleGarnishData"
    cbs = _callback_fields(F, struct)
    r.analysed["callback_fields"] = cbs
    r.floor("host callback fields of SimpleGarnishData", len(cbs), 2)
    n = 0
    for f in sorted(F.fns.values(), key=lambda f: f["path"]):
        if f["crate"] != "garnish_lang_simple_data" or f["kind"] == "Closure":
            continue
        ls = f["mir"]["locals"]
        argc = f["mir"]["argc"]
        takes = any("SimpleGarnishData<" in ls[i]["ty"] and ls[i]["ty"].startswith("&") for i in range(1, argc + 1))
        returns = "SimpleGarnishData<" in ls[0]["ty"]
        if not (takes and returns):
            continue
        got = carried_fields(F, f, "SimpleGarnishData")
        if not got:
            continue  # delegates to another function; that one is examined
        n += 1
        missing = [c for c in cbs if c not in got]
        r.examine((f["path"],), True, {"fn": f["path"], "fields_carried_from_the_source": sorted(got), "callbacks_missing": missing})
        for c in missing:
            r.finding(f["path"], "callback-not-carried:" + c, loc(f["hir"]), "%s builds a data object from another one and copies %s, but not the host callback `%s`: on the copy the host's %s is replaced by the default that always declines" % (last(f["path"]), sorted(got)[:4], c, c))
    r.floor("functions copying a SimpleGarnishData field by field", n, 1)
    for f in F.fns_in("gfixture::round3::w5::"):
        if f["kind"] == "Closure" or not f.get("name", "").startswith(("ctl_", "ok_")):
            continue
        got = carried_fields(F, f, "Store")
        miss = [c for c in ("on_resolve", "on_op") if c not in got]
        if f["name"].startswith("ctl_"):
            r.control(f["name"], bool(miss))
        else:
            r.neg_control(f["name"], bool(got) and not miss)
    return r


# --------------------------------------------------------------------------------------- A11
GD_ = "garnish_lang_traits::data::GarnishData::"
CMP = {"core::cmp::PartialOrd::gt": "gt", "core::cmp::PartialOrd::lt": "lt", "core::cmp::PartialOrd::ge": "ge", "core::cmp::PartialOrd::le": "le",
       "core::cmp::PartialEq::ne": "ne", "core::cmp::PartialEq::eq": "eq"}


_DRAIN_HELPER = {}


def is_drain_helper(F, g):
    """a workspace function (this, mark) that pops down to its mark parameter on every Ok path"""
    key = (id(F), g["path"])
    if key not in _DRAIN_HELPER:
        _DRAIN_HELPER[key] = False
        nc, viol, _np = drain_analysis(F, g, param_marks=True)
        _DRAIN_HELPER[key] = nc > 0 and not viol
    return _DRAIN_HELPER[key]


def drain_analysis(F, f, param_marks=False):
    """Work-list helpers that borrow the operand stack: returns (n_drain_conditions, violations).
    state clean = the depth is known to be back at the mark (we just left a `get_register_len() > mark` test on its false edge);
    any call that is handed the data object makes it unknown again; an Ok return needs clean; a direct pop needs a guard."""
    mir = f["mir"]
    asg = mirq.assignments(mir)
    blocks = mir["blocks"]

    def is_len_call(node):
        return isinstance(node, dict) and node.get("k") == "Call" and (node.get("def") or "") == GD_ + "get_register_len"

    def origin_calls(l):
        return [o[2] for o in mirq.origins(mir, l, asg) if o[1] == "term"]

    # marks: named locals computed from get_register_len() (directly or `len - k`)
    def derives_from_len(l, depth=0):
        if depth > 4:
            return False
        for o in mirq.origins(mir, l, asg):
            if o[1] == "term":
                if is_len_call(o[2]):
                    return True
                if (o[2].get("def") or "").startswith("core::ops::arith::") and o[2]["args"]:
                    a0 = mirq.op_local(o[2]["args"][0])
                    if a0 is not None and derives_from_len(a0, depth + 1):
                        return True
            elif o[2].get("k") == "BinaryOp":
                for side in ("l", "r"):
                    a0 = mirq.op_local(o[2][side])
                    if a0 is not None and derives_from_len(a0, depth + 1):
                        return True
        return False

    named = set(i for i, l in enumerate(mir["locals"]) if l.get("name"))
    param_mark_locals = set(range(2, mir["argc"] + 1)) if param_marks else set()
    _dfl = derives_from_len

    def derives_from_len(l, depth=0):  # noqa: F811 - a mark parameter of a drain helper counts as a mark
        if l in param_mark_locals:
            return True
        return _dfl(l, depth)
    # drain conditions: cmp(len_now, mark) where len_now is a *fresh* get_register_len() temp and mark a named local derived from an earlier one
    conds = {}  # block index -> (kind, clean_edge_is_false)
    for bi, b in enumerate(blocks):
        t = b["term"]
        if b["cleanup"] or t["k"] != "Call" or (t.get("def") or "") not in CMP or len(t["args"]) != 2:
            continue
        ls = [mirq.op_local(a) for a in t["args"]]
        if None in ls:
            continue
        def base(l):
            # follow refs to the underlying local
            out = set([l])
            for o in mirq.origins(mir, l, asg):
                if o[1] != "term" and o[2].get("k") == "Ref":
                    out.add(o[2]["place"]["l"])
                out.add(o[3])
            return out
        b0, b1 = base(ls[0]), base(ls[1])
        fresh0 = any(is_len_call(c) for l in b0 for c in origin_calls(l)) and not (b0 & named)
        fresh1 = any(is_len_call(c) for l in b1 for c in origin_calls(l)) and not (b1 & named)
        mark0 = any(l in named and derives_from_len(l) for l in b0)
        mark1 = any(l in named and derives_from_len(l) for l in b1)
        k = CMP[t["def"]]
        if fresh0 and mark1:
            # len OP mark : "depth above mark" holds when gt / ne (true edge) -> clean on the false edge; le / eq -> clean on true edge
            if k in ("gt", "ne"):
                conds[bi] = "false"
            elif k in ("le", "eq"):
                conds[bi] = "true"
        elif mark0 and fresh1:
            if k in ("lt", "ne"):
                conds[bi] = "false"
            elif k in ("ge", "eq"):
                conds[bi] = "true"
    # the block after a cond call switches on its result
    def cond_edges(bi):
        t = blocks[bi]["term"]
        tb = t["target"]
        if tb is None:
            return None
        sw = blocks[tb]["term"]
        # walk goto chains / negations are not handled: the result must be switched on directly
        if sw["k"] != "SwitchInt":
            return None
        false_t = [bb for v, bb in sw["targets"] if v == 0]
        true_t = sw["otherwise"]
        if not false_t:
            return None
        return tb, false_t[0], true_t

    viol = []
    # forward exploration over (block, dirty, err)
    seen = set()
    work = [(0, False, False)]
    guard_true_blocks = set()
    while work:
        bi, dirty, err = work.pop()
        if (bi, dirty, err) in seen or blocks[bi]["cleanup"]:
            continue
        seen.add((bi, dirty, err))
        b = blocks[bi]
        for s in b["stmts"]:
            if s["k"] == "Assign" and s["rv"]["k"] == "Aggregate" and s["rv"].get("variant") == "Err":
                err = True
        t = b["term"]
        if t["k"] == "Return":
            if dirty and not err:
                viol.append(("ok-return-without-drain", loc(t), "an Ok return is reached without passing the exit edge of a `get_register_len() > mark` test after the last call that may push: operands borrowed for the walk (or pushed by a callee) can be left on the caller's operand stack, or the caller's own operands popped"))
            continue
        if t["k"] == "Call":
            d = t.get("def") or ""
            if d.endswith("::from_residual"):
                err = True
            if bi in conds:
                ce = cond_edges(bi)
                if ce:
                    tb, false_b, true_b = ce
                    clean_b = false_b if conds[bi] == "false" else true_b
                    other_b = true_b if conds[bi] == "false" else false_b
                    guard_true_blocks.add(other_b)
                    work.append((clean_b, False, err))
                    work.append((other_b, dirty, err))
                    continue
            g_ = F.fns.get(t.get("resolved") or "") or F.fns.get(d)
            if g_ is not None and g_["path"] != f["path"] and g_["crate"].startswith(("garnish_lang", "gfixture")) and not param_marks:
                arg_locals = [mirq.op_local(a) for a in t["args"]]
                def mark_like(l, depth=0):
                    if l is None or depth > 4:
                        return False
                    cand = {l} | set(o[3] for o in mirq.origins(mir, l, asg))
                    # every local on the copy chain (origins() skips the named local a temp was moved into)
                    chain, todo = set(), [l]
                    while todo:
                        x = todo.pop()
                        if x in chain:
                            continue
                        chain.add(x)
                        for (_b, si, node) in asg.get(x, []):
                            if si != "term" and node.get("k") == "Use":
                                pl = mirq.op_place(node["op"])
                                if pl and not pl["p"]:
                                    todo.append(pl["l"])
                    cand |= chain
                    if any(b_ in named and derives_from_len(b_) for b_ in cand):
                        return True
                    for o in mirq.origins(mir, l, asg):
                        if o[1] == "term" and (o[2].get("def") or "").endswith("Clone::clone") and o[2]["args"]:
                            if mark_like(mirq.op_local(o[2]["args"][0]), depth + 1):
                                return True
                        if o[1] != "term" and o[2].get("k") == "Ref" and mark_like(o[2]["place"]["l"], depth + 1):
                            return True
                    return False
                if any(mark_like(l) for l in arg_locals) and is_drain_helper(F, g_):
                    # the drain loop lives in a helper that is handed the mark
                    for s_ in mirq.succs(t):
                        work.append((s_, False, err))
                    guard_true_blocks.add(bi)
                    continue
            def is_data_ref(a):
                l = mirq.op_local(a)
                if l is None:
                    return False
                ty = mir["locals"][l]["ty"]
                if not ty.startswith("&"):
                    return False
                core_ty = ty.lstrip("&").replace("mut ", "").strip()
                return core_ty in ("Data", "D", "Self") or core_ty.endswith("GarnishData") or "GarnishData<" in core_ty
            passes_data = any(is_data_ref(a) for a in t["args"])
            if passes_data and d not in (GD_ + "get_register_len", GD_ + "get_data_type") and d not in CMP:
                dirty = True
        for s_ in mirq.succs(t):
            work.append((s_, dirty, err))
    # direct pops are guarded
    dom = mirq.dominators(mir)
    n_pop = 0
    for bi, b in enumerate(blocks):
        t = b["term"]
        if not b["cleanup"] and t["k"] == "Call" and (t.get("def") or "") == GD_ + "pop_register":
            n_pop += 1
            if not any(g in dom.get(bi, set()) for g in guard_true_blocks):
                viol.append(("unguarded-pop", loc(t), "pop_register at %s is not inside a `get_register_len() > mark` guard: the walk can pop operands that belong to its caller" % loc(t)))
    return len(conds), viol, n_pop


def rule_A11(ctx):
    F = ctx.F
    import json, os
    from .facts import VERIF
    r = RuleResult("A11", "drain to the mark: the work-list helpers that borrow the operand stack (A1's trusted summaries) return Ok only after leaving a `get_register_len() > mark` test on its exit edge, and pop only inside such a guard")
    trusted = json.load(open(os.path.join(VERIF, "spec", "arity.json")))["trusted"]
    n = 0
    for p in sorted(trusted):
        if trusted[p].get("nary"):
            continue
        f = F.fns.get(p)
        if f is None:
            r.finding(p, "trusted-helper-missing", "-", "the trusted summary names %s, which no longer exists: the summary is unverifiable" % p)
            continue
        nc, viol, n_pop = drain_analysis(F, f)
        n += 1
        r.examine((p,), True, {"fn": p, "drain_tests": nc, "direct_pops": n_pop, "violations": [v[0] for v in viol]})
        if nc == 0:
            r.finding(p, "no-drain-test", loc(f["hir"]), "%s has no `get_register_len()` test against a mark taken at entry: its trusted net effect on the operand stack is not supported by its code" % last(p))
        seen = set()
        for k, where, msg in viol:
            if k in seen:
                continue
            seen.add(k)
            r.finding(p, k, where, msg)
    r.floor("trusted work-list helpers examined", n, 2)
    for f in F.fns_in("gfixture::round3::a11::"):
        if f["kind"] == "Closure" or not f.get("name", "").startswith(("ctl_", "ok_")):
            continue
        nc, viol, _np = drain_analysis(F, f)
        if f["name"].startswith("ctl_"):
            r.control(f["name"], bool(viol) or nc == 0)
        else:
            r.neg_control(f["name"], nc > 0 and not viol)
    return r


# --------------------------------------------------------------------------------------- D1c
def header_vs_cells(F, f):
    """In a function that writes `CharList(n)` and then one `Char(c)` per character of a string: the string counted for n is
    the string whose characters are written.  Returns [(where, counted base, written base)]."""
    body = Body(f)
    out = []
    headers = []
    for d, c in hirq.calls_in(f["hir"]):
        if d.endswith("::CharList") and c.get("args"):
            bases = set()
            for o in body.origins(c["args"][0]) + [peel(c["args"][0])]:
                for x in walk(o):
                    if x.get("k") == "MethodCall" and x.get("m") == "chars":
                        l = hirq.local_of(x["recv"])
                        if l is not None:
                            bases.add(l)
            if bases:
                headers.append((c, bases))
    if not headers:
        return out
    written = set()
    for lp in walk(f["hir"]):
        if lp.get("k") != "Match" or lp.get("src") != "ForLoopDesugar":
            continue
        # the iterated expression: <X>.chars()
        it_bases = set()
        for x in walk(lp["scrut"]):
            if x.get("k") == "MethodCall" and x.get("m") == "chars":
                l = hirq.local_of(x["recv"])
                if l is not None:
                    it_bases.add(l)
        pushes_char = any((callee(x) or "").endswith("::Char") for x in walk(lp) if x.get("k") == "Call")
        if it_bases and pushes_char:
            written |= it_bases
    if not written:
        return out
    for c, bases in headers:
        if not (bases & written):
            out.append((loc(c), sorted(bases), sorted(written)))
    return out


def rule_D1c(ctx):
    F = ctx.F
    r = RuleResult("D1c", "header counts what is written: a CharList(n) header written before a run of Char cells counts the characters of the very string whose characters are written")
    n = 0
    for f in sorted(F.fns.values(), key=lambda f: f["path"]):
        if f["crate"] != "garnish_lang_simple_data" or f["kind"] == "Closure":
            continue
        has = any((d.endswith("::BasicData::CharList")) for d, _c in hirq.calls_in(f["hir"])) and any(x.get("k") == "MethodCall" and x.get("m") == "chars" for x in walk(f["hir"]))
        if not has:
            continue
        n += 1
        res = header_vs_cells(F, f)
        r.examine((f["path"],), True, {"fn": f["path"], "mismatches": len(res)})
        for k, (where, counted, written) in enumerate(res):
            r.finding(f["path"], "header-counts-other-string#%d" % (k + 1), where, "the CharList header at %s counts the characters of one string while the Char cells are written from another: the name reads back cut short (or with cells of the next value appended)" % where)
    r.floor("functions writing a CharList header from a string", n, 2)
    for f in F.fns_in("gfixture::round3::d1c::"):
        if f["kind"] == "Closure" or not f.get("name", "").startswith(("ctl_", "ok_")):
            continue
        res = header_vs_cells(F, f)
        if f["name"].startswith("ctl_"):
            r.control(f["name"], bool(res))
        else:
            r.neg_control(f["name"], not res)
    return r


# --------------------------------------------------------------------------------------- G4c
ITEM_GETTERS = ("get_list_item", "get_char_list_item", "get_byte_list_item", "get_symbol_list_item")


def user_index_sites(F, f):
    """calls of a data `get_*_item(addr, index)` whose index is a Number parameter of f handed through unchanged:
    [(where, getter, has_lower_bound_test)]"""
    body = Body(f)
    out = []
    lower = any(n.get("k") == "Binary" and n.get("op") in ("<", ">=", "<=", ">") and any((callee(x) or "").endswith("::zero") for x in walk(n)) for n in walk(f["hir"]))
    for d, c in hirq.calls_in(f["hir"]):
        if last(d) in ITEM_GETTERS and "GarnishData" in d:
            orgs = body.origins(call_args(c)[-1])
            if orgs and all(o.get("k") == "Param" for o in orgs):
                out.append((loc(c), last(d), lower))
    return out


def rule_G4c(ctx):
    F = ctx.F
    r = RuleResult("G4c", "index lower bound: a function that hands a caller-supplied number to the data's get_*_item tests it against zero first (the data impls convert a negative number to an index by clamping)")
    n = 0
    for f in sorted(F.fns.values(), key=lambda f: f["path"]):
        if f["crate"] not in ("garnish_lang_runtime", "garnish_lang_traits") or f["kind"] == "Closure":
            continue
        for where, getter, lower in user_index_sites(F, f):
            n += 1
            r.examine((f["path"], getter), True, {"fn": f["path"], "getter": getter, "where": where, "tests_lower_bound": lower})
            if not lower:
                r.finding(f["path"], "no-lower-bound:" + getter, where, "%s passes its index parameter to %s without testing it against zero: BasicGarnishData converts a negative number to index 0, so `list.(-1)` yields the first item instead of unit (every sibling index_* function tests `index < zero()` first)" % (last(f["path"]), getter))
    r.floor("functions indexing with a caller-supplied number", n, 3)
    for f in F.fns_in("gfixture::round3::g4c::"):
        if f["kind"] == "Closure" or not f.get("name", "").startswith(("ctl_", "ok_")):
            continue
        sites = user_index_sites(F, f)
        if f["name"].startswith("ctl_"):
            r.control(f["name"], any(not l for _w, _g, l in sites))
        else:
            r.neg_control(f["name"], bool(sites) and all(l for _w, _g, l in sites))
    return r


# --------------------------------------------------------------------------------------- W6
def returned_address_origins(F, f):
    """origin kinds of the value an add_* / parse_add_* method returns on success"""
    from .origin import return_exprs
    body = Body(f)
    kinds = []
    for re_ in return_exprs(f):
        for o in body.origins(re_):
            k = o.get("k")
            if k in ("Call", "MethodCall"):
                kinds.append(("call", last(callee(o) or "?"), loc(o)))
            elif k == "Param":
                kinds.append(("param", "", "-"))
            elif k == "Binary":
                kinds.append(("arith", o.get("op"), loc(o)))
            elif k == "Field":
                kinds.append(("field", o.get("name"), loc(o)))
            elif k == "Lit":
                kinds.append(("literal", str((o.get("lit") or {}).get("v")), loc(o)))
            elif k == "Tup" and not o.get("es"):
                continue
            else:
                kinds.append((k or "?", "", loc(o) if o.get("sp") else "-"))
    # Body.origins looks through arithmetic: find arithmetic on the way explicitly
    for re_ in return_exprs(f):
        for x in walk(re_):
            if x.get("k") == "Binary" and x.get("op") in ("-", "+", "*"):
                kinds.append(("arith", x.get("op"), loc(x)))
        e = peel(re_)
        if e.get("k") == "Call" and (callee(e) or "").endswith("::Ok") and e["args"]:
            a = peel(e["args"][0])
            if a.get("k") == "Path" and a.get("res") == "local":
                for d_ in body.defs.get(a["lid"], []):
                    if isinstance(d_, dict):
                        for x in walk(d_):
                            if x.get("k") == "Binary" and x.get("op") in ("-", "+", "*"):
                                kinds.append(("arith", x.get("op"), loc(x)))
    return kinds


def rule_W6(ctx):
    F = ctx.F
    r = RuleResult("W6", "addresses handed out are addresses written: BasicGarnishData's add_* / parse_add_* return what a store primitive (push_to_data_block, another add_*, a conversion) returned - never an address computed from stored indices")
    n = 0
    for f in sorted(F.fns.values(), key=lambda f: f["path"]):
        ti = f.get("trait_item") or ""
        nm = last(ti)
        if f["crate"] != "garnish_lang_simple_data" or "GarnishData::" not in ti or "BasicGarnishData" not in (f.get("impl_self") or ""):
            continue
        if not (nm.startswith("add_") or nm.startswith("parse_add_")) or nm == "add_to_list":
            continue
        kinds = returned_address_origins(F, f)
        n += 1
        r.examine((f["path"],), True, {"method": nm, "returns": sorted(set(k[0] + ":" + str(k[1]) for k in kinds))})
        seen = set()
        for k, what, where in kinds:
            if k in ("arith", "field", "literal") and k not in seen:
                seen.add(k)
                r.finding(f["path"], "computed-address:" + k, where, "%s returns an address that is computed (%s %s at %s) rather than the address a store primitive returned for the value it wrote: the cell there need not be (or stay) the value the caller asked for - e.g. after a compaction that keeps only part of what used to precede it" % (nm, k, what, where))
    r.floor("value-adding methods of BasicGarnishData", n, 15)
    for f in F.fns_in("gfixture::round3::w6::"):
        if f["kind"] == "Closure" or not f.get("name", "").startswith(("ctl_", "ok_")):
            continue
        kinds = returned_address_origins(F, f)
        bad = any(k in ("arith", "field", "literal") for k, _w, _l in kinds)
        if f["name"].startswith("ctl_"):
            r.control(f["name"], bad)
        else:
            r.neg_control(f["name"], not bad)
    return r
