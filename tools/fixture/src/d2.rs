//! D2 controls: raw heap vector indexed with / without the block base.
pub struct StorageBlock {
    pub start: usize,
    pub cursor: usize,
    pub size: usize,
}

pub struct BasicGarnishData<T, Companion> {
    data: Vec<T>,
    data_block: StorageBlock,
    companion: Companion,
}

impl<T, Companion> BasicGarnishData<T, Companion> {
    pub fn data(&self) -> &Vec<T> {
        &self.data
    }

    pub fn ctl_unbased_slice(&self, from: usize, len: usize) -> &[T] {
        let start = from + 1;
        &self.data()[start..start + len]
    }

    pub fn ctl_unbased_index(&self, from: usize) -> &T {
        &self.data[from]
    }

    pub fn ok_based_slice(&self, from: usize, len: usize) -> &[T] {
        let start = self.data_block.start + from + 1;
        &self.data()[start..start + len]
    }

    pub fn ok_based_index(&self, from: usize) -> &T {
        let true_index = self.data_block.start + from;
        &self.data[true_index]
    }
}
