#!/usr/bin/env python3
"""tools/dump_sites.py compile|run: list every panic-capable site of the inventory with its source line."""
import sys, os
sys.path.insert(0, os.path.dirname(os.path.dirname(os.path.abspath(__file__))))
from gcheck import facts, main, cg, rules_cg
F, d = facts.load()
ctx = main.Ctx(F, facts.REPO, "quick")
comp, run = cg.entry_sets(F)
roots = comp if sys.argv[1] == "compile" else run
reach, inv, parent = rules_cg.inventory(ctx, roots, sys.argv[1])
cache = {}
def line(where):
    fn, ln = where.rsplit(":", 1)
    p = os.path.join(facts.REPO, fn)
    if p not in cache:
        try: cache[p] = open(p).read().split("\n")
        except OSError: cache[p] = []
    try: return cache[p][int(ln) - 1].strip()
    except Exception: return "?"
for p, kds in sorted(inv.items(), key=lambda kv: list(kv[1].values())[0][0][0]):
    print("##", p)
    for kd, sites in sorted(kds.items()):
        for where, text in sites:
            print("   %-38s %-45s %s" % (kd, where, line(where)[:110]))
