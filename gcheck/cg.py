"""Resolved whole-workspace call graph over MIR facts."""
from .hirq import last

SHIPPED = ("garnish_lang_traits", "garnish_lang_runtime", "garnish_lang_compiler", "garnish_lang_simple_data")


class CallGraph:
    def __init__(self, F, excluded_impls=None):
        self.F = F
        self.excluded = excluded_impls or {}
        self.edges = {}  # fn path -> set(fn path)
        self.ext_calls = {}  # fn path -> list of (def, block index, term)
        self.boundary = {}  # fn path -> list of descriptions (fn pointers, host callbacks)
        for p, f in F.fns.items():
            if f["crate"] not in SHIPPED and f["crate"] != "gfixture":
                continue
            self._scan(p, f)

    WORKSPACE_TRAIT_PREFIX = ("garnish_lang_traits::", "garnish_lang_simple_data::", "garnish_lang_compiler::", "garnish_lang_runtime::", "gfixture::")
    ASSOC_NUMBER = "GarnishData>::Number"

    def _excluded(self, path):
        return any(path.startswith(pre) for pre in self.excluded)

    def _targets(self, d, resolved=None, self_ty=None):
        """Possible workspace callees of a call to def `d`.
        resolved: the impl method rustc resolved the call to (if any).
        self_ty: printed Self type of the call (first generic arg) for unresolved trait calls."""
        F = self.F
        out = set()
        if resolved:
            if resolved in F.fns:
                out.add(resolved)
            return out  # resolved to a concrete impl (workspace or std)
        if d in F.fns:
            f = F.fns[d]
            out.add(d)  # concrete fn, or trait method with a default body
            if f.get("trait_default") is None:
                return out
        impls = F.impls_of.get(d, [])
        if not impls:
            return out
        if self_ty and any(("GarnishData>::" + a) in self_ty for a in ("Size", "Char", "Byte", "Symbol")) and not d.startswith(self.WORKSPACE_TRAIT_PREFIX):
            # usize / char / u8 / u64 in both shipped impls: the std trait impl is std's
            return out
        if self_ty and "GarnishData>::" in self_ty and not d.startswith(self.WORKSPACE_TRAIT_PREFIX):
            # std trait called on an associated type of the data trait (Data::Number, Data::SizeIterator, ...):
            # in the shipped impls these are data-crate types (SimpleNumber, the iterator structs) or std types.
            for g in impls:
                if g["crate"] == "garnish_lang_simple_data" and not self._excluded(g["path"]):
                    out.add(g["path"])
            return out
        if d.startswith(self.WORKSPACE_TRAIT_PREFIX):
            for g in impls:
                if (g["crate"] in SHIPPED or g["crate"] == "gfixture") and not self._excluded(g["path"]):
                    out.add(g["path"])
            return out
        # std trait called on a type parameter (T: Clone, Data::Size: Sub, ...): the callee belongs to the
        # instantiating type, which is std for Size/Char/Byte/Symbol and host code for custom data.
        return out

    def _scan(self, p, f):
        es = self.edges.setdefault(p, set())
        ext = self.ext_calls.setdefault(p, [])

        def const_fn(c):
            if c and c.get("fn"):
                fa = c.get("fn_args") or [None]
                es.update(self._targets(c["fn"], c.get("fn_resolved"), fa[0] if fa else None))

        for bi, b in enumerate(f["mir"]["blocks"]):
            if b["cleanup"]:
                continue
            for s in b["stmts"]:
                if s["k"] != "Assign":
                    continue
                rv = s["rv"]
                if rv["k"] == "Aggregate" and rv.get("agg") == "Closure":
                    if rv["closure"] in self.F.fns:
                        es.add(rv["closure"])
                for o in _operands(rv):
                    const_fn(o.get("const"))
            t = b["term"]
            if t["k"] != "Call":
                continue
            for a in t["args"]:
                const_fn(a.get("const"))
            d = t.get("def")
            if d is None:
                self.boundary.setdefault(p, []).append("fn pointer call at bb%d (%s)" % (bi, t.get("fty")))
                continue
            gargs = t.get("gargs", [])
            for ga in gargs:
                if ga.get("fn"):
                    fa = ga.get("fn_args") or [None]
                    es.update(self._targets(ga["fn"], ga.get("fn_resolved"), fa[0] if fa else None))
                if ga.get("closure") and ga["closure"] in self.F.fns:
                    es.add(ga["closure"])
            self_ty = gargs[0]["txt"] if gargs else None
            tg = self._targets(d, t.get("resolved"), self_ty)
            # provided methods of std iterator traits (last, map, collect, ...) drive the Self type's own
            # `next`: add the workspace impls of that trait for this Self type
            if d.startswith("core::iter::traits::") and self_ty:
                trait = d.rsplit("::", 1)[0]
                for ti, impls in self.F.impls_of.items():
                    if not ti.startswith(trait + "::"):
                        continue
                    for g in impls:
                        if g["crate"] not in SHIPPED and g["crate"] != "gfixture":
                            continue
                        if g.get("impl_self") == self_ty or ("GarnishData>::" in self_ty and g["crate"] == "garnish_lang_simple_data"):
                            tg = set(tg) | {g["path"]}
            if tg:
                es.update(tg)
            else:
                ext.append((t.get("resolved") or d, bi, t))

    def reachable(self, roots):
        seen = set()
        st = [r for r in roots if r in self.edges]
        parent = {}
        while st:
            p = st.pop()
            if p in seen:
                continue
            seen.add(p)
            for q in self.edges.get(p, ()):
                if q not in seen:
                    parent.setdefault(q, p)
                    st.append(q)
        self.parent = parent
        return seen

    def path_to(self, target, roots):
        """one call path root -> ... -> target using the parent map of the last reachable() call"""
        path = [target]
        seen = {target}
        while path[-1] in self.parent and path[-1] not in roots:
            nxt = self.parent[path[-1]]
            if nxt in seen:
                break
            seen.add(nxt)
            path.append(nxt)
        return list(reversed(path))

    def sccs(self, nodes):
        """Tarjan SCCs restricted to `nodes`; returns only cyclic components (size>1 or self loop)."""
        index = {}
        low = {}
        onstack = set()
        stack = []
        out = []
        counter = [0]
        import sys

        sys.setrecursionlimit(10000)

        def strong(v):
            index[v] = low[v] = counter[0]
            counter[0] += 1
            stack.append(v)
            onstack.add(v)
            for w in self.edges.get(v, ()):
                if w not in nodes:
                    continue
                if w not in index:
                    strong(w)
                    low[v] = min(low[v], low[w])
                elif w in onstack:
                    low[v] = min(low[v], index[w])
            if low[v] == index[v]:
                comp = []
                while True:
                    w = stack.pop()
                    onstack.discard(w)
                    comp.append(w)
                    if w == v:
                        break
                if len(comp) > 1 or v in self.edges.get(v, ()):
                    out.append(sorted(comp))

        for v in sorted(nodes):
            if v not in index:
                strong(v)
        return out


def _operands(rv):
    k = rv["k"]
    if k in ("Use", "Repeat", "Cast", "WrapUnsafeBinder"):
        return [rv["op"]]
    if k == "BinaryOp":
        return [rv["l"], rv["r"]]
    if k == "UnaryOp":
        return [rv["e"]]
    if k == "Aggregate":
        return rv["ops"]
    return []


def entry_sets(F):
    comp = []
    for p, f in F.fns.items():
        if f["crate"] != "garnish_lang_compiler" or f["kind"] == "Closure":
            continue
        if f.get("vis") == "Public" and f.get("name") in ("lex", "parse", "build") and "impl" not in p and "<" not in p:
            comp.append(p)
        if f.get("trait_item") == "core::iter::traits::iterator::Iterator::next" and "Lexer" in f.get("impl_self", ""):
            comp.append(p)
    run = []
    for p, f in F.fns.items():
        if f["crate"] != "garnish_lang_runtime" or f["kind"] == "Closure":
            continue
        if f.get("vis") == "Public" and (p.startswith("garnish_lang_runtime::runtime::") or f.get("name") == "execute_current_instruction"):
            if "<" not in p:
                run.append(p)
    return sorted(comp), sorted(run)


def get(ctx):
    if "cg" not in ctx.memo:
        from .rules_numeric import allow

        ex = allow("reachability.json").get("excluded_prefixes", {})
        ctx.memo["cg"] = CallGraph(ctx.F, ex)
    return ctx.memo["cg"]
