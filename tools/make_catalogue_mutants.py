#!/usr/bin/env python3
"""(Re)generate /verif/mutants/<id>/ for the calibrated one-line mutants of DESIGN Appendix D.
Each row: (id, property, extra properties, file, old text, new text, summary).  The old text must occur exactly once."""
import json, os, subprocess, sys, tempfile, shutil
ROWS = [
 ("C01a","C01",[], "runtime/src/runtime/bitwise.rs", "perform_op(this, Instruction::BitwiseXor, Data::Number::bitwise_xor)", "perform_op(this, Instruction::BitwiseXor, Data::Number::bitwise_or)", "bitwise_xor wired to Number::bitwise_or"),
 ("C01b","C01",[], "runtime/src/runtime/arithmetic.rs", "perform_op(this, Instruction::IntegerDivide, Data::Number::integer_divide)", "perform_op(this, Instruction::IntegerDivide, Data::Number::divide)", "integer_divide wired to Number::divide"),
 ("C02a","C02",[], "compiler/src/parse/parser.rs", "map.insert(Definition::BitwiseXor, 112);", "map.insert(Definition::BitwiseXor, 114);", "BitwiseXor priority 112 -> 114 (looser than |)"),
 ("C02b","C02",[], "compiler/src/parse/parser.rs", "map.insert(Definition::PartialApply, 230);", "map.insert(Definition::PartialApply, 215);", "PartialApply 230 -> 215 (tighter than the space list)"),
 ("C02c","C02",[], "compiler/src/parse/parser.rs", "map.insert(Definition::TypeOf, 69);", "map.insert(Definition::TypeOf, 71);", "TypeOf 69 -> 71 (looser than ~#)"),
 ("C03a","C03",[], "compiler/src/build/build.rs", "            let parse_node = match parse_tree.get(node_index) {\n                Some(node) => node,\n                None => Err(CompilerError::new_message(format!(\"No parse node at index {}\", node_index)))?,\n            };", "            let parse_node = &parse_tree[node_index];", "parse_tree.get(i) -> parse_tree[i] in build"),
 ("C04a","C04",[], "compiler/src/build/build.rs", "        BuildNodeState::Initialized => {\n            data.push_instruction(instruction, None)?;\n            instruction_metadata.push(InstructionMetadata::new(Some(node.parse_node_index)));\n        }\n    }\n\n    Ok(())\n}\n\nfn handle_unary_prefix", "        BuildNodeState::Initialized => {\n            data.push_instruction(instruction, None)?;\n            instruction_metadata.push(InstructionMetadata::new(None));\n        }\n    }\n\n    Ok(())\n}\n\nfn handle_unary_prefix", "suffix operators record InstructionMetadata::new(None)"),
 ("C05a","C05",["C04"], "compiler/src/build/build.rs", "                    data.push_instruction(Instruction::MakeList, Some(Data::Size::one() + Data::Size::one()))?;\n                    instruction_metadata.push(InstructionMetadata::new(None));\n", "                    data.push_instruction(Instruction::MakeList, Some(Data::Size::one() + Data::Size::one()))?;\n", "InfixApply pushes MakeList without its metadata record"),
 ("C06a","C06",[], "runtime/src/runtime/range.rs", "        _ => {\n            push_unit(this)?;\n        }", "        _ => {}", "make_range on non-numbers pushes nothing"),
 ("C08d","C08",["C06"], "runtime/src/runtime/internals.rs", None, None, "left-internal catch-all forgets the unit"),
 ("C10a","C10",[], "runtime/src/runtime/logical.rs", "        GarnishDataType::False | GarnishDataType::Unit => false,", "        GarnishDataType::False | GarnishDataType::Unit | GarnishDataType::Symbol => false,", "is_true_value treats symbols as false"),
 ("C10b","C10",[], "runtime/src/runtime/jumps.rs", "        GarnishDataType::False | GarnishDataType::Unit => {\n            trace!(\"Not jumping", "        GarnishDataType::False | GarnishDataType::Unit | GarnishDataType::Type => {\n            trace!(\"Not jumping", "jump_if_true treats types as false"),
 ("C11a","C11",[], "runtime/src/runtime/equality.rs", "        (GarnishDataType::SymbolList, GarnishDataType::Slice) => compare_slice_index_iterator_values(\n            this,\n            left_addr.clone(),\n            right_addr.clone(),\n            GarnishDataType::SymbolList,\n            Data::get_symbol_list_iter,\n        )?,\n", "", "(SymbolList, Slice) arm removed, mirror kept"),
 ("C11c","C11",[], "runtime/src/runtime/equality.rs", "        (GarnishDataType::CharList, GarnishDataType::Char) => compare_list_to_primitive(\n            this,\n            left_addr,\n            right_addr,", "        (GarnishDataType::CharList, GarnishDataType::Char) => compare_list_to_primitive(\n            this,\n            right_addr,\n            left_addr,", "mirrored arm passes list/primitive swapped"),
 ("C12a","C12",[], "runtime/src/runtime/comparison.rs", "pub fn less_than_or_equal<Data: GarnishData>(this: &mut Data) -> Result<Option<Data::Size>, RuntimeError<Data::Error>> {\n    perform_comparison(this, Ordering::Greater)", "pub fn less_than_or_equal<Data: GarnishData>(this: &mut Data) -> Result<Option<Data::Size>, RuntimeError<Data::Error>> {\n    perform_comparison(this, Ordering::Less)", "<= given Ordering::Less as its false ordering"),
 ("C12b","C12",[], "runtime/src/runtime/comparison.rs", "        (GarnishDataType::Byte, GarnishDataType::Byte) => this.get_byte(left)?.partial_cmp(&this.get_byte(right)?),", "        (GarnishDataType::Byte, GarnishDataType::Byte) => this.get_byte(left)?.partial_cmp(&this.get_byte(right)?),\n        (GarnishDataType::True, GarnishDataType::False) => Some(Ordering::Greater),", "(True, False) made comparable"),
 ("C14a","C14",[], "data/src/basic/garnish/garnish_impl.rs", "        let len = chars.len();\n        let list_index = self.push_to_data_block(BasicData::CharList(len))?;", "        let len = from.len();\n        let list_index = self.push_to_data_block(BasicData::CharList(len))?;", "Basic char-list literal header counts bytes of the source text"),
 ("C15b","C15",[], "data/src/basic/garnish/garnish_impl.rs", "        let association_start = self.data_block().start + list_index + len + 1;", "        let association_start = list_index + len + 1;", "list symbol lookup forgets the data block's start"),
 ("C15a","C15",[], "data/src/basic/basic.rs", "                self.symbol_table_block.size,\n                self.expression_symbol_block.next_size(),", "                self.symbol_table_block.next_size(),\n                self.expression_symbol_block.size,", "expression-symbol push grows the neighbouring block"),
 ("C16a","C16",[], "data/src/runtime.rs", "                None => Ok(None),\n                Some(v) => Ok(Some(*v)),\n            },\n            SimpleNumber::Float(_) => Ok(None),", "                None => Err(format!(\"No list item at {:?}\", item_index))?,\n                Some(v) => Ok(Some(*v)),\n            },\n            SimpleNumber::Float(_) => Ok(None),", "Simple get_list_item errs past the end"),
 ("C17a","C17",[], "runtime/src/runtime/resolve.rs", "            match this.resolve(this.get_symbol(data)?)? {", "            let _ = this.resolve(this.get_symbol(data.clone())?)?;\n            match this.resolve(this.get_symbol(data)?)? {", "host resolve called twice"),
 ("C19a","C19",[], "data/src/basic/clone.rs", "                        BasicData::Partial(left, right) => {\n                            let left = self.lookup_in_data_slice(lookup_start, lookup_end, left)?;\n                            let right = self.lookup_in_data_slice(lookup_start, lookup_end, right)?;\n", "                        BasicData::Partial(left, right) => {\n                            let left = self.lookup_in_data_slice(lookup_start, lookup_end, left)?;\n", "Partial.right not remapped by the copy pass"),
 ("C19b","C19",[], "data/src/basic/ordering.rs", "                BasicData::Slice(left, right) => {\n                    let (left, right) = (left.clone(), right.clone());\n                    self.push_to_data_block(BasicData::CloneItem(right))?;\n", "                BasicData::Slice(left, right) => {\n                    let (left, _right) = (left.clone(), right.clone());\n", "Slice.range not traced by the reachability pass"),
 ("C19c","C19",[], "data/src/basic/optimize.rs", "            let mapped_index = self.lookup_in_data_slice(index_list_start, index_list_end, original_value)?;\n            self.set_current_value(Some(mapped_index));", "            let _mapped_index = self.lookup_in_data_slice(index_list_start, index_list_end, original_value)?;", "value head traced but not written back after compaction"),
 ("C20a","C20",["C05"], "compiler/src/build/build.rs", "    let tree_root_jump = data.get_jump_table_len();", "    let tree_root_jump = Data::Size::zero();", "tree_root_jump = zero()"),
 ("C05c","C05",["C20"], "compiler/src/build/build.rs", "                    data.push_instruction(Instruction::JumpTo, Some(node.containing_expression_jump.clone()))?;", "                    data.push_instruction(Instruction::JumpTo, Some(data.get_instruction_len()))?;", "Reapply uses get_instruction_len() as a jump operand"),
 ("C09a","C09",[], "data/src/data/number.rs", "                let (v, o) = v.overflowing_add(1);\n                if o {\n                    return None;\n                }\n\n                Integer(v)", "                Integer(v + 1)", "increment uses v + 1"),
 ("C09d","C09",[], "data/src/data/number.rs", "do_op(&self, &rhs, i32::overflowing_sub, f64::sub)", "do_op(&self, &rhs, |a, b| (a.wrapping_sub(b), false), f64::sub)", "subtract wraps"),
 ("C07a","C07",[], "runtime/src/runtime/list.rs", "                        let result = start_int.plus(index).or_num_err()?;", "                        let result = start_int.plus(index).unwrap();", ".or_num_err()? -> .unwrap() in range indexing"),
 ("C13a","C13",["C01"], "compiler/src/lex/lexer.rs", "            (\">..<\", TokenType::ExclusiveRange),\n", "", ">..< removed from the operator table"),
 ("C06h","C06",[], "compiler/src/build/build.rs", "                    data.push_instruction(Instruction::PutValue, None)?;\n                    instruction_metadata.push(InstructionMetadata::new(None));\n", "", "stand-alone conditional jump loses its fall-through PutValue"),
 ("C06i","C06",[], "compiler/src/build/build.rs", "                    data.push_instruction(Instruction::UpdateValue, None)?;\n                    instruction_metadata.push(InstructionMetadata::new(Some(node_index)));\n                    data.push_instruction(Instruction::JumpTo,", "                    data.push_instruction(Instruction::PushValue, None)?;\n                    instruction_metadata.push(InstructionMetadata::new(Some(node_index)));\n                    data.push_instruction(Instruction::JumpTo,", "reapply pushes a new input value instead of replacing it"),
 ("C06j","C06",[], "compiler/src/build/build.rs", "                    data.push_instruction(Instruction::EndSideEffect, None)?;", "                    data.push_instruction(Instruction::UpdateValue, None)?;", "side-effect block ends with UpdateValue instead of EndSideEffect"),
 ("C08a","C08",["C06"], "runtime/src/runtime/casting.rs", None, None, "type_cast catch-all forgets the unit"),
]
out = "/verif/mutants"
for mid, prop, extra, file, old, new, summary in ROWS:
    if old is None:
        continue
    d = tempfile.mkdtemp(prefix="gmk-")
    try:
        subprocess.run(["rsync","-a","--exclude","target","--exclude",".git","/repo/", d+"/"], check=True)
        p = os.path.join(d, file)
        s = open(p).read()
        if s.count(old) != 1:
            print("SKIP %s: old text occurs %d times" % (mid, s.count(old)))
            continue
        open(p, "w").write(s.replace(old, new))
        diff = subprocess.run(["diff","-u", os.path.join("/repo", file), p], stdout=subprocess.PIPE, text=True).stdout
        diff = diff.replace("--- /repo/"+file, "--- a/"+file).replace("+++ "+p, "+++ b/"+file)
        md = os.path.join(out, mid)
        os.makedirs(md, exist_ok=True)
        open(os.path.join(md, "patch.diff"), "w").write(diff)
        json.dump({"property": prop, "check_properties": [prop]+extra, "summary": summary, "origin": "calibrated one-line mutant of DESIGN Appendix D", "expected_default": "detected"}, open(os.path.join(md, "meta.json"), "w"), indent=1)
        print("ok", mid)
    finally:
        shutil.rmtree(d, ignore_errors=True)
