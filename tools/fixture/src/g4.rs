//! G4 controls: a lookup that reports "absent" as an error, and one that does not.
pub fn ctl_lookup_err(items: &[usize], i: usize) -> Result<Option<usize>, String> {
    if i >= items.len() {
        return Err(format!("no item at {}", i));
    }
    Ok(Some(items[i]))
}

pub fn ok_lookup_none(items: &[usize], i: usize) -> Result<Option<usize>, String> {
    Ok(items.get(i).copied())
}
