"""Property -> rules map and claim texts."""
from . import rules_tables as T
from . import rules_numeric as N
from . import rules_cg as G
from . import rules_lexer as L
from . import rules_units as U
from . import rules_store as S
from . import rules_clone as C
from . import rules_equality as E
from . import rules_build as B
from . import rules_runtime as R
from . import rules_template as TP
from . import rules_iter as IT
from . import rules_lexer2 as L2
from . import rules_round3 as R3

RULES = {
    "T1": T.rule_T1,
    "T2": T.rule_T2,
    "T3": T.rule_T3,
    "T4": R.rule_T4,
    "T5": E.rule_T5,
    "T6": T.rule_T6,
    "T13": T.rule_T13,
    "G6": T.rule_G6,
    "T14": S.rule_T14,
    "T15": IT.rule_T15,
    "T16": R3.rule_T16,
    "N5": R3.rule_N5,
    "D8": R3.rule_D8,
    "W4": R3.rule_W4,
    "D3b": R3.rule_D3b,
    "D9": R3.rule_D9,
    "W5": R3.rule_W5,
    "A11": R3.rule_A11,
    "D1c": R3.rule_D1c,
    "G4c": R3.rule_G4c,
    "W6": R3.rule_W6,
    "W7": R3.rule_W7,
    "W8": R3.rule_W8,
    "T21": R3.rule_T21,
    "T14b": R3.rule_T14b,
    "G10": R3.rule_G10,
    "G9": R3.rule_G9,
    "A15": R3.rule_A15,
    "D13": R3.rule_D13,
    "G8": R3.rule_G8,
    "T20": R3.rule_T20,
    "D12": R3.rule_D12,
    "W9": R3.rule_W9,
    "A13": R3.rule_A13,
    "D11": R3.rule_D11,
    "T19": R3.rule_T19,
    "T18": R3.rule_T18,
    "T17": R3.rule_T17,
    "G7": R3.rule_G7,
    "A12": R3.rule_A12,
    "D10": R3.rule_D10,
    "N4": T.rule_N4,
    "N6": N.rule_N6,
    "N7": N.rule_N7,
    "N8": N.rule_N8,
    "T8": C.rule_T8,
    "T9": B.rule_T9,
    "T10": B.rule_T10,
    "T11": B.rule_T11,
    "T12": B.rule_T12,
    "A1": R.rule_A1,
    "A2": B.rule_A2,
    "A4": R.rule_A4,
    "A5": R.rule_A5,
    "A6": TP.rule_A6,
    "T9p": TP.rule_T9p,
    "A3": L.rule_A3,
    "A8": L.rule_A8,
    "A7": L2.rule_A7,
    "A9": L2.rule_A9,
    "A14": L2.rule_A14,
    "D1": U.rule_D1,
    "D2": U.rule_D2,
    "D3": S.rule_D3,
    "D4": B.rule_D4,
    "D5": U.rule_D5,
    "D7": B.rule_D7,
    "G5": B.rule_G5,
    "A10": B.rule_A10,
    "W1": S.rule_W1,
    "W2": S.rule_W2,
    "W3": S.rule_W3,
    "D6": S.rule_D6,
    "G3": R.rule_G3,
    "G3b": R.rule_G3b,
    "G4": S.rule_G4,
    "G1c": G.rule_G1c,
    "G1r": G.rule_G1r,
    "G1l": G.rule_G1l,
    "G2c": G.rule_G2c,
    "G2r": G.rule_G2r,
    "N1": N.rule_N1,
    "N2": N.rule_N2,
    "N3": N.rule_N3,
}

PROPS = {
    "C01": {
        "rules": ["T1", "T2", "A5", "T9p", "T12", "D6", "W2", "T4", "T6", "N7", "D11", "A4", "A15", "N4"],
        "claim": "Decides the wiring clauses of C01, not the computed values: every operator spelling is wired, through the "
        "five tables lexer -> get_definition -> handle_parse_node -> execute_current_instruction -> perform_*, to the "
        "public runtime function and GarnishNumber method the language table gives it; the three dispatch matches "
        "have no catch-all arm (a missing handler is a compile error); operands reach the host/operation in source order "
        "(A5: at the host boundary left = popped second; T9p: the builder emits every binary construct left operand first, the two "
        "reviewed right-first constructs Pair and ApplyTo having a runtime reader that takes its first pop as the left value); and every child build node inherits its parent's containing-expression entry, only a "
        "nested expression body and the tree root starting a new one (T12: a reapply re-enters the expression it is written in); and a call "
        "returns into its caller's frame (D6: push_frame / pop_frame of BasicGarnishData encode and decode the frame chain inversely). Also (W2): a number stored by a program reads back as that number - the hash that alone keys SimpleGarnishData's constant table keeps Integer and Float apart. Also, as necessary conditions on what the operators compute: (T4) the logical instructions && || ^^ !! ?? classify every value type with exactly {False, Unit} false and leave a boolean, (T6) the four ordering instructions agree with the comparison table, (N7) no arithmetic method answers 'no result' because an intermediate step of a different operation overflowed. And (D11) each operand's build node sits at its own slot. And (A4) identifier lookup consults the input value - whatever its type - before the host. And (A15) sub-expression sequencing always hands the step's value on as the next input. And (N4) number ordering takes its operands in order in every arm.",
    },
    "C02": {
        "rules": ["T3", "T13", "T17", "T18", "T19"],
        "claim": "Decides the table clause of C02, not the parser that consumes it: the priority map is total over producible "
        "definitions, induces exactly the ordered tiers of spec/precedence.json (compared as an ordered partition, never "
        "by number), the associativity classes are as specified, and every call that places a token in the tree is told the "
        "enclosing bracket's node index taken from the group stack, never the nesting depth (T13, sibling call-site agreement: the "
        "value is compared with node indices when the parent chain is walked, so a depth lets an operator escape its brackets). Also (T17, stack discipline): the parser's stack of open brackets is read only at its top or at the index derived from its length (the current group) - never at a fixed position - so 'brackets override' is decided by the innermost open bracket. And (T18) the parser arms that insert a synthetic List node record their own shifted id as the next parent. And (T19) every arm that places the current token with an assumed right operand first records the token as the next parent (sibling agreement over the four operator arms).",
    },
    "C03": {
        "rules": ["G2c", "G1c", "G5", "G6"],
        "claim": "Decides the no-panic and no-recursion clauses of C03 over everything reachable from lex / Lexer::next / parse / build "
        "(including the data-impl methods build calls, closed over trait dispatch into both shipped impls): every panic-capable site "
        "(explicit panic/unwrap/unreachable, MIR bounds/overflow/div asserts, Index impls, enumerated std panickers, generic Size "
        "subtraction) is either absent or in the reviewed allow-list with the reason it cannot fire, and the reachable call graph is "
        "acyclic; and the two termination arguments the pipeline's own loops rest on: (G5) before emitting anything build() walks the left/right links from "
        "the root, marks visited nodes and rejects a node met twice - a shared node or a cycle (parse returns one for `5 + + 3`) would make its work-stack "
        "walk re-schedule nodes for ever; (G6) every parser loop that follows parent links counts its iterations and gives up once the count exceeds the "
        "node count. Termination of the remaining loops and running time are value-dependent and not decided.",
    },
    "C07": {
        "rules": ["G2r", "G1r", "A11", "W7"],
        "claim": "Decides the no-panic clause of C07 over everything reachable from execute_current_instruction and the 55 instruction "
        "functions (runtime, traits helpers, both data impls, SimpleNumber): every panic-capable site is in the reviewed allow-list "
        "with the reason it cannot fire, and every recursive cycle is allow-listed with its depth bound or reported. Value "
        "reachability of an allow-listed site is by review, stated per site in allow/panic_sites.json. Recursive cycles are classified depth-bounded (a parameter tested against a limit with an unconditional exit, every recursive call passes it + k) or unbounded, so a change that stops counting depth turns a recorded finding into a new one. Capacity requests (Vec::with_capacity, reserve, vec![x; n], resize) are panic-capable sites too: a length taken from a value can exceed isize::MAX bytes. Also (W7, cursor discipline): a BasicGarnishData block's cursor is advanced only by one under that block's own capacity test whose full side reallocates that block first, by n only under a test that n cells fit, or shrunk - so no heap index computed from a cursor falls outside its block.",
    },
    "C13": {
        "rules": ["A3", "T2", "A8", "A7", "A9", "D8", "A14"],
        "claim": "Decides five clauses of C13: (A3) a character that cannot start or continue a token makes lex fail - the lexer's error "
        "slot, once set, is never assigned a possibly-Ok value and no further character is consumed while it is set (path-sensitive "
        "typestate over the MIR of every Lexer method); (T2, first hop) the operator table is the language's 60 spellings; (A8) operators are classified by the trie node their "
        "whole text reaches: on the Some(node) edge of every trie step every path stores that node's own type - including none, which is what "
        "rejects a bare prefix such as `>.` - into the lexer's token type (must-pass-through on the MIR CFG); (A7) nothing is skipped or doubled: "
        "the character consumer is interpreted abstractly once per (lexing state, character class) - 13 states x every character literal the lexer "
        "compares with, one representative of the operator alphabet and of each std class it asks about, buffer content and counters left abstract - "
        "and on every path that records no error the consumed character is part of exactly one token text (pushed once and kept, or emitted once; never "
        "discarded by a buffer reset; the one-shot skip flag is back at rest), which is the inductive step of 'token texts concatenated reproduce the "
        "input'; (A9) positions: in every state the line feed advances the row counter exactly once and not the column, every other character (CR/FF, "
        "left open by the property, excepted) the column exactly once and not the row. Token start positions, longest match beyond the trie step and "
        "blank-line grouping are value-dependent and not decided. Also (D8): the column counters, which count characters, never receive a UTF-8 byte length (origin analysis of every store into the column fields). Also (A14): the block that ends a token resets, together with state / buffer / type, every counter and flag the consumer both sets to a constant and changes while reading a token - nothing of one token's bookkeeping carries into the next.",
    },
    "C14": {
        "rules": ["D1", "D5", "W2", "N5", "D1c", "D10", "D12", "A14", "D13"],
        "claim": "Decides the bytes-vs-characters clause of C14 over the data crate: no UTF-8 byte length (str::len / String::len) reaches a "
        "character-count sink (take/skip/nth on chars(), a CharList(n) header, the result of get_char_list_len), and the literal parsers "
        "contain no truncating char->u8 cast; (D5) an escape accumulator that has been decoded is emptied before it accumulates the next "
        "escape, on every path of the literal parsers (typestate over their MIR); (W2) a number literal is stored as the number it spells: the "
        "hash that alone keys SimpleGarnishData's constant table separates every two numbers the type distinguishes (so `5.0` after `5` is not "
        "handed the Integer's address). Radix parsing and round-trips are value-level and not decided. Also (N5): the literal parsers hand a parsed integer to the number type only through a conversion whose From impl does not narrow with an `as` cast (an integer literal outside i32 becomes a float, it does not wrap). A CharList(n) header written before a run of Char cells counts the very string whose characters are written (D1c). Also (D10, character accounting in the literal parsers): every iteration of a loop over a literal's characters appends to the output, changes the parser's state, fails or stops; the only documented drops (the brace of a \\u{..} escape, raw line feeds / tabs laying out a single-quoted text) are counted per function, so a byte-list or char-list literal cannot silently lose characters it spells. Also (D12): the builder hands the data object's parse_add_* the literal / symbol token's own text, at most cut at its ends - never filtered or rebuilt - so 'a symbol keeps the name it was written with'. Also (A14): the quote counters of one quoted literal are reset when its token ends, so the next literal's closing quotes are counted from zero. Also (D13): per GarnishDataFactory method the two factories derive what they return from the same sources (the same shared parser), so a literal denotes the same value on both data implementations.",
    },
    "C15": {
        "rules": ["D2", "D3", "W1", "W2", "D3b", "W6", "W7", "W8", "D1", "D1c", "W9", "T14b"],
        "claim": "Decides four structural clauses of C15: (D2) every index/slice of BasicGarnishData's raw heap vector is rebased on a "
        "StorageBlock.start (followed through locals, parameters to their call sites, struct fields to their initialisers); (D3) the six "
        "push_to_*_block siblings and the six copy stanzas of reallocate_heap each use one block in every role and agree on the "
        "argument positions; (W1) only the enumerated store primitives obtain a mutable view of the heap or write the stack heads, and "
        "SimpleGarnishData's value list is append-only; (W2) every hand-written Hash impl inside the key of SimpleGarnishData's hash-keyed "
        "constant table feeds the hasher a loss-free encoding of the whole payload (no narrowing cast, rounding, or ignored payload), "
        "the necessary condition for 'a different constant gets a different address' since cache_add never compares the stored value. "
        "Correctness for every interleaving/growth policy is not decided. Also (D3b): every returning path through reallocate_heap that installs new extents for one block installs them for all six (no shortcut that moves some blocks only). The same (W6) under this property: a returned address is an address written. Also (W7): a block's cursor never passes its size (by-one advance under that block's capacity test, by-n advance under a fit test), so a later push cannot land in the neighbouring table's cells. Also (W8): the constant table of SimpleGarnishData is written only together with the push of the value it names ('an equal constant returns the same address, a different constant a different address' needs every entry to name a cell holding the hashed value). Also (D1 / D1c): the CharList(n) header BasicGarnishData writes counts characters, of the very string whose characters follow it - a header that claims more cells than were written makes the value absorb whatever is pushed next. Also (W9): the SimpleGarnishData methods that add a constant (numbers, characters, bytes, symbols, types, expressions, externals, text and byte-list literals) return the address the interning function returned on every path, so adding an equal constant again returns the same address. Also (T14b): the association cells of a finished list are sorted (keyed cells in front of the holes) on every path of end_list, so a keyed item reads back through its key whatever its position.",
    },
    "C16": {
        "rules": ["G4", "T14", "D9", "G4c", "G7", "A13", "G8", "G1l", "G10", "T14b"],
        "claim": "Decides the 'absent is not an error' clause of C16: inside both implementations of get_list_item / "
        "get_list_item_with_symbol / get_list_len / get_list_item_iter, their list helpers, and the runtime's index_list / "
        "access_with_symbol, the locally constructed errors are exactly the reviewed ones (not-a-list, corrupt cell); any other "
        "constructed error - in particular one that depends on the index value or the item kind - is reported; and every "
        "match-based comparator the data crate hands to a sort or binary search (the association slots of a list, the two symbol "
        "tables) is antisymmetric: mirrored arguments get opposite orderings (T14) - a necessary condition for the sorted prefix the "
        "key lookup searches. Order, length and that every present key is found are not decided beyond that. Also: match-based sort comparators order two keyed cells ascending by their first payload field, the key the binary search compares (T14); the end handed to Extents::new is a length / exclusive bound, never `len - 1` (D9). A function that hands a caller-supplied number to the data's get_*_item tests it against zero first (G4c, sibling agreement of the four index_* functions) - the data impls clamp a negative number to index 0. Also (G7): wherever a concatenation is taken apart by hand (get_concatenation destructured into two used operands) both operands get the same treatment - neither side is read as a single item while the other is walked on - so look-ups and indexing see the items of a concatenation nested on either side. Also (A13): between start_list and end_list nothing is called that may itself start a list on a data object (SimpleGarnishData builds one list at a time), so a list with an item that needs building - a nested list being copied - keeps its own items in order. And (G8) the walk over a concatenation re-enters for nested concatenations only. Also (G1l): no recursive call cycle runs through the runtime's list look-up functions - a key is looked for among the items of the list (and of the lists a concatenation is made of), not inside items that happen to be collections themselves. Also (G10): a caller that matches on the container's type before calling access_with_symbol / access_with_integer and answers 'absent' for the rest lets through every type the accessor itself supports. Also (T14b): the functions that finish a table of association cells sort it on every path that returns Ok.",
    },
    "C11": {
        "rules": ["T5", "D1", "T15", "W4", "A11", "W2", "G8", "N6"],
        "claim": "Decides the dispatch clauses of C11: the (type, type) dispatch of data_equal (outer match and the nested slice x slice "
        "match) is symmetric, its catch-all is the constant false, mirrored arms hand the same value roles and typed accessors to the "
        "same helper, and `!=` pushes the negation of the routine `==` pushes; the length that decides 'a single character equals the "
        "one-element list of it' is a character count, never a byte length (D1); the element-wise walk of two sequences loses no element: "
        "no iterator is consulted again (to decide which operand is longer) after a lossy adaptor - zip, take_while, map_while - ran over a "
        "borrow of it, so an operand exactly one element longer is never taken for equal (T15). Reflexivity/transitivity and element-wise "
        "meaning depend on iterator contents and are not decided. Also (W4): the walk that flattens a concatenation into its item sequence expands every node it meets, without a visited set - a shared sub-sequence counts as often as it is referenced, which structural equality needs. Arms of the equality dispatch that queue component pairs queue them unconditionally (T5 conditional-queue) - no shortcut from the components' types around the dispatch that knows the cross-type equalities; the equality work list itself drains to its mark (A11). Also (W2): values are compared through their addresses' contents, and SimpleGarnishData hands equal-hash constants the same address - the hash that alone keys that table is computed from a loss-free encoding of the whole value, so two different numbers are never conflated into one cell (which would make `==` true for them). Also (G8): lists and concatenations are compared as the flat sequences of their items ONE level deep - in every work-list walk over a concatenation only the Concatenation arm queues onto the work list, so a list that is an item of a list stays one value. Also (N6): number equality is exact - no tolerance test in the number implementation, PartialEq included (0.1 + 0.2 == 0.3 must stay false; a tolerance breaks transitivity).",
    },
    "C19": {
        "rules": ["T8", "W1", "D2", "G9"],
        "claim": "Decides the agreement clauses of C19: for each of the 37 BasicData variants the reference fields followed by the "
        "reachability pass (create_index_stack) equal those remapped by the copy pass (clone_index_stack) equal "
        "spec/basicdata_refs.json, rebuilt values keep their field positions, both per-variant matches have no catch-all, every root "
        "kind (symbol table, register, value, frame, extra) is traced, remapped and written back, and only the compactor and the "
        "store primitives rewrite cells (W1). Structural identity after compaction is not decided. Also (D2): the compaction's look-ups slice the raw heap only with rebased bounds (must-analysis: both bounds of a slice, every definition of a local, every call site of a parameter) - the root look-ups of optimize() must not reach cells in front of the index list. Also (G9): the reachability and copy passes construct only the reviewed errors (corrupt cell, iteration limit, unmapped address), each at most as often as reviewed - no further reason to refuse data that must be preserved.",
    },
    "C04": {
        "rules": ["T10", "A2", "G5", "T18", "D11", "D7", "T21"],
        "claim": "Decides the attribution clause of C04, not the tree shape: every one of the 69 Definition handlers (except the reviewed "
        "Group / ElseJump / Drop) records at least one instruction with Some(index of the node it handles), and on every path through "
        "the builder each emitted instruction gets exactly one metadata record (so an attribution can be neither lost nor doubled); and the 'no node is "
        "shared or lies on a cycle' clause for everything build accepts: build() itself walks the links from the root, marks visited nodes and returns Err "
        "for a node reached twice before it emits anything (G5). That the in-order walk of the accepted tree is the token stream is value-dependent parser "
        "bookkeeping and is not decided. Also (T18): an arm of parse() that computes a shifted id for the node it creates (because a synthetic List node may be inserted in front of it) records that id, not the unshifted one, in the loop-carried parser state - so the tokens that follow are linked under the node that was meant, not under the List node outside the brackets (a necessary condition of 'child and parent links agree / the in-order walk is the token order'). Also (D11): every build node is stored at the slot of the parse node it was constructed for, so each operand schedules and emits itself (none is silently replaced by its sibling). Also (D7): only the else-chain handler forwards a node's conditional_parent; a branch registered with a parent that never schedules it would get no instruction attributed. Also (T21): a handler that dispatches on the pair of child links never hides one link behind a wildcard in an arm that schedules the other, so a node with two children has both subtrees scheduled and attributed.",
    },
    "C05": {
        "rules": ["A2", "D4", "T1", "T11", "D7", "A10", "G5", "T20"],
        "claim": "Decides three clauses of C05: exactly one metadata record per emitted instruction on every builder path (A2, path-sensitive "
        "typestate); operands have the kind their instruction's reader expects and come from the data object's own tables - jump "
        "operands and expression values from get_jump_table_len(), data operands from add_*/parse_add_*, list counts from the child "
        "counter, jump-table entries from get_instruction_len() or a zero placeholder whose index is registered for patching, the "
        "patch itself from get_instruction_len() (D4, interprocedural origin analysis); every Definition has a handler (T1); and the loop appending a "
        "root's end instructions has no early exit and skips an entry only when the identical (instruction, operand) pair is already "
        "the last one, so the re-joining JumpTo / EndExpression is always emitted (T11); and a conditional's placeholder is only ever registered with a parent that "
        "patches it: a node's conditional_parent is handed on to another node only by the handler that schedules conditional_items - the else-chain - "
        "never by a group or operator in between (D7); an entry is registered before the code it names: on every path through build() a jump-table "
        "registration precedes the first emitting call (A10, must-pass-through on the MIR CFG), so an entry cannot be get_instruction_len() taken after the "
        "instruction it should point at. Root-stack exhaustion depends on program shape and is not decided. Also (G5): build() rejects every parse result in which a node is reachable twice - the validating walk has no iteration path that neither marks the node nor fails - so no node is built under two parents (the second build state would overwrite the first and leave its reserved jump-table entry unpatched). And (T20) the emitted stream is read back only by the root-closing code.",
    },
    "C20": {
        "rules": ["D4", "W1", "W3", "W2", "W8", "W6", "T11", "D3"],
        "claim": "Decides the index-provenance clause of C20: every index a build emits or reports (jump operands, expression values, the "
        "entry index, jump-table entries) originates from the data object's current table lengths or from its own add_* results, never "
        "from a literal or an absolute position (D4), and build mutates earlier state only through get_from_jump_table_mut on its own "
        "placeholders (W1); a constant built into a shared data object starts from an empty accumulator: every function that starts a "
        "string / byte-list / list accumulation stores a fresh Some(collection) on every path, never conditionally on what an earlier, "
        "possibly aborted, accumulation left in the field (W3, must-pass-through on the MIR CFG). That each program computes the same result "
        "as when built alone is not decided. Also (W2): the hash that alone keys SimpleGarnishData's constant table separates every two numbers the type distinguishes (per-variant feeds or the discriminant), so a later program's literal cannot be handed an earlier program's different constant. Also (W8): SimpleGarnishData's constant table (hash -> address) is written only by the function that pushes the hashed value and records the address it was pushed at, so a program built later into the object (or into a clone of it) is never handed a cell that holds a different constant. Also (W6): BasicGarnishData's add_* / parse_add_* return the address a store primitive returned for the value it wrote, never one computed from stored indices - so a program built into an object with history (after an optimize, or with host-registered names) gets operands that name its own values. Also (T11): the scan that keeps a root's end instruction when a join point follows it enumerates exactly this build's jump-table entries (from the table length at the start of the build to the length now), so a program built into a shared object ends its roots as it does alone. Also (D3): the six push_to_*_block siblings hand reallocate_heap each block's size at that block's own position, so growing one table while another program is built does not shrink a table an earlier program uses.",
    },
    "C06": {
        "rules": ["A1", "A6", "D6", "T8", "A11", "D7", "T11"],
        "claim": "Decides the per-instruction clause of C06: on every Ok-returning path of each of the 55 instruction functions "
        "(path-partitioned abstract interpretation of their MIR against the GarnishData contract, callees summarised bottom-up) the "
        "operand-stack, value-stack and frame deltas and the jump result are the fixed constants of spec/arity.json - binary -2+1, "
        "unary -1+1, and/or -1 then +1 only on the non-jump edge, apply -2/+1v/+1f or -2+1, end_expression restoring the caller's "
        "mark +1. Three work-list helpers are trusted summaries (named in the evidence). (A6) the builder's template for each "
        "Definition is balanced as an inductive step: its handlers are interpreted under a builder contract, and with every operand "
        "child assumed to leave one value and A1's per-instruction effects, the construct nets +1 (0 for a side-effect block and for "
        "reapply), both arms of a conditional / logical operator join at the same depth, and the `$` stack is unchanged; space and "
        "comma lists (n-ary) and the bare `;;` are excluded. (D6) the call-frame chain: the Frame* cell BasicGarnishData::push_frame writes for "
        "each (current frame, current register) state is decoded by pop_frame into the same state, variant by variant (writer/reader "
        "tables extracted from both matches), so a popped frame returns to its parent; and that chain survives a compaction in the middle of a call: the copy pass of optimize() rebuilds every "
        "cell as the variant it matched (T8: a FrameRegister is not written back as a FrameIndex), with the reference fields the tracing pass followed. "
        "The dynamic depth of whole programs is not decided. Also (A11): the work-list helpers whose net effect A1 takes on trust (the concatenation walker, the equality work list) return Ok only after leaving a `get_register_len() > mark` test on its exit edge and pop only inside such a guard, so they neither leave borrowed operands behind nor pop their caller's. Also (D7): only the else-chain handler forwards a node's conditional_parent - a conditional wrongly marked as chain member loses its fall-through PutValue and the enclosing jump then runs with one operand too few; and (T11): every root is closed by its end-instruction list, the end instruction being skipped only when the identical pair was already emitted by this root and no join point of an else chain continues at the next instruction (otherwise the join aliases the next root and a branch re-enters itself, growing the operand stack forever).",
    },
    "C08": {
        "rules": ["A4", "A5", "A1", "G3", "T2", "G3b", "A12", "W5"],
        "claim": "Decides the structural clauses of C08 on all instruction functions: on every path the host's defer_op is called at most "
        "once, with the Instruction constant that dispatches to that function, with (type, address) of the left operand then the "
        "right operand in source order (A4, A5); after a declining host exactly one unit is pushed and after an accepting host none "
        "(A1 arity on the declined / accepted edges); and for every one of the 21x21 operand type pairs of every instruction function "
        "the dedicated UnsupportedOpTypes error cannot reach the function's Err return (G3). Other error sources (data-impl errors) "
        "are not decided. Also (A4 unit-without-offer): in a function that defers undefined combinations, no path answers unit having neither asked the host nor read / built any value (flags-only interpretation); `type_cast`'s defined cast of unit is the one reviewed exception. A declined offer is answered with the unit value made by add_unit on every path, never with a placeholder address (A4 declined-without-unit). Also (G3b, offer matrix): for every deferring instruction and every tuple of the 21 operand types, abstract interpretation of the handler under that type assumption shows an Ok outcome without a defer_op offer only for the tuples the language defines (spec/defined_operands.json) - so no undefined combination is answered (with unit or anything else) without the host having been asked. Also (A12): the data objects' defer_op returns the host's answer unchanged, so 'declined' reaches the runtime exactly when the host declined. Also (W5): every function that builds a SimpleGarnishData from another one carries over each function-pointer field (resolver, op handler), so a copy made for a run still reaches the host's deferred-operation callback.",
    },
    "C10": {
        "rules": ["T4", "T9", "A1", "T11", "T20", "D7"],
        "claim": "Decides four clauses of C10: (T4) the seven testing instructions (?> !> && || ^^ !! ??) classify all 21 value types "
        "identically with exactly {False, Unit} false - computed from the behaviour of their MIR under each type fact (21 contexts each, "
        "441 for ^^), not from the spelling of their arms; (A1) && / || push a boolean only on the edge that does not jump; (T9) the "
        "right operand of && / || and the arm of ?> / !> are compiled out of line behind the jump, re-joined through a jump-table "
        "entry, and the && / || right root ends in Tis; (T11) the loop closing a root walks the whole end list, so the JumpTo that "
        "re-joins after the out-of-line operand / arm is always emitted. Order and at-most-one-arm in else-chains are not decided. The Tis that makes the out-of-line right operand of && / || a boolean is added on every path (must-pass-through before the right root is constructed), never 'unless the operand is already boolean'. Also (T20): no handler of the builder decides what to emit from the instruction it reads back from the linear stream (the only reader is the root-closing code), so a `??` / `!!` / logical result is classified on every path that reaches it, not only on the fall-through path. Also (D7): only the else-chain handler forwards a node's conditional_parent, so a conditional in parentheses under && / || keeps its own arm (otherwise the arm is never compiled and its jump entry stays 0).",
    },
    "C17": {
        "rules": ["A4", "A1", "T2", "T10", "W5", "W6", "A12", "D12", "A15"],
        "claim": "Decides the per-occurrence clauses of C17: in `resolve` the host callback is reached only on paths where the input-value "
        "lookup pushed nothing, at most once, with the symbol stored at the instruction's own operand, and a declining host leaves "
        "exactly one unit (A4 + A1); in apply the host's apply callback receives the external's number and the right operand, once; "
        "identifiers are compiled to Resolve carrying the symbol of their own text and properties to Put (T2 wiring, T10 attribution). "
        "Counts and order across a whole program are not decided. Also (W5): every function that builds a SimpleGarnishData from another one carries over each function-pointer field (resolver, op handler), so the documented callbacks still fire on a clone. BasicGarnishData's add_* / parse_add_* return the address a store primitive returned for the value they wrote, never an address computed from stored indices (W6) - the operand of the Resolve the builder emits must stay a symbol. Also (A12): both data implementations hand the host's answer to the runtime unchanged - resolve / apply / defer_op return the callback's own result (or false when no host is consulted), never a value recomputed from the object's state. Also (D12): the symbol the builder asks the data object to resolve is parsed from the identifier token's own text, at most cut at its ends (back ticks trimmed) - so the host's resolve callback is asked about the symbol of the identifier that was written. Also (A15): every Ok path of the UpdateValue handler stores the finished step's value into the current input value, so 'looked up first in the current input value' means the value of the step just before.",
    },
    "C09": {
        "rules": ["N1", "N2", "N3", "W2", "N6", "N7", "N8"],
        "claim": "Decides the no-wrap/no-trap/finiteness clauses of C09 on the code of impl GarnishNumber for SimpleNumber and its helpers: "
        "no raw or unchecked integer arithmetic, every overflow flag is branched on, no saturating float->int cast, every Float "
        "built from an arithmetic result is dominated by a test excluding NaN and +-inf; and (W2) the result an operation stores reads "
        "back as that number: SimpleGarnishData interns stored numbers by their 64-bit hash alone, so SimpleNumber's hand-written Hash must "
        "feed the hasher a lossless encoding that keeps the Integer/Float variant apart (a narrowing cast, or a float hashed as the equal "
        "integer, makes `0.5 + 1.5` read back as the Integer 2 already in the store). The numeric exactness of std's "
        "overflowing_*/f64 operations is trusted, not decided. Also (N6): 'no result' is decided on exact conditions only - no tolerance test (|x| < eps, comparison with EPSILON) turns a finite, representable quotient into unit. Also (N8): integer operands are compared only with the documented domain bounds of the operation (zero; 0/31/32 for shift counts; -1 for the MIN / -1 case) - no threshold or magnitude test predicts an overflow by hand, so a representable result at the asymmetric edge of the 32-bit range is not turned into unit.",
    },
    "C12": {
        "rules": ["T6", "N4", "T15", "T16", "W2"],
        "claim": "Decides the wiring clause of C12: each of the four comparison functions reports an ordering for incomparable "
        "operands on which its own predicate is false, applies the predicate its name states, and the comparison helper "
        "makes only like-typed pairs of the ordered types comparable; every arm of SimpleNumber's partial_cmp returns the "
        "primitive partial_cmp of its operands, so NaN stays incomparable (unit) and -0.0 equals 0.0 (N4); the lexicographic walk of two "
        "lists loses no element before the lengths are compared (T15: no lossy iterator adaptor over a borrowed operand that is consulted "
        "again - the shorter-prefix-first clause). Agreement with the natural order on ordinary values is std's and is not decided. Also (T16): in the element-wise list comparison the two lengths are compared only after the element loop (dominance on the MIR CFG) - the shorter-prefix-first tie-break, never a length-first order. Every arm of SimpleNumber::partial_cmp compares self with other in that order (N4 operands-swapped). Also (W2): operands are compared through the cells their addresses name, and SimpleGarnishData hands equal-hash constants one cell - the hash that alone keys that table is a loss-free encoding of the whole number, so two different numbers are never conflated (which would make them compare as equal).",
    },
}

TECHNIQUE = {
    "C01": "dispatch-table extraction from resolved HIR (5 composed tables vs a semantic operator spec), exhaustiveness of dispatch matches; abstract interpretation of the logic / ordering handlers per operand type (truth and comparison tables); per-method reachability of fallible integer primitives against an operation-family table; slot/constructor index agreement of build nodes",
    "C02": "priority-map extraction from HIR compared as an ordered partition against the operator table; associativity classes; stack-discipline scan of the bracket stack; sibling agreement of the parser arms (shifted own id recorded after the shift; operator arms record the next parent)",
    "C03": "resolved whole-workspace call graph (trait dispatch into both data impls) + MIR panic-site inventory (asserts, Index impls, unwrap/panic macros, std panickers) against a reviewed per-function allow-list; SCC check for recursion; structural termination arguments: visited-set validation walk in build(), iteration caps of the parser's parent-chain loops; one-bit abstract run of an iteration of the validating walk (no path that neither marks nor fails)",
    "C07": "same call-graph reachability + MIR panic-site inventory over the runtime entry set; SCC check with a depth-bound allow-list; classification of recursive cycles by a depth parameter (limit test + increasing argument at every recursive call); forward MIR analysis of work-list drains; MIR classification of every store to a block cursor with dominator / must-pass-through checks of the capacity test and of the reallocation it guards",
    "C13": "path-partitioned abstract interpretation of the Lexer methods' MIR with a typestate on the error slot (assume-guarantee between methods); operator table extraction; must-pass-through check on the MIR CFG after every trie step (token type follows the reached node); abstract interpretation of the character consumer per (lexing state, character class) with push/pop/emit/reset and row/column event counters; origin analysis of column stores; completeness of the per-token reset region (fields both set to a constant and changed)",
    "C14": "origin (def-use) analysis over resolved HIR: byte-length sources vs character-count sinks; cast scan of the literal parsers; accumulator typestate over the literal parsers' MIR; lossy-encoding scan of the Hash impls inside the intern key; resolution of Into/From conversions on the literal path to their bodies and scan for narrowing IntToInt casts; one-bit abstract run of every character loop of the literal parsers (character accounting); end-cutting-only chain check of the text handed to parse_add_*; completeness of the lexer's per-token reset",
    "C15": "origin analysis of heap index expressions (interprocedural through parameters and struct fields); sibling cross-check of the six block push functions and copy stanzas; who-may-write tables over resolved calls; lossy-encoding scan of the Hash impls inside the intern key; reachability search for returning paths of reallocate_heap that install extents for some blocks only; MIR classification of block-cursor stores (capacity test dominance); who-may-write and coherence check of the intern table; returned-address origin of the constant adders (interned vs appended)",
    "C16": "enumeration of locally constructed error values (resolved constructors) in the list lookup functions of both data impls against a reviewed table; control-context analysis of every absent-return inside a lookup loop; antisymmetry of match-based sort/search comparators; origin analysis of Extents::new end arguments (exclusive-end unit); key position and direction of match-based sort comparators; treatment-set comparison of the two operands wherever a concatenation is destructured; region analysis between start_list and end_list over the resolved call graph (no callee that may start a list)",
    "C11": "arm-table extraction of the (type,type) equality dispatch from resolved HIR: symmetry, role signatures of mirrored arms, accessor/type agreement, negation wiring; resolved-call scan for lossy iterator adaptors over borrowed operands that are consulted again; structural scan of concatenation flattening walks for visited sets; lossy-encoding scan of the Hash impls inside the intern key",
    "C19": "per-variant arm tables of the two compaction passes: binding-to-sink flow of reference fields compared with a reference-field spec; root trace/remap/write-back agreement; who-may-write table; must-analysis of heap slice bounds (both bounds, every definition, every call site rebased on StorageBlock.start); state-dependence of conditions guarding the queueing of reference fields; one-bit abstract run of optimize (no return before a root is traced)",
    "C04": "per-Definition handler attribution table from resolved HIR; path-partitioned typestate (instruction pending / balanced) over the builder's MIR; visited-set validation walk in build() (structural check of the accepted link graph); slot/constructor index agreement of build nodes; sibling agreement of parser arms on the recorded node id",
    "C05": "path-partitioned typestate over the builder's MIR; interprocedural origin (def-use) analysis of every instruction operand, jump-table entry and expression value through parameters, closures, struct fields and helper return values; who-may-forward analysis of the conditional-chain marker per dispatch arm; must-control analysis of the end-instruction skip (tied to this root's start and to pending join-point entries); one-bit abstract run of the validating walk",
    "C20": "interprocedural origin analysis of every index the builder emits or reports; who-may-write table; must-pass-through check (MIR CFG) that every accumulation start resets its accumulator; variant-separation check of the hand-written Hash that keys the constant table; who-may-write and coherence check of the intern table; returned-address origin analysis of BasicGarnishData's adders",
    "C06": "path-partitioned abstract interpretation of the instruction functions' MIR with stack-depth counters against a GarnishData contract model; bottom-up callee summaries; frame-cell codec tables of push_frame / pop_frame; per-variant rebuild check of the compaction copy pass; forward MIR analysis of the work-list helpers (drain-to-mark); who-may-forward analysis of the conditional-chain marker; must-control analysis of the end-instruction skip",
    "C08": "abstract interpretation with host-event traces and symbolic operands (defer_op once, argument order, operation id); per type-pair error-code propagation with type-fact refinement for UnsupportedOpTypes escape; flags-only abstract interpretation (unit pushed / host asked / value touched) for unit-without-offer; abstract interpretation of every deferring handler under each tuple of operand types (flags-only model) against a table of defined combinations; structural pass-through check of the data objects' callback methods; field-carry check of clone constructors",
    "C10": "abstract interpretation of the seven testing instructions under each of the 21 type facts (behavioural truth tables); builder out-of-line operand check on resolved HIR",
    "C17": "abstract interpretation of resolve / apply with host-event traces (once, after input lookup, right symbol / external); operator wiring and attribution tables; field-carry table of functions that copy a SimpleGarnishData (every fn-pointer field taken from the source); structural pass-through check of the data objects' callback methods; end-cutting-only chain check of the identifier text handed to parse_add_symbol",
    "C09": "MIR scan of the number implementation: raw integer BinaryOp/overflow asserts, unchecked std integer calls, overflow-flag dataflow to a branch (followed into helpers), FloatToInt casts, dominator check of finiteness tests over Float constructions; lossy-encoding scan of the Hash impl that keys the number intern table; per-method reachability of fallible integer primitives against an operation-family table; scan of integer comparisons for constants outside the operation's documented domain and for magnitude tests",
    "C12": "constant/predicate wiring check on the four comparison functions; comparable type-pair arm table; ordering-source check of SimpleNumber::partial_cmp; resolved-call scan for lossy iterator adaptors over borrowed operands that are consulted again; dominator check that list lengths are compared only after the element loop; lossy-encoding scan of the Hash impls inside the intern key",
}

_PENDING = "rules for this property are not built yet in this framework (see DESIGN.md section 6 for the order); not claimed until they are"
NOT_APPLICABLE = {
    "C18": "Layout transparency is decided by the parser's adjacency state on concrete neighbour tokens and by equality of two executions; "
    "no structural clause is a necessary condition that a behaviour-preserving edit could not also change (DESIGN.md section 4, C18).",
}
for _p in ["C%02d" % i for i in range(1, 21)]:
    if _p not in PROPS and _p not in NOT_APPLICABLE:
        NOT_APPLICABLE[_p] = _PENDING
