#!/bin/sh
# tools/check_refactor.sh <worktree> : a benign (behaviour-preserving) refactor must keep the baseline green AND every check silent.
W="$1"
echo "## baseline"; python3 /verif/tools/baseline_check.py "$W" | head -3
echo "## checks"; GCHECK_REPO="$W" sh /verif/tools/check_all.sh 2>&1
