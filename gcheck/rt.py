"""Runtime model for the abstract interpreter: the GarnishData contract (spec/garnishdata_model.json in code form),
bottom-up function summaries, closure-taking std combinators.

Typestate carried through a body:  TS = (d, v, f, ev, np)
  d   operand (register) stack depth relative to entry: int, or ("reset", k) after pop_frame restored the
      caller's mark (depth = mark + k)
  v   value (`$`) stack delta, f frame-chain delta
  ev  tuple of host/callback events on this path: ("defer", op, left, right) | ("resolve", sym) | ("apply", ext, arg)
      | ("push_unit",) ...
  np  number of operands popped so far (names the symbols ("s", "pop", k))
"""
from . import ai, mirq
from .ai import TOP, variant, const, is_variant
from .hirq import last

GD = "garnish_lang_traits::data::GarnishData::"

TS0 = (0, 0, 0, (), 0)


def d_add(d, n):
    if isinstance(d, tuple):
        return ("reset", d[1] + n)
    return d + n


def compose(ts, delta):
    d1, v1, f1, ev1, np1 = ts
    d2, v2, f2, ev2, np2 = delta
    if isinstance(d2, tuple):
        d = d2
    else:
        d = d_add(d1, d2)
    return (d, v1 + v2, f1 + f2, ev1 + ev2, np2)


class Unmodelled(Exception):
    pass


def ret_shapes(ty):
    """Generic result shapes of a call by the printed type of its destination."""
    t = ty.strip()
    if t.startswith("core::result::Result<"):
        inner = t[len("core::result::Result<"):]
        if inner.startswith("core::option::Option<"):
            return [variant("Ok", variant("Some", TOP)), variant("Ok", variant("None")), variant("Err", TOP)]
        if inner.startswith("bool"):
            return [variant("Ok", const(1)), variant("Ok", const(0)), variant("Err", TOP)]
        return [variant("Ok", TOP), variant("Err", TOP)]
    if t.startswith("core::option::Option<"):
        return [variant("Some", TOP), variant("None")]
    if t == "bool":
        return [const(1), const(0)]
    return [TOP]


class Model:
    """Holds the memoised summaries and implements the on_call hook."""

    def __init__(self, F, trusted=None, refine_tags=False, record_events=True, cap=40000, scope_crates=("garnish_lang_runtime", "garnish_lang_traits", "gfixture"), flags_only=False):
        self.F = F
        self.flags_only = flags_only  # ev is a sorted set of {"add_unit", "defer", "work"} instead of the detailed event trace
        self.memo = {}
        self.in_progress = set()
        self.trusted = trusted or {}
        self.refine_tags = refine_tags
        self.record_events = record_events
        self.cap = cap
        self.scope = scope_crates
        self.used_trusted = set()
        self.unmodelled = []
        self.states = 0
        self.watch = {}  # callee fn name -> event label: record the shape of what that callee returned on this path

    BOOKKEEPING = {"get_data_type", "pop_register", "push_register", "get_register_len", "get_register", "add_unit", "add_true", "add_false",
                   "get_instruction_cursor", "get_instruction_len", "get_from_jump_table", "get_jump_table_len", "push_value_stack", "pop_value_stack",
                   "get_current_value", "get_current_value_mut", "push_frame", "pop_frame", "defer_op", "apply", "resolve", "get_data_len"}

    @staticmethod
    def _flag(ev, name):
        return ev if name in ev else tuple(sorted(ev + (name,)))

    # ------------------------------------------------------------------ contract
    def contract(self, name, args, ts, t, interp, env):
        """Outcomes [(ret_value, new_ts)] of GarnishData::<name>."""
        d, v, f, ev, np = ts
        if self.flags_only:
            if name == "add_unit":
                ev = self._flag(ev, "add_unit")
            elif name == "defer_op":
                ev = self._flag(ev, "defer")
            elif name in ("apply", "resolve"):
                ev = self._flag(ev, "host")
            elif name not in self.BOOKKEEPING:
                ev = self._flag(ev, "work")
            ts = (d, v, f, ev, np)
            if name in ("defer_op", "apply", "resolve"):
                declined = (d, v, f, self._flag(ev, "declined"), np)
                return [(variant("Ok", const(1)), (d_add(d, 1), v, f, self._flag(ev, "accepted"), np)), (variant("Ok", const(0)), declined), (variant("Err", TOP), ts)]
        dty = interp.mir["locals"][t["dest"]["l"]]["ty"] if not t["dest"]["p"] else ""
        E = variant("Err", TOP)
        if name == "push_register":
            return [(variant("Ok", ("t", ())), (d_add(d, 1), v, f, ev, np)), (E, ts)]
        if name == "pop_register":
            sym = ("s", "pop", np + 1)
            return [(variant("Ok", variant("Some", sym)), (d_add(d, -1), v, f, ev, np + 1)), (variant("Ok", variant("None")), ts), (E, ts)]
        if name == "push_value_stack":
            return [(variant("Ok", ("t", ())), (d, v + 1, f, ev, np)), (E, ts)]
        if name == "pop_value_stack":
            return [(variant("Some", TOP), (d, v - 1, f, ev, np)), (variant("None"), ts)]
        if name == "push_frame":
            return [(variant("Ok", ("t", ())), (d, v, f + 1, ev, np)), (E, ts)]
        if name == "pop_frame":
            return [(variant("Ok", variant("Some", TOP)), (("reset", 0), v, f - 1, ev, np)), (variant("Ok", variant("None")), ts), (E, ts)]
        if name == "get_data_type":
            a = args[1] if len(args) > 1 else TOP
            return [(variant("Ok", ("tag", a)), ts), (E, ts)]
        if name == "get_register_len":
            return [(("depth", d), ts)]
        if name in ("add_concatenation", "add_range", "add_slice", "add_partial", "add_pair", "merge_to_symbol_list") and self.record_events and not self.flags_only:
            return [(variant("Ok", TOP), (d, v, f, ev + (("ctor", name) + tuple(args[1:]),), np)), (E, ts)]
        if name in ("add_true", "add_false") and self.record_events and not self.flags_only:
            return [(variant("Ok", TOP), (d, v, f, ev + ((name,),), np)), (E, ts)]
        if name in ("defer_op", "apply", "resolve"):
            kind = {"defer_op": "defer", "apply": "apply", "resolve": "resolve"}[name]
            e = (kind,) + tuple(args[1:]) + (("at", d, np),) if self.record_events else (kind,)
            return [(variant("Ok", const(1)), (d_add(d, 1), v, f, ev + (e + ("accepted",),), np)),
                    (variant("Ok", const(0)), (d, v, f, ev + (e + ("declined",),), np)),
                    (E, (d, v, f, ev + (e + ("error",),), np))]
        if name.startswith("get_") and len(args) == 2 and dty.startswith("core::result::Result<") and args[1] is not TOP:
            # a read of the value at an address: keep which address was read
            return [(variant("Ok", ("get", name, args[1])), ts), (E, ts)]
        return [(s, ts) for s in ret_shapes(dty)]

    # ------------------------------------------------------------------ summaries
    def summary(self, path, args, np, facts=()):
        """List of (ret_value, delta_ts) for calling workspace function `path` with abstract `args`.
        facts: tuple of (env key, value) tag knowledge about symbols, valid on entry."""
        key = (path, tuple(args), np, tuple(facts))
        if key in self.memo:
            return self.memo[key]
        if key in self.in_progress:
            raise Unmodelled("recursive summary of %s" % path)
        if path in self.trusted:
            self.used_trusted.add(path)
            outs = []
            for o in self.trusted[path]["outcomes"]:
                rv = {"ok_none": variant("Ok", variant("None")), "ok_some": variant("Ok", variant("Some", TOP)), "ok": variant("Ok", TOP),
                      "ok_true": variant("Ok", const(1)), "ok_false": variant("Ok", const(0)), "err": variant("Err", TOP)}[o["ret"]]
                outs.append((rv, (o.get("d", 0), o.get("v", 0), o.get("f", 0), (), np + o.get("pops", 0))))
            self.memo[key] = outs
            return outs
        f = self.F.fns[path]
        self.in_progress.add(key)
        try:
            init_env = dict(facts)
            for i, a in enumerate(args):
                if a is not TOP:
                    init_env["_%d" % (i + 1)] = a
            it = ai.Interp(f, hooks={"on_call": self.on_call, "track": lambda k: True, "refine_tags": self.refine_tags},
                           init_env=init_env, init_ts=(0, 0, 0, (), np), cap=self.cap)
            it.run()
            self.states += it.visited
            outs = set()
            for env, ts, bi in it.returns:
                rv = it.read_key("_0", env)
                if rv is TOP:
                    tag = env.get("_0.#")
                    if tag:
                        rv = variant(tag[1], TOP)
                outs.add((self._abstract_ret(rv), ts))
            outs = sorted(outs, key=repr)
            self.memo[key] = outs
            return outs
        finally:
            self.in_progress.discard(key)

    def _abstract_ret(self, rv, depth=0):
        """Keep the variant skeleton and symbols, drop the rest."""
        if depth > 3 or rv is TOP:
            return TOP
        if isinstance(rv, tuple) and rv:
            if rv[0] == "v":
                return ("v", rv[1], tuple(self._abstract_ret(x, depth + 1) for x in rv[2]))
            if rv[0] == "t":
                return ("t", tuple(self._abstract_ret(x, depth + 1) for x in rv[1]))
            if rv[0] in ("c", "s", "tag", "depth", "fn", "get", "uns"):
                return rv
            if rv[0] == "closure":
                return ("closure", rv[1], ())
        return TOP

    # ------------------------------------------------------------------ hooks
    def on_switch(self, interp, env, ts, bi, t, d):
        return None

    def _callee_path(self, t):
        r = t.get("resolved")
        d = t.get("def")
        if r and r in self.F.fns:
            return r
        if d in self.F.fns and self.F.fns[d].get("trait_default") is None:
            return d
        return None

    def _run_callable(self, fval, cargs, ts):
        """Call a closure / fn-item value with abstract args: returns outcomes or None if not a known callable."""
        if isinstance(fval, tuple) and fval:
            if fval[0] == "closure" and fval[1] in self.F.fns:
                # closure body: _1 = the closure env, _2.. = params
                outs = self.summary(fval[1], [TOP] + list(cargs), ts[4])
                return [(rv, compose(ts, dl)) for rv, dl in outs]
            if fval[0] == "fn":
                # tuple-variant constructors used as functions: `.map(Some)`, `.map_err(Err)`, `.and_then(Ok)`
                if fval[1] in ("core::option::Option::Some", "core::result::Result::Ok", "core::result::Result::Err") or \
                        fval[1].split("::<")[0] in ("core::option::Option", "core::result::Result") and last(fval[1]) in ("Some", "Ok", "Err"):
                    return [(variant(last(fval[1]), cargs[0] if cargs else TOP), ts)]
                p = fval[2] if fval[2] in self.F.fns else (fval[1] if fval[1] in self.F.fns and self.F.fns[fval[1]].get("trait_default") is None else None)
                if p:
                    outs = self.summary(p, list(cargs), ts[4])
                    return [(rv, compose(ts, dl)) for rv, dl in outs]
                if fval[1].startswith(GD):
                    return "contract:" + last(fval[1])
                return [(TOP, ts)]
        return None

    def on_call(self, interp, env, ts, bi, t):
        d = t.get("def") or ""
        args = [interp.operand(a, env) for a in t["args"]]
        nm = last(d)
        if d.startswith(GD):
            outs = self.contract(nm, args, ts, t, interp, env)
            return [(rv, nts, None) for rv, nts in outs]
        if nm == "unsupported_types" and "RuntimeError" in d:
            return [(("uns",), ts, None)]
        if nm == "get_type" and "RuntimeError" in d:
            a0 = args[0] if args else TOP
            if isinstance(a0, tuple) and a0 and a0[0] == "r":
                a0 = interp.read_key(a0[1], env)
            if a0 == ("uns",):
                return [(variant("UnsupportedOpTypes"), ts, None)]
            return [(TOP, ts, None)]
        if d in ("core::cmp::PartialEq::eq", "core::cmp::PartialEq::ne") and len(args) == 2:
            vals = []
            for a in args:
                if isinstance(a, tuple) and a and a[0] == "r":
                    a = interp.read_key(a[1], env)
                vals.append(a)
            if all(is_variant(x) and not x[2] for x in vals):
                same = vals[0][1] == vals[1][1]
                return [(const(1 if same == (nm == "eq") else 0), ts, None)]
        p = self._callee_path(t)
        if p is not None and self.F.fns[p]["crate"] in self.scope:
            facts = tuple(sorted((k, v) for k, v in env.items() if k[0] == "@")) if self.refine_tags else ()
            outs = self.summary(p, [self._abstract_ret(a) for a in args], ts[4], facts)
            label = self.watch.get(self.F.fns[p].get("name"))
            if label:
                res = []
                for rv, dl in outs:
                    nts = compose(ts, dl)
                    shape = rv[1] if is_variant(rv) else "?"
                    if is_variant(rv, "Ok") and rv[2] and is_variant(rv[2][0]):
                        shape = "Ok(%s)" % rv[2][0][1]
                    elif is_variant(rv, "Err") and rv[2] and rv[2][0] == ("uns",):
                        shape = "Err(unsupported)"
                    res.append((rv, (nts[0], nts[1], nts[2], nts[3] + ((label, shape),), nts[4]), None))
                return res
            return [(rv, compose(ts, dl), None) for rv, dl in outs]
        # closure-taking std combinators
        a0 = args[0] if args else TOP
        if d in ("core::result::Result::<T, E>::and_then", "core::option::Option::<T>::and_then", "core::result::Result::<T, E>::map", "core::option::Option::<T>::map"):
            is_map = nm == "map"
            pos, neg = ("Ok", "Err") if "Result" in d else ("Some", "None")
            alts = []
            cases = []
            if is_variant(a0, pos):
                cases = [("pos", a0[2][0] if a0[2] else TOP)]
            elif is_variant(a0, neg):
                cases = [("neg", a0)]
            else:
                cases = [("pos", TOP), ("neg", variant(neg, TOP) if neg == "Err" else variant("None"))]
            for kind, val in cases:
                if kind == "neg":
                    alts.append((val, ts, None))
                    continue
                res = self._run_callable(args[1] if len(args) > 1 else TOP, [val], ts)
                if res is None:
                    raise Unmodelled("%s with an unknown callable at %s" % (nm, t.get("sp")))
                if isinstance(res, str):
                    res = [(s, ts) for s in [variant("Ok", TOP), variant("Err", TOP)]]
                for rv, nts in res:
                    alts.append(((variant(pos, rv) if is_map else rv), nts, None))
            return alts
        if d in ("core::result::Result::<T, E>::or_else", "core::result::Result::<T, E>::map_err", "core::option::Option::<T>::ok_or_else", "core::option::Option::<T>::unwrap_or_else", "core::result::Result::<T, E>::unwrap_or_else", "core::option::Option::<T>::or_else"):
            # the callable runs on the negative side only; the closures used there build errors / defaults
            res = self._run_callable(args[1] if len(args) > 1 else TOP, [TOP], ts)
            if res is None:
                raise Unmodelled("%s with an unknown callable at %s" % (nm, t.get("sp")))
            neg_ts = [nts for _rv, nts in res] if not isinstance(res, str) else [ts]
            if any(n != ts for n in neg_ts):
                raise Unmodelled("%s: the fallback callable has stack effects at %s" % (nm, t.get("sp")))
            if nm == "map_err":
                if is_variant(a0, "Ok"):
                    return [(a0, ts, None)]
                if is_variant(a0, "Err"):
                    return [(variant("Err", TOP), ts, None)]
                return [(variant("Ok", TOP), ts, None), (variant("Err", TOP), ts, None)]
            if nm == "ok_or_else":
                if is_variant(a0, "Some"):
                    return [(variant("Ok", a0[2][0] if a0[2] else TOP), ts, None)]
                if is_variant(a0, "None"):
                    return [(variant("Err", TOP), ts, None)]
                return [(variant("Ok", TOP), ts, None), (variant("Err", TOP), ts, None)]
            return [(TOP, ts, None)]
        if d.startswith("core::ops::function::Fn") and nm in ("call", "call_once", "call_mut"):
            fv = a0
            if isinstance(fv, tuple) and fv and fv[0] == "r":
                fv = interp.read_key(fv[1], env)
            cargs = []
            if len(args) > 1 and isinstance(args[1], tuple) and args[1] and args[1][0] == "t":
                cargs = list(args[1][1])
            res = self._run_callable(fv, cargs, ts)
            if res is None:
                # a generic callable parameter whose value is unknown here (analysing the callee in isolation)
                dty = interp.mir["locals"][t["dest"]["l"]]["ty"] if not t["dest"]["p"] else ""
                return [(s, ts, None) for s in ret_shapes(dty)]
            if isinstance(res, str):
                outs = self.contract(res.split(":", 1)[1], [TOP] + cargs, ts, t, interp, env)
                return [(rv, nts, None) for rv, nts in outs]
            return [(rv, nts, None) for rv, nts in res]
        # anything else that receives a closure and is not modelled: fail closed
        for a in args:
            if isinstance(a, tuple) and a and a[0] == "closure":
                raise Unmodelled("call to %s receives a closure and is not modelled (at %s)" % (d, t.get("sp")))
        # Option/Result helpers with value semantics
        if d in ("core::option::Option::<T>::ok_or",):
            if is_variant(a0, "Some"):
                return [(variant("Ok", a0[2][0] if a0[2] else TOP), ts, None)]
            if is_variant(a0, "None"):
                return [(variant("Err", TOP), ts, None)]
            return [(variant("Ok", TOP), ts, None), (variant("Err", TOP), ts, None)]
        if d in ("core::result::Result::<T, E>::ok",):
            if is_variant(a0, "Ok"):
                return [(variant("Some", a0[2][0] if a0[2] else TOP), ts, None)]
            if is_variant(a0, "Err"):
                return [(variant("None"), ts, None)]
            return [(variant("Some", TOP), ts, None), (variant("None"), ts, None)]
        if d == "core::cmp::PartialEq::eq" or d == "core::cmp::PartialEq::ne":
            return [(const(1), ts, None), (const(0), ts, None)]
        return None
