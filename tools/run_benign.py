#!/usr/bin/env python3
"""tools/run_benign.py [ids...]: apply every behaviour-preserving refactor of benign/ to a scratch export of the commit it was
written against (meta.json "base") and run every claimed property's rules on it.  A refactor keeps every property, so ANY
finding that the same commit does not have without the patch is a false alarm of the checker.  Exit 1 if there is one."""
import glob, json, os, shutil, subprocess, sys, tempfile, time
sys.path.insert(0, os.path.dirname(os.path.dirname(os.path.abspath(__file__))))
from concurrent.futures import ThreadPoolExecutor
from gcheck import facts, thorough
from gcheck.props import PROPS, RULES

only = set(sys.argv[1:])
VERIF = os.path.dirname(os.path.dirname(os.path.abspath(__file__)))
root = os.path.join(VERIF, "benign")
dirs = [d for d in sorted(glob.glob(os.path.join(root, "*"))) if os.path.isfile(os.path.join(d, "patch.diff")) and (not only or os.path.basename(d) in only)]
claimed = [c["property_id"] for c in json.load(open(os.path.join(VERIF, "MANIFEST.json")))["checks"]]
rule_ids = sorted(set(r for p in claimed for r in PROPS[p]["rules"]))


def export(base):
    d = tempfile.mkdtemp(prefix="gbenign-")
    p = subprocess.run("git -C %s archive %s | tar -x -C %s" % (facts.REPO, base, d), shell=True, stdout=subprocess.PIPE, stderr=subprocess.STDOUT, text=True)
    if p.returncode != 0:
        raise RuntimeError(p.stdout)
    return d


def keys_of(repo_dir):
    F, _ = facts.load("", repo=repo_dir)
    c = thorough.MiniCtx(F, repo_dir)
    out = {}
    for rid in rule_ids:
        try:
            out[rid] = set(f.key for f in RULES[rid](c).findings)
        except Exception as e:
            out[rid] = {"%s|<crash>|%s: %s" % (rid, type(e).__name__, str(e)[:120])}
    return out


bases = {}
for d in dirs:
    b = json.load(open(os.path.join(d, "meta.json"))).get("base", "HEAD")
    bases.setdefault(b, []).append(d)
bad = 0
t0 = time.time()
for b, ds in bases.items():
    bd = export(b)
    try:
        base_keys = keys_of(bd)

        def one(d):
            w = tempfile.mkdtemp(prefix="gbenign-")
            try:
                subprocess.run(["rsync", "-a", bd + "/", w + "/"], check=True)
                r = subprocess.run(["patch", "-p1", "-s", "--no-backup-if-mismatch", "-i", os.path.join(d, "patch.diff")], cwd=w, stdout=subprocess.PIPE, stderr=subprocess.STDOUT, text=True)
                if r.returncode != 0:
                    return os.path.basename(d), {"error": "patch does not apply to %s: %s" % (b, r.stdout[-200:])}
                try:
                    k = keys_of(w)
                except facts.ExtractionError as e:
                    return os.path.basename(d), {"error": "does not compile: " + str(e)[-300:]}
                new = {}
                for p in claimed:
                    # a finding the base commit already has (a genuine defect of that commit) may move with the code it is in:
                    # same rule, same instance, another function - that is the same finding, not a false alarm
                    def moved(x, rid):
                        parts = x.split("|")
                        return len(parts) >= 3 and any(y.split("|")[0] == parts[0] and y.split("|")[2:] == parts[2:] for y in base_keys[rid])
                    nk = sorted(x for rid in PROPS[p]["rules"] for x in k[rid] - base_keys[rid] if not moved(x, rid))
                    if nk:
                        new[p] = nk
                return os.path.basename(d), {"new": new}
            finally:
                shutil.rmtree(w, ignore_errors=True)

        with ThreadPoolExecutor(max_workers=int(os.environ.get("JOBS", "4"))) as ex:
            for bid, res in ex.map(one, ds):
                if res.get("error"):
                    print("%-18s ERROR %s" % (bid, res["error"][:300])); bad += 1; continue
                n = sum(len(v) for v in res["new"].values())
                print("%-18s %s (base %s)" % (bid, "silent" if not n else "FALSE ALARM(S): %d" % n, b))
                for p, ks in sorted(res["new"].items()):
                    for k in ks:
                        print("    %s %s" % (p, k[:230])); bad += 1
    finally:
        shutil.rmtree(bd, ignore_errors=True)
print("%.0fs" % (time.time() - t0))
sys.exit(1 if bad else 0)
