//! G3 controls: the unsupported-operand-types error escaping / being absorbed.
use garnish_lang_traits::{ErrorType, GarnishData, GarnishDataType, RuntimeError};

fn lookup<D: GarnishData>(this: &mut D, addr: D::Size) -> Result<Option<D::Size>, RuntimeError<D::Error>> {
    match this.get_data_type(addr.clone())? {
        GarnishDataType::List => Ok(Some(addr)),
        _ => Err(RuntimeError::unsupported_types()),
    }
}

pub fn ctl_escapes<D: GarnishData>(this: &mut D, addr: D::Size) -> Result<Option<D::Size>, RuntimeError<D::Error>> {
    let v = lookup(this, addr)?;
    Ok(v)
}

pub fn ok_absorbs<D: GarnishData>(this: &mut D, addr: D::Size) -> Result<Option<D::Size>, RuntimeError<D::Error>> {
    match lookup(this, addr) {
        Err(e) => {
            if e.get_type() != ErrorType::UnsupportedOpTypes {
                Err(e)?;
            }
            Ok(None)
        }
        Ok(v) => Ok(v),
    }
}
