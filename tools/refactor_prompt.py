#!/usr/bin/env python3
"""tools/refactor_prompt.py <worktree> <area description...> : brief for a sub-agent that writes a BEHAVIOUR-PRESERVING
refactor (used to measure false alarms of the checks). Contains nothing about the checks."""
import sys
wt = sys.argv[1]; area = " ".join(sys.argv[2:])
print(f"""You are a maintainer of the Rust project garnish-lang/garnish-core (the Garnish scripting language core: lexer, parser, bytecode builder, stack-based runtime over a pluggable data trait, two data implementations SimpleGarnishData and BasicGarnishData).

Your own scratch git worktree of the repository is at {wt} . Work ONLY inside it (never touch /repo or /verif, never read /verif). There is no network; use `cargo ... --offline`. The workspace builds; run its test suite with `cd {wt} && cargo test --workspace --no-fail-fast --offline`: about 1500 tests pass and 39 tests (runtime mock tests hitting unimplemented!() stubs, one simple_data iterator test, 11 in tests/tests) ALREADY FAIL on the clean checkout - 'the test suite still passes' below means: the set of passing tests is unchanged (no test that passes on the clean checkout fails with your change).

YOUR TASK: make a realistic, moderately sized BEHAVIOUR-PRESERVING clean-up / refactor of this area of the NON-TEST source:

    {area}

The observable behaviour of every public function must stay IDENTICAL for every possible input (same results, same errors, same panics-or-not, same order of calls on the GarnishData trait object, same emitted instructions and tables). This is the kind of commit a careful maintainer makes without changing semantics. Do a MIX of at least 8 of the following kinds of edits, spread over the area (aim for roughly 60-250 changed lines in total):
  - rename local variables, private functions, private fields, closure parameters;
  - extract a block into a new private helper function, or inline a small private helper into its callers;
  - reorder statements that are independent of each other; reorder match arms that are disjoint; reorder private items in a file;
  - rewrite a `match` as `if let` / `matches!` / `let else`, or the other way round; merge arms with `|`, or split an or-pattern into separate arms with the same body;
  - replace an index loop with an iterator (or the reverse) where it is clearly equivalent; replace `x = x + 1` with `x += 1`; replace `.clone()` of a Copy value with a copy; `if a {{ return X }} Y` <-> `if a {{ X }} else {{ Y }}`;
  - introduce a named constant or a `let` binding for a repeated sub-expression; change numeric literals' spelling (e.g. 1_000 vs 1000);
  - renumber internal priority/ordering constants in a way that keeps every relative order (only if such constants exist in your area);
  - replace `?` with an explicit `match ... Err(e) => return Err(e)` or the reverse; `and_then` chains <-> explicit code;
  - add or edit comments and doc comments; add a `#[inline]`; add a private debug helper that is never called in release paths... 
Do NOT change public API signatures, public names, error messages/codes, or test code. Do NOT fix bugs, do NOT add or remove checks/guards/bounds tests, do NOT change arithmetic (keep checked/overflowing/saturating operations and raw operators exactly as they are), do NOT change which trait methods are called or in what order. If you are not sure an edit is behaviour-preserving, do not make it.

DELIVERABLES under {wt}/SEED/ (create it; it is not part of the change):
  * SEED/patch.diff - `git diff` of your change (must apply with `git apply` to a clean checkout; must not include SEED/). Leave the change applied in the worktree. NEVER use `git stash` (it is shared with other worktrees of this repository); to compare with the clean checkout use `git diff > /tmp/my.diff; git apply -R /tmp/my.diff; ...; git apply /tmp/my.diff`.
  * SEED/notes.md   - a numbered list of every edit you made (file, function, what kind of edit, one line on why it preserves behaviour), and the result of the full test suite with the change (must be all passing - run it).
In your final message give a short summary (number of edits by kind, lines changed, test result).""")
