//! D1 controls: a byte length used as a character count, and the correct twins.
pub fn ctl_take_bytes(input: &str, q: usize) -> String {
    let real_len = input.len() - q * 2;
    input.chars().skip(q).take(real_len).collect()
}

pub fn ctl_nth_bytes(input: &str) -> Option<char> {
    let n = input.len();
    input.chars().nth(n - 1)
}

pub fn ok_take_chars(input: &str, q: usize) -> String {
    let n = input.chars().count() - q * 2;
    input.chars().skip(q).take(n).collect()
}

pub fn ok_byte_slice(input: &str, q: usize) -> Option<&str> {
    input.get(q..input.len() - q)
}
