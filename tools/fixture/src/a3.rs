//! A3 controls: an error slot that is cleared after being set / a sticky one.
pub struct CtlLexer {
    chars: Vec<char>,
    pos: usize,
    result: Result<(), String>,
}

impl CtlLexer {
    fn check(&self) -> Result<(), String> {
        Ok(())
    }

    fn ctl_step(&mut self, c: char) -> Option<char> {
        if c == '\u{1}' {
            self.result = Err("bad".to_string());
            return None;
        }
        if c == ' ' {
            self.result = self.check();
            return Some(c);
        }
        None
    }

    pub fn ctl_next(&mut self) -> Option<char> {
        if self.result.is_err() {
            return None;
        }
        loop {
            let c = *self.chars.get(self.pos)?;
            self.pos += 1;
            // defect: keeps feeding characters after ctl_step recorded an error
            if let Some(t) = self.ctl_step(c) {
                return Some(t);
            }
        }
    }
}

pub struct OkLexer {
    chars: Vec<char>,
    pos: usize,
    result: Result<(), String>,
}

impl OkLexer {
    fn check(&self) -> Result<(), String> {
        Ok(())
    }

    fn ok_step(&mut self, c: char) -> Option<char> {
        if c == '\u{1}' {
            self.result = Err("bad".to_string());
            return None;
        }
        if c == ' ' {
            self.result = self.check();
            return Some(c);
        }
        None
    }

    pub fn ok_next(&mut self) -> Option<char> {
        if self.result.is_err() {
            return None;
        }
        loop {
            let c = *self.chars.get(self.pos)?;
            self.pos += 1;
            if let Some(t) = self.ok_step(c) {
                return Some(t);
            }
            if self.result.is_err() {
                return None;
            }
        }
    }
}
