//! G2 controls: one site of every panic kind the inventory must see.
pub fn ctl_unwrap(a: Option<u8>) -> u8 {
    a.unwrap()
}

pub fn ctl_expect(a: Result<u8, ()>) -> u8 {
    a.expect("boom")
}

pub fn ctl_index_vec(v: &Vec<u8>, i: usize) -> u8 {
    v[i]
}

pub fn ctl_index_slice(v: &[u8], i: usize) -> u8 {
    v[i]
}

pub fn ctl_slice_range(v: &Vec<u8>, a: usize, b: usize) -> usize {
    v[a..b].len()
}

pub fn ctl_str_slice(s: &str, a: usize) -> &str {
    &s[a..]
}

pub fn ctl_sub_overflow(a: usize, b: usize) -> usize {
    a - b
}

pub fn ctl_div_zero(a: usize, b: usize) -> usize {
    a / b
}

pub fn ctl_unreachable(a: bool) -> u8 {
    if a { 1 } else { unreachable!() }
}

pub fn ctl_todo(a: bool) -> u8 {
    if a { 1 } else { todo!() }
}

pub fn ctl_vec_remove(v: &mut Vec<u8>, i: usize) -> u8 {
    v.remove(i)
}

pub fn ctl_generic_sub<D: garnish_lang_traits::GarnishData>(a: D::Size, b: D::Size) -> D::Size {
    a - b
}

pub fn ok_checked(v: &Vec<u8>, i: usize, a: usize, b: usize) -> Option<usize> {
    let x = *v.get(i)? as usize;
    x.checked_sub(b)?.checked_div(a)
}
