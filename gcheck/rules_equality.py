"""T5 equality-dispatch-symmetry."""
from .facts import walk, loc
from . import hirq
from .hirq import peel, callee, call_args, last, norm_pat, arm_table, is_catch_all
from .origin import Body
from .report import RuleResult
from .rules_tables import GDT

GETTER_TYPE = {
    "get_char_list_len": "CharList", "get_char_list_item": "CharList", "get_char_list_iter": "CharList",
    "get_byte_list_len": "ByteList", "get_byte_list_item": "ByteList", "get_byte_list_iter": "ByteList",
    "get_symbol_list_len": "SymbolList", "get_symbol_list_item": "SymbolList", "get_symbol_list_iter": "SymbolList",
    "get_list_item_iter": "List", "get_list_len": "List", "get_list_item": "List",
    "get_concatenation_iter": "Concatenation", "get_concatenation": "Concatenation",
    "get_char": "Char", "get_byte": "Byte", "get_number": "Number", "get_symbol": "Symbol",
    "get_expression": "Expression", "get_external": "External", "get_pair": "Pair", "get_range": "Range", "get_slice": "Slice",
    "get_type": "Type",
}


def _pair_matches(f):
    return hirq.matches_in(f["hir"], lambda t: t.replace(" ", "") == "(%s,%s)" % (GDT, GDT))


def _which_side(body, e, left_lid, right_lid):
    """'L' / 'R' if expression e is (a clone of) the left/right address local, else None."""
    l = hirq.local_of(e)
    if l is None:
        return None
    if l == left_lid:
        return "L"
    if l == right_lid:
        return "R"
    # one let-indirection
    for d in body.defs.get(l, []):
        if isinstance(d, dict) and d.get("k") not in ("Param", "Destructure", "ClosureParam"):
            s = _which_side(body, d, left_lid, right_lid)
            if s:
                return s
    return None


def arm_signature(body, arm, A, B, left_lid, right_lid):
    """Signature of the (single) helper call that makes up the arm body, with address arguments replaced by the
    type their tag has in this arm.  Returns (helper, entries) or None when the body is not a single call."""
    e = peel(arm["body"])
    if e.get("k") not in ("Call", "MethodCall"):
        return None
    d = callee(e)
    if not d:
        return None
    entries = []
    for a in call_args(e):
        side = _which_side(body, a, left_lid, right_lid)
        if side:
            entries.append(("addr", A if side == "L" else B))
            continue
        pd = hirq.path_def(a)
        if pd and pd.startswith(GDT + "::"):
            entries.append(("type", last(pd)))
        elif pd and "GarnishData::" in pd:
            entries.append(("fn", last(pd)))
        else:
            entries.append(("other",))
    return (last(d), tuple(entries))


def pairwise_swapped(sig):
    h, es = sig
    es = list(es)
    # leave leading non-addr entries (the `this` argument) in place
    i = 0
    while i < len(es) and es[i][0] == "other":
        i += 1
    rest = es[i:]
    out = []
    j = 0
    while j + 1 < len(rest):
        out.extend([rest[j + 1], rest[j]])
        j += 2
    if j < len(rest):
        out.append(rest[j])
    return (h, tuple(es[:i] + out))


def check_match(F, f, m, r, label):
    """Symmetry + wildcard + role checks for one (GarnishDataType, GarnishDataType) match."""
    body = Body(f)
    # address locals: the two operands whose tags are matched: origins of the scrutinee tuple elements
    scrut = peel(m["scrut"])
    left_lid = right_lid = None

    def tag_source(e):
        # e evaluates to get_data_type(x) (possibly through a local): return lid of x
        for o in body.origins(e):
            if o.get("k") == "MethodCall" and o.get("m") == "get_data_type" and o["args"]:
                return hirq.local_of(o["args"][0])
        return None

    if scrut.get("k") == "Tup" and len(scrut["es"]) == 2:
        left_lid, right_lid = tag_source(scrut["es"][0]), tag_source(scrut["es"][1])
    pairs = {}
    wild = []
    for alts, guard, arm in arm_table(m):
        for a in alts:
            if a[0] == "T" and len(a[1]) == 2 and all(x[0] == "V" for x in a[1]):
                pairs[(last(a[1][0][1]), last(a[1][1][1]))] = arm
            elif is_catch_all(a):
                wild.append(arm)
            else:
                r.finding(f["path"], label + ":half-wild:" + loc(arm), loc(arm), "arm with a wildcard on one side only: the dispatch is no longer a relation on type pairs that can be checked for symmetry")
    for (A, B), arm in sorted(pairs.items()):
        r.examine((label, A, B), A != B, {"match": label, "pair": [A, B]} if A != B else None)
        if (B, A) not in pairs:
            r.finding(f["path"], "%s:asymmetric:%s,%s" % (label, A, B), loc(arm), "(%s, %s) is compared but (%s, %s) falls through to `false`: equality is not symmetric" % (A, B, B, A))
            continue
        if A == B or left_lid is None or right_lid is None:
            pass
        else:
            s1 = arm_signature(body, arm, A, B, left_lid, right_lid)
            s2 = arm_signature(body, pairs[(B, A)], B, A, left_lid, right_lid)
            if s1 and s2 and (A, B) < (B, A):
                r.examine((label, "roles", A, B), True, {"pair": [A, B], "call": s1[0], "args": [list(x) for x in s1[1]]})
                if s1 != s2 and s1 != pairwise_swapped(s2):
                    r.finding(f["path"], "%s:roles:%s,%s" % (label, A, B), loc(arm),
                              "mirrored arms (%s, %s) and (%s, %s) do not hand the same value roles to `%s`: %s vs %s" % (A, B, B, A, s1[0], s1[1], s2[1]))
        # typed getters must belong to one of the two types of the arm (or to a type constant passed along)
        allowed = {A, B}
        for n in walk(arm["body"]):
            if n.get("k") == "Path" and (n.get("def") or "").startswith(GDT + "::"):
                allowed.add(last(n["def"]))
        # nested matches inside the arm compare inner values and bring their own types
        nested = [x for x in walk(arm["body"]) if x.get("k") == "Match" and x.get("src") == "Normal"]
        if not nested:
            for n in walk(arm["body"]):
                g = None
                if n.get("k") == "MethodCall" and n.get("m") in GETTER_TYPE and "GarnishData" in (n.get("def") or ""):
                    g = n["m"]
                elif n.get("k") == "Path" and "GarnishData::" in (n.get("def") or "") and last(n["def"]) in GETTER_TYPE:
                    g = last(n["def"])
                if g and GETTER_TYPE[g] not in allowed:
                    r.finding(f["path"], "%s:getter:%s,%s:%s" % (label, A, B, g), loc(n), "arm (%s, %s) reads through `%s`, the accessor of %s" % (A, B, g, GETTER_TYPE[g]))
    if len(wild) != 1:
        r.finding(f["path"], label + ":wildcard-count", loc(m), "expected exactly one catch-all arm, found %d" % len(wild))
    for w in wild:
        v = hirq.lit_value(w["body"])
        r.examine((label, "wildcard"), True)
        if v is not False:
            r.finding(f["path"], label + ":wildcard-value", loc(w), "the catch-all arm of the equality dispatch must be the constant false")
    return pairs


def rule_T5(ctx):
    F = ctx.F
    r = RuleResult("T5", "equality-dispatch-symmetry: the type-pair dispatch of data_equal is symmetric, mirrored arms pass the same roles, the catch-all is false, != negates ==")
    cands = [f for f in F.fns.values() if f["crate"] == "garnish_lang_runtime" and f["kind"] != "Closure" and "::equality::" in f["path"]]
    best = None
    for f in cands:
        for m in _pair_matches(f):
            if best is None or len(m["arms"]) > len(best[1]["arms"]):
                best = (f, m)
    if best is None:
        r.anchor_missing("equality dispatch", "no match over (GarnishDataType, GarnishDataType) in runtime::equality")
        return r
    f, outer = best
    total = 0
    for i, m in enumerate(sorted(_pair_matches(f), key=lambda m: -len(m["arms"]))):
        if len(m["arms"]) < 5:
            continue  # the Range start/end sub-comparisons: (Unit,Unit)/(Number,Number)/_ - symmetric by construction, checked below too
        pairs = check_match(F, f, m, r, "outer" if m is outer else "nested%d" % i)
        total += len(pairs)
    for m in _pair_matches(f):
        if len(m["arms"]) < 5:
            check_match(F, f, m, r, "small@" + loc(m).split(":")[-1])
    # an arm that queues component pairs on the work list queues them unconditionally: a shortcut that answers `false` from the
    # components' *types* by-passes the dispatch, which knows cross-type equalities (Char vs one-character CharList, List vs Concatenation)
    n_q = 0
    for arm in outer["arms"]:
        pushes = [n for n in walk(arm["body"]) if n.get("k") == "MethodCall" and n.get("m") == "push_register"]
        if not pushes:
            continue
        n_q += 1
        cond_ids = set()
        for n in walk(arm["body"]):
            if n.get("k") == "If":
                for br in (n.get("then"), n.get("else")):
                    for x in walk(br or {}):
                        cond_ids.add(id(x))
            if n.get("k") == "Match" and n.get("src") == "Normal":
                for a2 in n["arms"]:
                    for x in walk(a2["body"]):
                        cond_ids.add(id(x))
        if any(id(p_) in cond_ids for p_ in pushes):
            names = "/".join(sorted(set(last(a[1]) for alt in hirq.norm_pat(arm["pat"]) if alt[0] == "T" for a in alt[1] if a[0] == "V")))
            r.finding(f["path"], "conditional-queue:" + names, loc(arm), "the %s arm queues its component pairs only under a condition: a shortcut taken from the components' types or values by-passes the type-pair dispatch, which alone knows the cross-type equalities" % names)
    r.analysed["arms_queueing_component_pairs"] = n_q
    r.floor("explicit type pairs in the equality dispatch", total, 40)
    # equal / not_equal
    eq = [g for g in F.find_fns(crate="garnish_lang_runtime", name="equal") if g.get("vis") == "Public"]
    ne = [g for g in F.find_fns(crate="garnish_lang_runtime", name="not_equal") if g.get("vis") == "Public"]
    if not eq or not ne:
        r.anchor_missing("equal / not_equal", "public fns not found")
        return r

    def shape(g):
        body = Body(g)
        routine = set()
        negated = None
        for d, n in hirq.calls_in(g["hir"]):
            if last(d) == "push_boolean":
                arg = call_args(n)[-1]
                pa = peel(arg)
                negated = pa.get("k") == "Unary" and pa.get("op") == "!"
                for o in body.origins(arg):
                    cd = callee(o)
                    if cd and cd in F.fns:
                        routine.add(cd)
        return routine, negated

    r1, n1 = shape(eq[0])
    r2, n2 = shape(ne[0])
    r.examine(("eq/ne",), True, {"equal": [sorted(r1), n1], "not_equal": [sorted(r2), n2]})
    if not r1 or r1 != r2:
        r.finding(ne[0]["path"], "negation:routine", loc(ne[0]["hir"]), "`!=` and `==` do not push the result of the same routine (%s vs %s)" % (sorted(r2), sorted(r1)))
    if n1 is not False or n2 is not True:
        r.finding(ne[0]["path"], "negation:polarity", loc(ne[0]["hir"]), "`==` must push the routine's result and `!=` its negation (found negated: == %s, != %s)" % (n1, n2))
    return r
