#!/usr/bin/env python3
"""tools/run_mutants.py [ids...]: apply every catalogued change (mutants/, seeded/) to a scratch copy and report which
property checks detect it (a finding key that the unchanged tree does not have)."""
import glob, json, os, sys, time
sys.path.insert(0, os.path.dirname(os.path.dirname(os.path.abspath(__file__))))
from concurrent.futures import ThreadPoolExecutor
from gcheck import facts, thorough
from gcheck.props import PROPS

only = set(sys.argv[1:])
dirs = []
for base in thorough.SEEDED_DIRS:
    for m in sorted(glob.glob(os.path.join(base, "*", "meta.json"))):
        if not only or os.path.basename(os.path.dirname(m)) in only:
            dirs.append(os.path.dirname(m))
F, _ = facts.load()
base_ctx = thorough.MiniCtx(F, facts.REPO)
base = {}
def base_keys(prop):
    if prop not in base:
        base[prop] = set(thorough.finding_keys(base_ctx, PROPS[prop]["rules"]))
    return base[prop]
props_needed = set()
for d in dirs:
    meta = json.load(open(os.path.join(d, "meta.json")))
    for p in meta.get("check_properties") or [meta["property"]]:
        props_needed.add(p)
for p in sorted(props_needed):
    base_keys(p)
def one(d):
    meta = json.load(open(os.path.join(d, "meta.json")))
    out = {}
    for p in meta.get("check_properties") or [meta["property"]]:
        out[p] = thorough.run_mutant_for(d, p, base[p])
    return os.path.basename(d), meta, out
t0 = time.time()
with ThreadPoolExecutor(max_workers=int(os.environ.get("JOBS", "4"))) as ex:
    for mid, meta, out in ex.map(one, dirs):
        for p, res in out.items():
            print("%-34s %-4s %-10s %s" % (mid, p, res["status"], "; ".join(k.split("|", 1)[0] + "|.." + k[-60:] for k in res.get("new_findings", [])[:2]) or res.get("detail", "")[:120]))
print("%.0fs" % (time.time() - t0))
