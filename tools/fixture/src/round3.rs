//! controls for the rules of gcheck/rules_round3.py
pub mod n5 {
    pub struct Num(pub i32);
    impl From<i64> for Num {
        fn from(x: i64) -> Self {
            Num(x as i32)
        }
    }
    impl From<i32> for Num {
        fn from(x: i32) -> Self {
            Num(x)
        }
    }
    pub fn ctl_parse_wide(s: &str) -> Option<Num> {
        i64::from_str_radix(s, 10).ok().map(|v| v.into())
    }
    pub fn ok_parse_exact(s: &str) -> Option<Num> {
        i32::from_str_radix(s, 10).ok().map(|v| v.into())
    }
}
pub mod d8 {
    pub struct L {
        pub column: usize,
        pub start_column: usize,
        pub text: String,
    }
    impl L {
        pub fn ctl_column_from_bytes(&mut self) {
            self.start_column = self.column + self.text.len();
        }
        pub fn ok_column_from_chars(&mut self) {
            self.start_column = self.column + self.text.chars().count();
        }
    }
}
pub mod t16 {
    use std::cmp::Ordering;
    pub fn size_to_number(n: usize) -> i64 {
        n as i64
    }
    pub fn ctl_length_first(a: &[i64], b: &[i64]) -> Option<Ordering> {
        let (l1, l2) = (size_to_number(a.len()), size_to_number(b.len()));
        if l1 != l2 {
            return l1.partial_cmp(&l2);
        }
        let mut i = 0;
        while i < a.len() && i < b.len() {
            match a[i].partial_cmp(&b[i]) {
                Some(Ordering::Equal) => (),
                other => return other,
            }
            i += 1;
        }
        l1.partial_cmp(&l2)
    }
    pub fn ok_elements_first(a: &[i64], b: &[i64]) -> Option<Ordering> {
        let (l1, l2) = (size_to_number(a.len()), size_to_number(b.len()));
        let mut i = 0;
        while i < a.len() && i < b.len() {
            match a[i].partial_cmp(&b[i]) {
                Some(Ordering::Equal) => (),
                other => return other,
            }
            i += 1;
        }
        l1.partial_cmp(&l2)
    }
}
pub mod w4 {
    use std::collections::HashSet;
    pub enum V {
        Leaf(u32),
        Cat(usize, usize),
    }
    pub fn ctl_flatten_dedup(vals: &[V], root: usize) -> Vec<u32> {
        let mut out = vec![];
        let mut seen = HashSet::new();
        let mut stack = vec![root];
        while let Some(i) = stack.pop() {
            match vals.get(i) {
                Some(V::Cat(l, r)) => {
                    if seen.insert(i) {
                        stack.push(*r);
                        stack.push(*l);
                    }
                }
                Some(V::Leaf(x)) => out.push(*x),
                None => {}
            }
        }
        out
    }
    pub fn ok_flatten_all(vals: &[V], root: usize) -> Vec<u32> {
        let mut out = vec![];
        let mut stack = vec![root];
        while let Some(i) = stack.pop() {
            match vals.get(i) {
                Some(V::Cat(l, r)) => {
                    stack.push(*r);
                    stack.push(*l);
                }
                Some(V::Leaf(x)) => out.push(*x),
                None => {}
            }
        }
        out
    }
}
pub mod d9 {
    use garnish_lang_traits::Extents;
    pub fn ctl_last_index(len: i64) -> Extents<i64> {
        Extents::new(0, len - 1)
    }
    pub fn ok_length(len: i64) -> Extents<i64> {
        Extents::new(0, len)
    }
}
pub mod w5 {
    #[derive(Clone)]
    pub struct Store {
        pub items: Vec<u32>,
        pub on_resolve: fn(u32) -> bool,
        pub on_op: fn(u32) -> bool,
    }
    fn decline(_: u32) -> bool {
        false
    }
    impl Store {
        pub fn new() -> Self {
            Store { items: vec![], on_resolve: decline, on_op: decline }
        }
    }
    pub fn ctl_clone_drops_resolver(from: &Store) -> Store {
        Store { items: from.items.clone(), on_op: from.on_op, ..Store::new() }
    }
    pub fn ok_clone_keeps_both(from: &Store) -> Store {
        let mut s = Store::new();
        s.items = from.items.clone();
        s.on_resolve = from.on_resolve;
        s.on_op = from.on_op;
        s
    }
}
pub mod a11 {
    use garnish_lang_traits::GarnishData;
    pub fn ok_walk_drains<D: GarnishData>(this: &mut D, a: D::Size, b: D::Size) -> Result<Option<D::Size>, D::Error> {
        let start = this.get_register_len();
        this.push_register(a)?;
        this.push_register(b)?;
        let mut found = None;
        while this.get_register_len() > start {
            match this.pop_register()? {
                Some(x) => {
                    found = Some(x);
                    break;
                }
                None => {}
            }
        }
        while this.get_register_len() > start {
            this.pop_register()?;
        }
        Ok(found)
    }
    pub fn ctl_walk_pops_everything<D: GarnishData>(this: &mut D, a: D::Size, b: D::Size) -> Result<Option<D::Size>, D::Error> {
        let start = this.get_register_len();
        this.push_register(a)?;
        this.push_register(b)?;
        let mut found = None;
        while this.get_register_len() > start {
            match this.pop_register()? {
                Some(x) => {
                    found = Some(x);
                    break;
                }
                None => {}
            }
        }
        if found.is_some() {
            while this.pop_register()?.is_some() {}
        }
        Ok(found)
    }
}
pub mod n6 {
    pub fn ctl_epsilon_zero(v: f64) -> bool {
        v.abs() < f64::EPSILON
    }
    pub fn ok_exact_zero(v: f64) -> bool {
        v == 0.0 || v < 0.0
    }
}
pub mod n7 {
    fn checked(v: (i32, bool)) -> Option<i32> {
        if v.1 { None } else { Some(v.0) }
    }
    fn negate(v: i32) -> Option<i32> {
        checked(v.overflowing_neg())
    }
    fn add(a: i32, b: i32) -> Option<i32> {
        checked(a.overflowing_add(b))
    }
    /// a - b as a + (-b): -MIN overflows although a - MIN may be representable
    pub fn ctl_subtract__via_negated_addend(a: i32, b: i32) -> Option<i32> {
        add(a, negate(b)?)
    }
    pub fn ok_subtract__own_primitive(a: i32, b: i32) -> Option<i32> {
        checked(a.overflowing_sub(b))
    }
    pub fn ok_decrement__via_sub(a: i32) -> Option<i32> {
        a.checked_sub(1)
    }
    pub fn ok_absolute_value__via_neg(a: i32) -> Option<i32> {
        if a < 0 { negate(a) } else { Some(a) }
    }
}
pub mod g3b {
    use garnish_lang_traits::{GarnishData, GarnishDataType, Instruction, RuntimeError};
    fn operand<D: GarnishData>(this: &mut D) -> Result<D::Size, RuntimeError<D::Error>> {
        match this.pop_register()? {
            Some(v) => Ok(v),
            None => Err(RuntimeError::unsupported_types()),
        }
    }
    /// answers unit for a char list accessed with a symbol without asking the host
    pub fn ctl_unit_for_undefined<D: GarnishData>(this: &mut D) -> Result<Option<D::Size>, RuntimeError<D::Error>> {
        let right = operand(this)?;
        let left = operand(this)?;
        match (this.get_data_type(left.clone())?, this.get_data_type(right.clone())?) {
            (GarnishDataType::List, GarnishDataType::Symbol) => this.push_register(left)?,
            (GarnishDataType::CharList, GarnishDataType::Symbol) => {
                let u = this.add_unit()?;
                this.push_register(u)?
            }
            (l, r) => {
                if !this.defer_op(Instruction::Access, (l, left), (r, right))? {
                    let u = this.add_unit()?;
                    this.push_register(u)?
                }
            }
        }
        Ok(None)
    }
    pub fn ok_offers_undefined<D: GarnishData>(this: &mut D) -> Result<Option<D::Size>, RuntimeError<D::Error>> {
        let right = operand(this)?;
        let left = operand(this)?;
        match (this.get_data_type(left.clone())?, this.get_data_type(right.clone())?) {
            (GarnishDataType::List, GarnishDataType::Symbol) => this.push_register(left)?,
            (l, r) => {
                if !this.defer_op(Instruction::Access, (l, left), (r, right))? {
                    let u = this.add_unit()?;
                    this.push_register(u)?
                }
            }
        }
        Ok(None)
    }
}
pub mod w7 {
    pub struct Block {
        pub cursor: usize,
        pub size: usize,
        pub start: usize,
    }
    pub struct Store {
        pub heap: Vec<u8>,
        pub a_block: Block,
        pub b_block: Block,
    }
    fn push(heap: &mut Vec<u8>, block: &mut Block, v: u8) -> usize {
        let index = block.cursor;
        heap[block.start + index] = v;
        block.cursor += 1;
        index
    }
    impl Store {
        fn grow(&mut self, new_a: usize, new_b: usize) {
            self.heap.resize(new_a + new_b, 0);
            self.a_block.size = new_a;
            self.b_block.start = new_a;
            self.b_block.size = new_b;
        }
        pub fn ok_push_checked(&mut self, v: u8) -> usize {
            if self.a_block.cursor >= self.a_block.size {
                self.grow(self.a_block.size * 2 + 1, self.b_block.size);
            }
            push(&mut self.heap, &mut self.a_block, v)
        }
        pub fn ctl_push_unchecked(&mut self, v: u8) -> usize {
            push(&mut self.heap, &mut self.a_block, v)
        }
        pub fn ctl_checks_other_block(&mut self, v: u8) -> usize {
            if self.b_block.cursor >= self.b_block.size {
                self.grow(self.a_block.size, self.b_block.size * 2 + 1);
            }
            push(&mut self.heap, &mut self.a_block, v)
        }
        pub fn ctl_grows_other_block(&mut self, v: u8) -> usize {
            if self.a_block.cursor >= self.a_block.size {
                self.grow(self.a_block.size, self.b_block.size * 2 + 1);
            }
            push(&mut self.heap, &mut self.a_block, v)
        }
        /// one growth step, then the cursor moves by n whatever the new size is
        pub fn ctl_bulk_single_growth(&mut self, n: usize) -> usize {
            if self.a_block.cursor + n > self.a_block.size {
                self.grow(self.a_block.size * 2 + 1, self.b_block.size);
            }
            let first = self.a_block.cursor;
            self.a_block.cursor += n;
            first
        }
        pub fn ok_bulk_loop_growth(&mut self, n: usize) -> usize {
            while self.a_block.cursor + n > self.a_block.size {
                self.grow(self.a_block.size * 2 + 1, self.b_block.size);
            }
            let first = self.a_block.cursor;
            self.a_block.cursor += n;
            first
        }
        pub fn ok_bulk_sized_growth(&mut self, n: usize) -> usize {
            if self.a_block.cursor + n > self.a_block.size {
                self.grow(self.a_block.cursor + n, self.b_block.size);
            }
            let first = self.a_block.cursor;
            self.a_block.cursor += n;
            first
        }
    }
}
pub mod w8 {
    use std::collections::HashMap;
    pub struct Store {
        pub data: Vec<u64>,
        pub cache: HashMap<u64, usize>,
    }
    impl Store {
        pub fn ok_add(&mut self, h: u64, v: u64) -> usize {
            match self.cache.get(&h) {
                Some(a) => *a,
                None => {
                    let addr = self.data.len();
                    self.data.push(v);
                    self.cache.insert(h, addr);
                    addr
                }
            }
        }
        /// copies another store's entries for the addresses that exist here - whatever those cells hold
        pub fn ctl_copy_entries(&mut self, from: &Store) {
            for (h, a) in from.cache.iter() {
                if *a < self.data.len() {
                    self.cache.entry(*h).or_insert(*a);
                }
            }
        }
    }
}
pub mod d10 {
    /// raw tabs and line feeds are skipped: bytes of the literal are lost
    pub fn ctl_skips_layout(content: &str) -> Vec<u8> {
        let mut bytes = vec![];
        let mut check_escape = false;
        for c in content.chars() {
            if check_escape {
                bytes.push(c as u8);
                check_escape = false;
                continue;
            }
            if c == '\\' {
                check_escape = true
            } else if !(c == '\n' || c == '\t') {
                bytes.extend_from_slice(c.encode_utf8(&mut [0u8; 4]).as_bytes());
            }
        }
        bytes
    }
    pub fn ctl_continue_before_use(content: &str) -> String {
        let mut out = String::new();
        for c in content.chars() {
            if c.is_whitespace() {
                continue;
            }
            out.push(c);
        }
        out
    }
    pub fn ok_every_character_used(content: &str) -> Result<Vec<u8>, String> {
        let mut bytes = vec![];
        let mut check_escape = false;
        for c in content.chars() {
            if check_escape {
                match c {
                    'n' => bytes.push(10),
                    _ => return Err(format!("bad escape {}", c)),
                }
                check_escape = false;
                continue;
            }
            if c == '\\' {
                check_escape = true
            } else if c == '\0' {
                Err(format!("nul"))?;
            } else {
                bytes.extend_from_slice(c.encode_utf8(&mut [0u8; 4]).as_bytes());
            }
        }
        Ok(bytes)
    }
}
pub mod a12 {
    pub struct Store {
        pub register: Vec<usize>,
        pub resolver: fn(&mut Store, u64) -> Result<bool, String>,
    }
    impl Store {
        pub fn ok_resolve_passes_through(&mut self, symbol: u64) -> Result<bool, String> {
            (self.resolver)(self, symbol)
        }
        pub fn ok_resolve_through_question_mark(&mut self, symbol: u64) -> Result<bool, String> {
            let accepted = (self.resolver)(self, symbol)?;
            Ok(accepted)
        }
        /// "accepted" only if the top register changed: a de-duplicated answer is reported as declined
        pub fn ctl_resolve_second_guesses(&mut self, symbol: u64) -> Result<bool, String> {
            let top = self.register.last().cloned();
            let resolved = (self.resolver)(self, symbol)?;
            Ok(resolved && self.register.last().cloned() != top)
        }
    }
}
pub mod g7 {
    use garnish_lang_traits::{GarnishData, GarnishDataType};
    fn look<D: GarnishData>(this: &mut D, addr: D::Size) -> Result<Option<D::Size>, D::Error> {
        match this.get_data_type(addr.clone())? {
            GarnishDataType::Pair => Ok(Some(addr)),
            _ => Ok(None),
        }
    }
    /// walks down the left operands only: a concatenation nested on the right is looked at as one item
    pub fn ctl_left_spine_only<D: GarnishData>(this: &mut D, value: D::Size) -> Result<Option<D::Size>, D::Error> {
        let mut current = value;
        loop {
            let (left, right) = this.get_concatenation(current)?;
            if let Some(found) = look(this, right)? {
                return Ok(Some(found));
            }
            match this.get_data_type(left.clone())? {
                GarnishDataType::Concatenation => current = left,
                _ => return look(this, left),
            }
        }
    }
    pub fn ok_both_queued<D: GarnishData>(this: &mut D, value: D::Size) -> Result<Option<D::Size>, D::Error> {
        let start = this.get_register_len();
        this.push_register(value)?;
        let mut found = None;
        while this.get_register_len() > start {
            if let Some(r) = this.pop_register()? {
                match this.get_data_type(r.clone())? {
                    GarnishDataType::Concatenation => {
                        let (left, right) = this.get_concatenation(r)?;
                        this.push_register(left)?;
                        this.push_register(right)?;
                    }
                    _ => {
                        if found.is_none() {
                            found = look(this, r)?;
                        }
                    }
                }
            }
        }
        Ok(found)
    }
}
pub mod t17 {
    /// the kind of the OUTERMOST open bracket is read where the innermost is meant
    pub fn ctl_reads_outermost(tokens: &[u8]) -> usize {
        let mut group_stack: Vec<(usize, bool)> = vec![];
        let mut hits = 0;
        for (i, t) in tokens.iter().enumerate() {
            match *t {
                b'(' => group_stack.push((i, false)),
                b')' => {
                    group_stack.pop();
                }
                _ => {
                    if let Some((start, _)) = group_stack.first() {
                        hits += *start;
                    }
                }
            }
        }
        hits
    }
    pub fn ok_reads_current(tokens: &[u8]) -> usize {
        let mut group_stack: Vec<(usize, bool)> = vec![];
        let mut current_group = None;
        let mut hits = 0;
        for (i, t) in tokens.iter().enumerate() {
            match *t {
                b'(' => {
                    current_group = Some(group_stack.len());
                    group_stack.push((i, false));
                }
                b')' => {
                    group_stack.pop();
                    current_group = match group_stack.is_empty() {
                        true => None,
                        false => Some(group_stack.len() - 1),
                    };
                }
                _ => {
                    if let Some(current) = current_group {
                        if let Some((start, _)) = group_stack.get(current) {
                            hits += *start;
                        }
                    }
                }
            }
        }
        hits
    }
}
pub mod t18 {
    pub struct ParseNode {
        pub parent: Option<usize>,
    }
    pub fn ok_records_shifted_id(tokens: &[u8]) -> Vec<ParseNode> {
        let mut nodes: Vec<ParseNode> = vec![];
        let mut next_parent: Option<usize> = None;
        let mut check_for_list = false;
        for t in tokens.iter() {
            let current_id = nodes.len();
            let parent = match *t {
                0 => None,
                1 => {
                    next_parent = Some(current_id);
                    None
                }
                2 => {
                    check_for_list = true;
                    None
                }
                3 => {
                    let mut parent = next_parent;
                    let mut our_id = current_id;
                    if check_for_list {
                        our_id = current_id + 1;
                        parent = Some(current_id);
                        nodes.push(ParseNode { parent: None });
                        check_for_list = false;
                    }
                    next_parent = Some(our_id);
                    parent
                }
                4 => next_parent,
                5 => None,
                6 => None,
                7 => None,
                _ => None,
            };
            nodes.push(ParseNode { parent });
        }
        nodes
    }
    pub fn ctl_records_before_shift(tokens: &[u8]) -> Vec<ParseNode> {
        let mut nodes: Vec<ParseNode> = vec![];
        let mut next_parent: Option<usize> = None;
        let mut check_for_list = false;
        for t in tokens.iter() {
            let current_id = nodes.len();
            let parent = match *t {
                0 => None,
                1 => {
                    next_parent = Some(current_id);
                    None
                }
                2 => {
                    check_for_list = true;
                    None
                }
                3 => {
                    let mut parent = next_parent;
                    let mut our_id = current_id;
                    next_parent = Some(our_id);
                    if check_for_list {
                        our_id = current_id + 1;
                        parent = Some(current_id);
                        nodes.push(ParseNode { parent: None });
                        check_for_list = false;
                    }
                    parent
                }
                4 => next_parent,
                5 => None,
                6 => None,
                7 => None,
                _ => None,
            };
            nodes.push(ParseNode { parent });
        }
        nodes
    }
    pub fn ctl_records_unshifted_id(tokens: &[u8]) -> Vec<ParseNode> {
        let mut nodes: Vec<ParseNode> = vec![];
        let mut next_parent: Option<usize> = None;
        let mut check_for_list = false;
        for t in tokens.iter() {
            let current_id = nodes.len();
            let parent = match *t {
                0 => None,
                1 => {
                    next_parent = Some(current_id);
                    None
                }
                2 => {
                    check_for_list = true;
                    None
                }
                3 => {
                    let mut parent = next_parent;
                    let mut our_id = current_id;
                    if check_for_list {
                        our_id = current_id + 1;
                        parent = Some(current_id);
                        nodes.push(ParseNode { parent: None });
                        check_for_list = false;
                    }
                    next_parent = Some(current_id);
                    parent
                }
                4 => next_parent,
                5 => None,
                6 => None,
                7 => None,
                _ => None,
            };
            nodes.push(ParseNode { parent });
        }
        nodes
    }
}
pub mod t19 {
    pub struct ParseNode {
        pub parent: Option<usize>,
        pub right: Option<usize>,
    }
    fn place(id: usize, right: Option<usize>, nodes: &mut Vec<ParseNode>) -> (Option<usize>, Option<usize>) {
        let parent = if id > 0 { Some(id - 1) } else { None };
        if let Some(p) = parent {
            nodes[p].right = Some(id);
        }
        (parent, right)
    }
    pub fn ok_records_next_parent(tokens: &[u8]) -> Vec<ParseNode> {
        let mut nodes: Vec<ParseNode> = vec![];
        let mut next_parent: Option<usize> = None;
        for (i, t) in tokens.iter().enumerate() {
            let current_id = nodes.len();
            let assumed_right = match i + 1 >= tokens.len() {
                true => None,
                false => Some(current_id + 1),
            };
            let links = match *t {
                0 => (None, None),
                1 => {
                    next_parent = Some(current_id);
                    place(current_id, assumed_right, &mut nodes)
                }
                2 => (next_parent, None),
                3 => (None, None),
                4 => (None, None),
                5 => (None, None),
                6 => (None, None),
                7 => (None, None),
                _ => (None, None),
            };
            nodes.push(ParseNode { parent: links.0, right: links.1 });
        }
        nodes
    }
    pub fn ctl_forgets_next_parent(tokens: &[u8]) -> Vec<ParseNode> {
        let mut nodes: Vec<ParseNode> = vec![];
        let mut next_parent: Option<usize> = None;
        for (i, t) in tokens.iter().enumerate() {
            let current_id = nodes.len();
            let assumed_right = match i + 1 >= tokens.len() {
                true => None,
                false => Some(current_id + 1),
            };
            let links = match *t {
                0 => (None, None),
                1 => {
                    
                    place(current_id, assumed_right, &mut nodes)
                }
                2 => (next_parent, None),
                3 => (None, None),
                4 => (None, None),
                5 => (None, None),
                6 => (None, None),
                7 => (None, None),
                _ => (None, None),
            };
            nodes.push(ParseNode { parent: links.0, right: links.1 });
        }
        nodes
    }
}
pub mod n8 {
    /// predicts the overflow of base ** exponent from the exponent and the magnitude of the base
    pub fn ctl_power__threshold(v1: i32, v2: i32) -> Option<i32> {
        if v2 < 0 {
            return None;
        }
        if v2 >= 31 && v1.unsigned_abs() > 1 {
            return None;
        }
        let (v, o) = v1.overflowing_pow(v2 as u32);
        if o { None } else { Some(v) }
    }
    pub fn ok_power__flag(v1: i32, v2: i32) -> Option<i32> {
        if v2 < 0 {
            return None;
        }
        let (v, o) = v1.overflowing_pow(v2 as u32);
        if o { None } else { Some(v) }
    }
    pub fn ok_bitwise_shift_left__domain(v1: i32, v2: i32) -> Option<i32> {
        if v2 < 0 || v2 > 31 {
            return None;
        }
        Some(v1 << v2)
    }
}
pub mod d11 {
    pub struct BuildNode {
        pub parse_node_index: usize,
        pub jump: usize,
    }
    impl BuildNode {
        pub fn new(parse_node_index: usize, jump: usize) -> Self {
            BuildNode { parse_node_index, jump }
        }
    }
    pub fn ok_own_slots(nodes: &mut Vec<Option<BuildNode>>, left: usize, right: usize, jump: usize) {
        nodes[right] = Some(BuildNode::new(right, jump));
        nodes[left] = Some(BuildNode::new(left, jump));
    }
    pub fn ctl_swapped_slots(nodes: &mut Vec<Option<BuildNode>>, left: usize, right: usize, jump: usize) {
        nodes[left] = Some(BuildNode::new(right, jump));
        nodes[right] = Some(BuildNode::new(left, jump));
    }
}
pub mod a13 {
    use garnish_lang_traits::{GarnishData, TypeConstants};
    fn copy_item<D: GarnishData>(to: &mut D, item: D::Size, nested: bool) -> Result<D::Size, D::Error> {
        if nested {
            let inner = to.start_list(D::Size::one())?;
            let inner = to.add_to_list(inner, item)?;
            to.end_list(inner)
        } else {
            Ok(item)
        }
    }
    /// opens the list, then builds the items - one of which may open a list itself
    pub fn ctl_builds_items_inside<D: GarnishData>(to: &mut D, items: Vec<D::Size>, len: D::Size) -> Result<D::Size, D::Error> {
        let mut list = to.start_list(len)?;
        for i in items {
            let item = copy_item(to, i, true)?;
            list = to.add_to_list(list, item)?;
        }
        to.end_list(list)
    }
    pub fn ok_builds_items_first<D: GarnishData>(to: &mut D, items: Vec<D::Size>, len: D::Size) -> Result<D::Size, D::Error> {
        let mut built = vec![];
        for i in items {
            built.push(copy_item(to, i, true)?);
        }
        let mut list = to.start_list(len)?;
        for item in built {
            list = to.add_to_list(list, item)?;
        }
        to.end_list(list)
    }
}
pub mod w9 {
    use std::collections::HashMap;
    pub struct Store {
        pub data: Vec<Vec<u8>>,
        pub cache: HashMap<u64, usize>,
        pub pending: Option<Vec<u8>>,
    }
    impl Store {
        fn cache_add(&mut self, v: Vec<u8>) -> Result<usize, String> {
            let h = v.len() as u64;
            match self.cache.get(&h) {
                Some(a) => Ok(*a),
                None => {
                    let addr = self.data.len();
                    self.data.push(v);
                    self.cache.insert(h, addr);
                    Ok(addr)
                }
            }
        }
        fn add_plain(&mut self, v: Vec<u8>) -> Result<usize, String> {
            self.data.push(v);
            Ok(self.data.len() - 1)
        }
        pub fn ok_end_interns(&mut self) -> Result<usize, String> {
            match self.pending.take() {
                None => Err("no list".to_string()),
                Some(v) => self.cache_add(v),
            }
        }
        pub fn ctl_end_appends(&mut self) -> Result<usize, String> {
            match self.pending.take() {
                None => Err("no list".to_string()),
                Some(v) => self.add_plain(v),
            }
        }
    }
}
pub mod d12 {
    pub struct Sink {
        pub names: Vec<String>,
    }
    impl Sink {
        pub fn parse_add_symbol(&mut self, from: &str) -> Result<usize, String> {
            self.names.push(from.to_string());
            Ok(self.names.len() - 1)
        }
    }
    pub struct Node {
        pub text: String,
    }
    impl Node {
        pub fn text(&self) -> &str {
            &self.text
        }
    }
    pub fn ok_trims_delimiters(data: &mut Sink, node: &Node) -> Result<usize, String> {
        data.parse_add_symbol(node.text().trim_matches('`'))
    }
    pub fn ok_slices_marker(data: &mut Sink, node: &Node) -> Result<usize, String> {
        data.parse_add_symbol(&node.text()[1..])
    }
    pub fn ctl_filters_characters(data: &mut Sink, node: &Node) -> Result<usize, String> {
        let name: String = node.text().chars().filter(|c| c.is_alphanumeric() || *c == '_').collect();
        data.parse_add_symbol(&name)
    }
}
pub mod t20 {
    use garnish_lang_traits::{GarnishData, Instruction};
    /// a handler that skips its own instruction when the last one in the stream "already yields a boolean"
    pub fn ctl_handler_reads_back<D: GarnishData>(data: &mut D, instruction: Instruction) -> Result<(), D::Error> {
        let already = match data.get_instruction_iter().last().and_then(|i| data.get_instruction(i)) {
            Some((Instruction::Tis, _)) => true,
            _ => false,
        };
        if !already {
            data.push_instruction(instruction, None)?;
        }
        Ok(())
    }
}
pub mod g8 {
    pub enum Cell {
        Concatenation(usize, usize),
        List(Vec<usize>),
        Number(i32),
    }
    pub fn ok_flat_one_level(cells: &[Cell], root: usize) -> Vec<usize> {
        let mut stack = vec![root];
        let mut items = vec![];
        while let Some(index) = stack.pop() {
            match &cells[index] {
                Cell::Concatenation(left, right) => {
                    stack.push(*right);
                    stack.push(*left);
                }
                Cell::List(list_items) => {
                    for item in list_items {
                        items.push(*item);
                    }
                }
                _ => items.push(index),
            }
        }
        items
    }
    /// list items are queued on the work stack: a list among them is taken apart too
    pub fn ctl_requeues_list_items(cells: &[Cell], root: usize) -> Vec<usize> {
        let mut stack = vec![root];
        let mut items = vec![];
        while let Some(index) = stack.pop() {
            match &cells[index] {
                Cell::Concatenation(left, right) => {
                    stack.push(*right);
                    stack.push(*left);
                }
                Cell::List(list_items) => {
                    stack.extend(list_items.iter().rev().copied());
                }
                _ => items.push(index),
            }
        }
        items
    }
}
pub mod a15 {
    use garnish_lang_traits::{GarnishData, GarnishDataType};
    pub fn ok_always_stores<D: GarnishData>(this: &mut D, r: D::Size) -> Result<Option<D::Size>, D::Error> {
        match this.get_current_value_mut() {
            None => return Err(this.get_data_type(r).err().unwrap()),
            Some(v) => *v = r,
        }
        Ok(None)
    }
    /// a unit result is not handed on
    pub fn ctl_skips_unit<D: GarnishData>(this: &mut D, r: D::Size) -> Result<Option<D::Size>, D::Error> {
        let produced = this.get_data_type(r.clone())?;
        match this.get_current_value_mut() {
            None => return Err(this.get_data_type(r).err().unwrap()),
            Some(_) if produced == GarnishDataType::Unit => (),
            Some(v) => *v = r,
        }
        Ok(None)
    }
}
pub mod t21 {
    pub struct Node {
        pub left: Option<usize>,
        pub right: Option<usize>,
    }
    impl Node {
        pub fn get_left(&self) -> Option<usize> {
            self.left
        }
        pub fn get_right(&self) -> Option<usize> {
            self.right
        }
    }
    /// `(Some(left), _)` swallows the case in which both children are present
    pub fn ctl_hides_right(node: &Node, stack: &mut Vec<usize>) {
        match (node.get_left(), node.get_right()) {
            (Some(left), _) => stack.push(left),
            (None, Some(right)) => stack.push(right),
            (None, None) => {}
        }
    }
    pub fn ok_all_four_cases(node: &Node, stack: &mut Vec<usize>) {
        match (node.get_left(), node.get_right()) {
            (Some(left), Some(right)) => {
                stack.push(right);
                stack.push(left);
            }
            (Some(left), None) => stack.push(left),
            (None, Some(right)) => stack.push(right),
            (None, None) => {}
        }
    }
}
pub mod g4c {
    use garnish_lang_traits::{GarnishData, TypeConstants};
    pub fn ctl_no_lower_bound<D: GarnishData>(this: &D, list: D::Size, index: D::Number) -> Result<Option<D::Size>, D::Error> {
        this.get_list_item(list, index)
    }
    pub fn ok_lower_bound<D: GarnishData>(this: &D, list: D::Size, index: D::Number) -> Result<Option<D::Size>, D::Error> {
        if index < D::Number::zero() {
            return Ok(None);
        }
        this.get_list_item(list, index)
    }
}
pub mod d1c {
    pub enum Cell {
        CharList(usize),
        Char(char),
    }
    pub fn ctl_header_counts_trimmed(out: &mut Vec<Cell>, from: &str) {
        let name = from.trim_matches(':');
        out.push(Cell::CharList(name.chars().count()));
        for c in from.chars() {
            out.push(Cell::Char(c));
        }
    }
    pub fn ok_header_counts_written(out: &mut Vec<Cell>, from: &str) {
        out.push(Cell::CharList(from.chars().count()));
        for c in from.chars() {
            out.push(Cell::Char(c));
        }
    }
}
pub mod w6 {
    pub struct S {
        pub cells: Vec<u32>,
        pub table: Vec<(u32, usize)>,
    }
    impl S {
        fn push(&mut self, v: u32) -> Result<usize, String> {
            self.cells.push(v);
            Ok(self.cells.len())
        }
        pub fn ctl_reuses_computed(&mut self, v: u32) -> Result<usize, String> {
            if let Some((_, text_index)) = self.table.iter().find(|e| e.0 == v).cloned() {
                return Ok(text_index - 1);
            }
            let i = self.push(v)?;
            Ok(i)
        }
        pub fn ok_returns_written(&mut self, v: u32) -> Result<usize, String> {
            let i = self.push(v)?;
            Ok(i)
        }
    }
}
