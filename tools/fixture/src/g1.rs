//! G1 controls: recursion must be seen as a call-graph cycle.
pub fn ctl_recursive(n: usize) -> usize {
    if n == 0 { 0 } else { 1 + ctl_recursive(n - 1) }
}

pub fn ctl_mutual_a(n: usize) -> usize {
    if n == 0 { 0 } else { ctl_mutual_b(n - 1) }
}

pub fn ctl_mutual_b(n: usize) -> usize {
    ctl_mutual_a(n)
}

pub fn ok_iterative(n: usize) -> usize {
    let mut stack = vec![n];
    let mut total = 0;
    while let Some(x) = stack.pop() {
        total += 1;
        if x > 0 {
            stack.push(x - 1);
        }
    }
    total
}
