"""A6 template-balance: the instruction template the builder emits for each Definition is stack-balanced (inductive step).

The builder's handlers are interpreted with the same abstract interpreter as the runtime, under a *builder contract*:
push_instruction records ("instr", I), pushes onto the in-line work stack / the root stack record ("sched", role, what),
storing BuildNodeState::Initialized records ("init",).  For every Definition the paths through its handler fall in two
phases - scheduling (node still Uninitialized) and emission (node Initialized).  With every operand child assumed to leave
exactly one operand (the induction hypothesis) and the per-instruction effects of spec/arity.json (which A1 proves for
the runtime), the net effect of the construct must be the one spec/templates.json gives it: +1 for values and operators,
0 for a side-effect block and for reapply (which jumps away)."""
from . import ai, rt
from .ai import TOP, variant, const, is_variant
from .facts import loc
from .hirq import last
from .report import RuleResult
from .rules_tables import spec, DEFN, variants, INSTR

GD = rt.GD


class BuilderModel(rt.Model):
    def __init__(self, F):
        super().__init__(F, trusted={}, refine_tags=False, record_events=True, cap=60000, scope_crates=("garnish_lang_compiler", "gfixture"))

    def contract(self, name, args, ts, t, interp, env):
        d, v, f, ev, np = ts
        E = variant("Err", TOP)
        if name == "push_instruction":
            ins = args[1] if len(args) > 1 else TOP
            opnd = args[2] if len(args) > 2 else TOP
            return [(variant("Ok", TOP), (d, v, f, ev + (("instr", ins[1] if is_variant(ins) else "?", "Some" if is_variant(opnd, "Some") else ("None" if is_variant(opnd, "None") else "?")),), np)), (E, ts)]
        return super().contract(name, args, ts, t, interp, env)

    def on_call(self, interp, env, ts, bi, t):
        d = t.get("def") or ""
        nm = last(d)
        args = None
        if d.endswith("parse::parser::ParseNode::get_definition"):
            fact = env.get("@def")
            if fact:
                return [(variant(fact[1]), ts, None)]
            return [(TOP, ts, None)]
        if d.endswith("parse::parser::ParseNode::get_left") or d.endswith("parse::parser::ParseNode::get_right"):
            side = "left" if nm == "get_left" else "right"
            return [(variant("Some", ("s", "child", side)), ts, None), (variant("None"), ts, None)]
        if d == "alloc::vec::Vec::<T, A>::push" and t.get("gargs") and t["gargs"][0]["txt"] == "usize":
            args = [interp.operand(a, env) for a in t["args"]]
            tgt = args[0]
            what = args[1] if len(args) > 1 else TOP
            role = tgt[2] if isinstance(tgt, tuple) and len(tgt) == 3 and tgt[0] == "s" and tgt[1] == "vec" else "?"
            dd, v, f, ev, np = ts
            e = ("sched", role, what)
            if ev and ev[-1] == e:
                return [(("t", ()), ts, None)]  # a loop scheduling one entry per list element: one event stands for all
            return [(("t", ()), (dd, v, f, ev + (e,), np), None)]
        if d == "alloc::vec::Vec::<T, A>::push" and t.get("gargs") and "ConditionItem" in t["gargs"][0]["txt"]:
            dd, v, f, ev, np = ts
            return [(("t", ()), (dd, v, f, ev + (("cond_item",),), np), None)]
        if d.startswith("core::option::Option::<T>::ok_or") and t["args"]:
            a0 = interp.operand(t["args"][0], env)
            if is_variant(a0, "Some"):
                return [(variant("Ok", a0[2][0] if a0[2] else TOP), ts, None)]
            if is_variant(a0, "None"):
                return [(variant("Err", TOP), ts, None)]
        return super().on_call(interp, env, ts, bi, t)


def _entry_args(f):
    """Symbolic arguments for handle_parse_node: the two work stacks and the node index by parameter name."""
    out = []
    for p in f.get("params", []):
        n = p.get("name")
        if n == "stack":
            out.append(("s", "vec", "stack"))
        elif n == "root_stack":
            out.append(("s", "vec", "root_stack"))
        elif n == "node_index":
            out.append(("s", "node", "self"))
        else:
            out.append(TOP)
    return out


def rule_A6(ctx):
    F = ctx.F
    r = RuleResult("A6", "template-balance: each Definition's emitted template leaves exactly the operands its kind promises (inductive step over the builder's handlers, with A1's per-instruction effects)")
    sp = spec("templates.json")
    ar = spec("arity.json")["functions"]
    from .rules_tables import runtime_dispatch_table, dispatch_matches

    rt_table = runtime_dispatch_table(F, r)  # Instruction variant -> ({fn paths}, loc)
    ms = [x for x in dispatch_matches(F, DEFN, ["garnish_lang_compiler"], 0.8) if "::build::" in x[0]["path"]]
    if not ms:
        r.anchor_missing("handle_parse_node dispatch", "not found")
        return r
    hf = ms[0][0]
    model = BuilderModel(F)

    # effect of one instruction on the operand stack, from spec/arity.json through the runtime dispatch table
    def effects(instr):
        key = INSTR + "::" + instr
        if key not in rt_table:
            return None
        fns = [last(p) for p in rt_table[key][0]]
        outs = []
        for fn in fns:
            rows = ar.get(fn)
            if rows == "n-ary":
                return "n-ary"
            for o in rows or []:
                outs.append((o["d"], o["jump"], o.get("v", 0)))
        return outs

    defs = [last(v) for v in variants(F, DEFN)]
    r.floor("Definition variants", len(defs), 69)
    for D in defs:
        want = sp["definitions"].get(D)
        if want is None:
            r.finding(hf["path"], "no-template-spec:" + D, "-", "Definition::%s has no row in spec/templates.json" % D)
            continue
        if want.get("skip"):
            r.examine((D, "skip"), False)
            r.info.append("%s: %s" % (D, want["skip"]))
            continue
        try:
            outs = model.summary(hf["path"], _entry_args(hf), 0, (("@def", ("vn", D)),))
        except (ai.StateCapExceeded, rt.Unmodelled) as e:
            r.finding(hf["path"], "uninterpretable:" + D, "-", "cannot interpret the handler of %s (%s): failing closed" % (D, e))
            continue
        sched_paths = set()
        emit_paths = set()
        for rv, ts in outs:
            if is_variant(rv, "Err"):
                continue
            ev = ts[3]
            inline = tuple(e[2][2] for e in ev if e[0] == "sched" and e[1] == "stack" and isinstance(e[2], tuple) and e[2][:2] == ("s", "child"))
            roots = tuple(e[2][2] for e in ev if e[0] == "sched" and e[1] == "root_stack" and isinstance(e[2], tuple) and e[2][:2] == ("s", "child"))
            resched = any(e[0] == "sched" and e[1] == "stack" and e[2] == ("s", "node", "self") for e in ev)
            instrs = tuple((e[1], e[2]) for e in ev if e[0] == "instr")
            under_else = any(e[0] == "cond_item" for e in ev)
            if resched or inline:
                sched_paths.add((inline, roots, instrs))
            else:
                emit_paths.add((roots, instrs, under_else))
        # the construct's straight-line effect: scheduling-phase instructions, the in-line children (+1 each), emission-phase instructions
        n_checked = 0
        if not sched_paths:
            sched_paths = {((), (), ())}
        for inline, sroots, sinstrs in sorted(sched_paths):
            kids = len(inline)
            cn = want.get("child_net", {})
            kid_net = sum(cn.get(side, 1) for side in inline)
            for eroots, einstrs, under_else in sorted(emit_paths) or [((), (), False)]:
                seq = list(sinstrs) + list(einstrs)
                total_fall = kid_net
                total_jump = None
                v_delta = 0
                bad = None
                for ins, opnd in seq:
                    eff = effects(ins)
                    if eff is None:
                        bad = "instruction %s has no runtime dispatch" % ins
                        break
                    if eff == "n-ary":
                        if want.get("makelist_count"):
                            total_fall += 1 - want["makelist_count"]
                            continue
                        bad = "n-ary"
                        break
                    falls = [e for e in eff if e[1] in ("none", "any")]
                    jumps = [e for e in eff if e[1] == "some" and not isinstance(e[0], list)]
                    if falls:
                        if jumps and total_jump is None and ins in ("And", "Or", "JumpIfTrue", "JumpIfFalse"):
                            total_jump = total_fall + jumps[0][0]
                        total_fall += falls[0][0]
                        v_delta += falls[0][2]
                    elif jumps:
                        # unconditional transfer (JumpTo, Apply of an expression, EndExpression): straight-line accounting stops here
                        total_fall += jumps[0][0]
                        v_delta += jumps[0][2]
                if bad == "n-ary":
                    continue
                n_checked += 1
                r.examine((D, inline, tuple(seq)), True, {"definition": D, "inline_children": list(inline), "out_of_line": list(sroots + eroots), "instructions": [i for i, _o in seq], "net_fallthrough": total_fall, "net_on_jump_edge": total_jump} if n_checked == 1 else None)
                if bad:
                    r.finding(hf["path"], "template:%s:%s" % (D, bad), "-", "%s: %s" % (D, bad))
                    continue
                # children that are optional (get_left / get_right returned None) reduce the count; only complete templates are judged
                need = want.get("children")
                if need is not None and kids != need:
                    continue
                want_net = want["net"]
                if under_else and "net_under_else_chain" in want:
                    want_net = want["net_under_else_chain"]
                    total_jump = None  # the arm is emitted by the else-chain's root, which re-joins it
                if total_fall != want_net:
                    r.finding(hf["path"], "template-net:%s:%s" % (D, "+".join(i for i, _o in seq) or "none"), "-",
                              "%s with %d in-line operand(s) and instructions [%s] leaves %+d operand(s) on the fall-through path; its kind requires %+d%s" % (D, kids, ", ".join(i for i, _o in seq), total_fall, want_net, " (under an else-chain)" if under_else else ""))
                if total_jump is not None:
                    # the jump edge continues in the out-of-line root: its child (+1) and its end instructions
                    extra = want.get("jump_edge_extra", 1)
                    if total_jump + extra != want["net"]:
                        r.finding(hf["path"], "template-jump-edge:%s" % D, "-", "%s: on the jump edge the operand depth is %+d before the out-of-line root adds %+d; the two arms would join at different depths" % (D, total_jump, extra))
                if v_delta != want.get("v", 0):
                    r.finding(hf["path"], "template-value-stack:%s" % D, "-", "%s changes the `$` stack by %+d, expected %+d" % (D, v_delta, want.get("v", 0)))
        if n_checked == 0 and not want.get("allow_unchecked"):
            r.finding(hf["path"], "template-unchecked:" + D, "-", "no complete template could be derived for %s" % D)
    r.analysed["abstract_states"] = model.states
    return r


# --------------------------------------------------------------------------------------- T9p


def rule_T9p(ctx):
    """Operand order across the builder/runtime boundary: a binary construct is emitted left operand first (so the right
    operand is popped first and the left second, which is how every two-operand instruction function names them, A5),
    except the reviewed constructs that are emitted right first and whose runtime side reads its pops the other way."""
    F = ctx.F
    r = RuleResult("T9p", "operand-order: binary constructs are emitted left-then-right; the right-first exceptions (pair, apply-to) have a runtime reader that takes its first pop as the left value")
    sp = spec("templates.json")
    ms = [x for x in __import__("gcheck.rules_tables", fromlist=["dispatch_matches"]).dispatch_matches(F, DEFN, ["garnish_lang_compiler"], 0.8) if "::build::" in x[0]["path"]]
    if not ms:
        r.anchor_missing("handle_parse_node dispatch", "not found")
        return r
    hf = ms[0][0]
    model = BuilderModel(F)
    right_first = sp.get("right_first", {})
    n = 0
    for D, want in sorted(sp["definitions"].items()):
        if want.get("children") != 2 or want.get("skip") or D in ("ElseJump", "Subexpression", "ExpressionSeparator", "InfixApply"):
            continue
        try:
            outs = model.summary(hf["path"], _entry_args(hf), 0, (("@def", ("vn", D)),))
        except (ai.StateCapExceeded, rt.Unmodelled) as e:
            r.finding(hf["path"], "uninterpretable:" + D, "-", "cannot interpret the handler of %s (%s)" % (D, e))
            continue
        orders = set()
        for rv, ts in outs:
            if is_variant(rv, "Err"):
                continue
            inline = tuple(e[2][2] for e in ts[3] if e[0] == "sched" and e[1] == "stack" and isinstance(e[2], tuple) and e[2][:2] == ("s", "child"))
            if len(inline) == 2:
                # LIFO work stack: the child pushed last is emitted first
                orders.add("left-first" if inline == ("right", "left") else ("right-first" if inline == ("left", "right") else "?" + repr(inline)))
        n += 1
        r.examine((D,), True, {"definition": D, "emission_order": sorted(orders), "reviewed_right_first": D in right_first})
        want_order = "right-first" if D in right_first else "left-first"
        if orders != {want_order}:
            r.finding(hf["path"], "operand-order:%s:%s" % (D, "/".join(sorted(orders)) or "none"), "-",
                      "%s emits its operands %s; %s" % (D, "/".join(sorted(orders)) or "in no derivable order", ("it is a reviewed right-first construct (%s)" % right_first[D]) if D in right_first else "binary constructs are emitted left operand first, so that the instruction pops the right operand first and the left second"))
    r.floor("binary definitions examined", n, 20)
    # runtime side of the right-first pair constructor: the first pop becomes the pair's left
    rtm = rt.Model(F, trusted=spec("arity.json")["trusted"])
    orig = rtm.contract

    def contract(name, args, ts, t, interp, env):
        if name == "add_pair" and len(args) > 1:
            d, v, f, ev, np = ts
            return [(variant("Ok", TOP), (d, v, f, ev + (("add_pair", args[1]),), np)), (variant("Err", TOP), ts)]
        return orig(name, args, ts, t, interp, env)

    rtm.contract = contract
    mp = [p for p, f in F.fns.items() if f["crate"] == "garnish_lang_runtime" and f.get("name") == "make_pair" and f.get("vis") == "Public"]
    if not mp:
        r.anchor_missing("make_pair", "public runtime fn not found")
        return r
    outs = rtm.summary(mp[0], [TOP], 0)
    shapes = set()
    for rv, ts in outs:
        for e in ts[3]:
            if e[0] == "add_pair":
                shapes.add(e[1])
    want_shape = ("t", (("s", "pop", 1), ("s", "pop", 2)))
    r.examine(("make_pair",), True, {"fn": "make_pair", "pair_built_from": [repr(s) for s in shapes]})
    if shapes != {want_shape}:
        r.finding(mp[0], "pair-roles", loc(F.fns[mp[0]]["hir"]), "make_pair builds its pair from %s; Pair is emitted right operand first, so the first pop is the left value and the pair must be (first pop, second pop)" % sorted(map(repr, shapes)))
    return r
