//! T1 controls: a dispatch match with / without a catch-all arm.
pub enum Ctl {
    A,
    B,
    C,
}

pub fn ctl_catch_all(c: Ctl) -> u8 {
    match c {
        Ctl::A => 1,
        Ctl::B => 2,
        _ => 0,
    }
}

pub fn ctl_binding_catch_all(c: Ctl) -> u8 {
    match c {
        Ctl::A => 1,
        other => {
            let _ = other;
            0
        }
    }
}

pub fn ok_exhaustive(c: Ctl) -> u8 {
    match c {
        Ctl::A => 1,
        Ctl::B | Ctl::C => 2,
    }
}
