//! W3 controls: an accumulator that a `start` call must always reset.
pub struct CtlStore {
    pub pending_text: Option<String>,
    pub pending_bytes: Option<Vec<u8>>,
}

impl CtlStore {
    /// keeps whatever an aborted earlier accumulation left behind
    pub fn ctl_start_keeps_residue(&mut self) {
        if self.pending_text.is_none() {
            self.pending_text = Some(String::new());
        }
    }

    pub fn ok_start_resets(&mut self) {
        self.pending_bytes = Some(Vec::new());
    }

    pub fn push(&mut self, c: char) {
        if let Some(t) = &mut self.pending_text {
            t.push(c)
        }
    }
}
