"""Call-graph rules: G1 no-recursion, G2 panic-free (inventory against a reviewed allow-list)."""
import re

from .facts import loc
from . import cg, mirq
from .hirq import last
from .report import RuleResult
from .rules_numeric import allow

# K1: explicit panics -----------------------------------------------------------------------
K1_PREFIX = ("core::panicking::", "std::rt::begin_panic", "std::panicking::", "core::option::unwrap_failed",
             "core::option::expect_failed", "core::result::unwrap_failed")
K1_METHODS = {
    "core::option::Option::<T>::unwrap", "core::option::Option::<T>::expect",
    "core::result::Result::<T, E>::unwrap", "core::result::Result::<T, E>::expect",
    "core::result::Result::<T, E>::unwrap_err", "core::result::Result::<T, E>::expect_err",
}
# K3: indexing through the Index traits
K3 = ("core::ops::index::Index::index", "core::ops::index::IndexMut::index_mut")
# K4: other std functions that panic on bad arguments (enumerated; everything else in std is assumed
# panic-free except on allocation failure)
K4_NAMES = {
    "alloc::vec::Vec::<T, A>::remove", "alloc::vec::Vec::<T, A>::insert", "alloc::vec::Vec::<T, A>::swap_remove",
    "alloc::vec::Vec::<T, A>::drain", "alloc::vec::Vec::<T, A>::split_off", "alloc::vec::Vec::<T, A>::splice",
    "alloc::vec::Vec::<T, A>::extend_from_within", "alloc::vec::Vec::<T, A>::truncate_front",
    "alloc::string::String::remove", "alloc::string::String::insert", "alloc::string::String::insert_str",
    "alloc::string::String::drain", "alloc::string::String::split_off", "alloc::string::String::replace_range",
    "alloc::string::String::truncate",
    "core::slice::<impl [T]>::split_at", "core::slice::<impl [T]>::split_at_mut", "core::slice::<impl [T]>::copy_from_slice",
    "core::slice::<impl [T]>::clone_from_slice", "core::slice::<impl [T]>::swap", "core::slice::<impl [T]>::chunks",
    "core::slice::<impl [T]>::chunks_exact", "core::slice::<impl [T]>::windows", "core::slice::<impl [T]>::rotate_left",
    "core::slice::<impl [T]>::rotate_right", "core::slice::<impl [T]>::copy_within", "core::slice::<impl [T]>::select_nth_unstable",
    "core::str::<impl str>::split_at", "core::str::<impl str>::split_at_mut",
    "core::iter::traits::iterator::Iterator::step_by",
    "core::char::methods::<impl char>::to_digit", "core::char::methods::<impl char>::from_digit", "core::char::methods::<impl char>::is_digit",
    "core::char::from_digit",
    "core::cell::RefCell::<T>::borrow", "core::cell::RefCell::<T>::borrow_mut",
    "core::mem::maybe_uninit::MaybeUninit::<T>::assume_init",
    # capacity requests: panic with "capacity overflow" when the byte size exceeds isize::MAX (a length taken from a value,
    # e.g. a saturated range length, does that; a length of an existing collection cannot)
    "alloc::vec::Vec::<T>::with_capacity", "alloc::vec::Vec::<T, A>::with_capacity_in", "alloc::vec::Vec::<T, A>::reserve", "alloc::vec::Vec::<T, A>::reserve_exact",
    "alloc::vec::from_elem", "alloc::string::String::with_capacity", "alloc::string::String::reserve", "alloc::vec::Vec::<T, A>::resize",
    "alloc::str::<impl str>::repeat", "alloc::slice::<impl [T]>::repeat", "std::collections::hash::map::HashMap::<K, V>::with_capacity",
    "alloc::collections::vec_deque::VecDeque::<T>::with_capacity",
}
K4_INT_METHODS = {"pow", "abs", "from_str_radix", "div_euclid", "rem_euclid", "isqrt", "ilog", "ilog2", "ilog10", "next_power_of_two",
                  "abs_diff_", "strict_add", "strict_sub", "strict_mul"}
ASSERT_KINDS = {"BoundsCheck", "Overflow", "OverflowNeg", "DivisionByZero", "RemainderByZero"}
K5_OPS = {"core::ops::arith::Sub::sub", "core::ops::arith::SubAssign::sub_assign"}


def _short(d):
    d = re.sub(r"<impl ([^>]*)>", r"\1", d)
    parts = d.split("::")
    return "::".join(parts[-2:]) if len(parts) >= 2 else d


def macro_of(t):
    ex = t.get("exp")
    if not ex:
        return None
    for m in ex:
        if m in ("unreachable", "todo", "unimplemented", "panic", "assert", "assert_eq", "assert_ne", "debug_assert", "debug_assert_eq", "debug_assert_ne"):
            return m
    return None


INTS = ("i8", "i16", "i32", "i64", "i128", "isize", "u8", "u16", "u32", "u64", "u128", "usize")
SIGNED = ("i8", "i16", "i32", "i64", "i128", "isize", "f32", "f64")


def _int_self(t):
    st = t["gargs"][0]["txt"].lstrip("&").replace("mut ", "") if t.get("gargs") else ""
    return t["gargs"][0]["txt"] if st in INTS else None


def _const_nonzero_divisor(block, t):
    c = mirq.op_local(t["cond"])
    for s in block["stmts"]:
        if s["k"] == "Assign" and not s["place"]["p"] and s["place"]["l"] == c and s["rv"]["k"] == "BinaryOp" and s["rv"]["op"] == "Eq":
            for side in ("l", "r"):
                k = s["rv"][side].get("const")
                if k and k.get("int") not in (None, 0):
                    return True
    return False


def _signed_origin(mir, block, asg):
    """Does an operand of the checked arithmetic in `block` come from a signed/float -> unsigned `as` cast?"""
    for s in reversed(block["stmts"]):
        if s["k"] == "Assign" and s["rv"]["k"] == "BinaryOp" and s["rv"]["op"].endswith("WithOverflow"):
            for side in ("l", "r"):
                l = mirq.op_local(s["rv"][side])
                if l is None:
                    continue
                for (_b, _i, node, _l) in mirq.origins(mir, l, asg):
                    if node.get("k") == "Cast" and node.get("from") in SIGNED and node.get("cast") in ("IntToInt", "FloatToInt"):
                        return True
            return False
    return False


def sites_in(f):
    """Panic-capable sites of one function: list of (kind_detail, where, text)."""
    out = []
    mir = f["mir"]
    reach = mirq.reachable_blocks(mir)
    asg = mirq.assignments(mir)
    for bi, b in enumerate(mir["blocks"]):
        if bi not in reach or b["cleanup"]:
            continue
        t = b["term"]
        if t["k"] == "Assert":
            if t["assert"] in ASSERT_KINDS:
                det = t["assert"] + ("(%s)" % t["detail"] if t["detail"] else "")
                if t["assert"] in ("DivisionByZero", "RemainderByZero") and _const_nonzero_divisor(b, t):
                    continue
                if t["assert"] == "Overflow" and t["detail"].split(":")[0] in ("Add", "Mul") and _signed_origin(mir, b, asg):
                    det = det[:-1] + "<-signed)"
                out.append(("K2:" + det, loc(t), "MIR assert " + det))
        elif t["k"] == "Call":
            d = t.get("resolved") or t.get("def")
            dd = t.get("def")
            if not d:
                continue
            if dd.startswith(K1_PREFIX) or d.startswith(K1_PREFIX):
                m = macro_of(t)
                name = "macro:" + m if m else _short(dd)
                # the panic call inside unwrap's own body etc. is not in workspace MIR; this is an explicit panic here
                out.append(("K1:" + name, loc(t), "explicit panic `%s`" % name))
            elif dd in K1_METHODS:
                out.append(("K1:" + _short(dd).replace("::<T, E>", "").replace("::<T>", ""), loc(t), "`%s` panics on None/Err" % last(dd)))
            elif dd in K3:
                self_ty = t["gargs"][0]["txt"] if t.get("gargs") else "?"
                idx_ty = t["gargs"][1]["txt"] if len(t.get("gargs", [])) > 1 else "?"
                base = re.sub(r"<.*", "", self_ty.split("::")[-1] if "<" not in self_ty.split("::")[-1] else self_ty)
                base = re.sub(r"<.*", "", self_ty).split("::")[-1]
                idx = re.sub(r"<.*", "", idx_ty).split("::")[-1]
                out.append(("K3:index:%s[%s]" % (base, idx), loc(t), "indexing %s with %s panics out of range" % (self_ty, idx_ty)))
            elif dd in K4_NAMES or d in K4_NAMES:
                out.append(("K4:" + _short(dd), loc(t), "`%s` panics on an out-of-range argument" % dd))
            elif dd.startswith("core::num::<impl ") and last(dd) in K4_INT_METHODS:
                out.append(("K4:" + _short(dd), loc(t), "`%s` panics on overflow / invalid argument" % dd))
            elif dd.startswith(("core::ops::arith::", "core::ops::bit::Sh")) and t.get("resolved") and _int_self(t):
                out.append(("K6:%s:%s" % (last(dd), _int_self(t)), loc(t), "`%s` on %s through the std operator impl panics on overflow" % (last(dd), _int_self(t))))
            elif dd in K5_OPS and t.get("resolved") is None:
                self_ty = t["gargs"][0]["txt"] if t.get("gargs") else "?"
                if "GarnishData>::Size" in self_ty or "GarnishData>::Number" not in self_ty:
                    out.append(("K5:%s:%s" % (last(dd), self_ty.split("::")[-1].rstrip(">")), loc(t),
                                "`%s` on %s is usize subtraction in both shipped impls: underflow panics" % (last(dd), self_ty)))
    return out


def inventory(ctx, roots, tag):
    key = "inv:" + tag
    if key in ctx.memo:
        return ctx.memo[key]
    g = cg.get(ctx)
    reach = g.reachable(roots)
    inv = {}
    for p in sorted(reach):
        f = ctx.F.fns[p]
        for kd, where, text in sites_in(f):
            inv.setdefault(p, {}).setdefault(kd, []).append((where, text))
    ctx.memo[key] = (reach, inv, dict(g.parent))
    return ctx.memo[key]


def _g2(ctx, rid, roots, tag, title):
    F = ctx.F
    r = RuleResult(rid, title)
    g = cg.get(ctx)
    reach, inv, parent = inventory(ctx, roots, tag)
    al = allow("panic_sites.json")
    classes = al.get("_classes", {})
    r.analysed["entry_points"] = roots
    r.analysed["reachable_functions"] = len(reach)
    r.analysed["functions_with_sites"] = len(inv)
    nsites = 0
    kinds = {}
    guards_seen = {}
    g.parent = parent
    stale = [k for k in al if not k.startswith("_") and k not in F.fns]
    borrowed = {}
    rev = {}
    for a, bs in g.edges.items():
        for b in bs:
            rev.setdefault(b, set()).add(a)

    def neighbours(p):
        """Direct callers and callees; a closure counts as part of the function it is written in."""
        out = set(g.edges.get(p, ())) | rev.get(p, set())
        for q in list(out):
            if "::{closure" in q:
                out |= set(g.edges.get(q, ())) | rev.get(q, set())
        out.discard(p)
        return out

    def family(kd):
        if kd == "K2:BoundsCheck" or re.match(r"K3:index:(Vec|\[T\]|VecDeque)\[usize\]$", kd):
            return "elem-index"
        m = re.match(r"K3:index:(str|String)\[Range", kd)
        if m:
            return "str-slice"
        if re.match(r"K3:index:(Vec|\[T\])\[Range", kd):
            return "range-slice"
        return kd

    def guard_ok(gname, q):
        gk = ("guard", gname, q if gname == "range-end-clamped" else "")
        if gk not in ctx.memo:
            ctx.memo[gk] = GUARDS[gname](ctx, F.fns[q]) if gname in GUARDS and q in F.fns else (False, "unknown guard " + gname)
        return ctx.memo[gk]

    for p, kds in sorted(inv.items()):
        fa = al.get(p, {})
        if not fa and stale:
            # a renamed function keeps its reviewed allowances: an orphaned entry of the same module whose sites are
            # exactly this function's sites (kind by kind, count by count) is taken to be the same function
            sig = {kd: len(ss) for kd, ss in kds.items() if kd not in classes}
            mod = p.rsplit("::", 1)[0]
            cands = [k for k in stale if k.rsplit("::", 1)[0] == mod and {kd: e["count"] for kd, e in al[k].items()} == sig]
            if len(cands) == 1:
                fa = al[cands[0]]
                r.info.append("function %s has no allow-list entry; using the orphaned entry of %s (same module, identical site signature): treated as a rename" % (p, cands[0]))
        for kd, sites in sorted(kds.items()):
            nsites += len(sites)
            kinds[kd.split(":")[0]] = kinds.get(kd.split(":")[0], 0) + len(sites)
            entry = fa.get(kd)
            allowed = entry["count"] if entry else 0
            if kd in classes:
                entry = {"count": len(sites), "reason": classes[kd]}
                allowed = len(sites)
            void = None
            if entry and entry.get("requires"):
                for gname in entry["requires"]:
                    gk = ("guard", gname, p if gname == "range-end-clamped" else "")
                    if gk not in ctx.memo:
                        ctx.memo[gk] = GUARDS[gname](ctx, F.fns[p]) if gname in GUARDS else (False, "unknown guard " + gname)
                    ok, gwhy = ctx.memo[gk]
                    guards_seen[gname] = guards_seen.get(gname, 0) + 1
                    if not ok:
                        void = "%s: %s" % (gname, gwhy)
                if void:
                    allowed = 0
            for i, (where, text) in enumerate(sites):
                r.examine((p, kd, i), kd not in classes, {"fn": p, "site": kd, "where": where, "allowed": bool(entry)} if i == 0 else None)
            if len(sites) > allowed and not void:
                # moved / respelled sites: the part of a reviewed allowance that the tree no longer uses may cover sites of
                # the same *family* (element index, str slice, range slice - `v[i]` on a Vec or on the slice it derefs to,
                # `&s[0..i]` or `&s[..i]`) in the same function or in a function directly connected to it in the call graph
                # (a helper extracted from its caller, a callee inlined into it).  The donor's guards must hold and every
                # allowance is spent once, so a site that is added - rather than moved - still exceeds the reviewed total.
                need = len(sites) - allowed
                fam = family(kd)
                for q in [p] + sorted(neighbours(p)):
                    for kd2, qe in sorted(al.get(q, {}).items() if q in al else []):
                        if need <= 0 or family(kd2) != fam or (q == p and kd2 == kd):
                            continue
                        if any(not guard_ok(gn, q)[0] for gn in qe.get("requires", [])):
                            continue
                        spare = qe["count"] - len(inv.get(q, {}).get(kd2, [])) - borrowed.get((q, kd2), 0)
                        if spare > 0:
                            take = min(spare, need)
                            borrowed[(q, kd2)] = borrowed.get((q, kd2), 0) + take
                            need -= take
                            allowed += take
                            r.info.append("moved site(s): %d x %s in %s covered by the unused allowance %s of %s (%s)" % (take, kd, p, kd2, "the same function" if q == p else "its call-graph neighbour " + q, qe["reason"][:80]))
            if len(sites) > allowed:
                path = g.path_to(p, set(roots))
                r.finding(p, "%s|n=%d" % (kd, len(sites)), sites[0][0],
                          "%d panic-capable site(s) of kind %s (%s) at %s; reviewed allow-list covers %d%s%s" % (
                              len(sites), kd, sites[0][1], ", ".join(w for w, _t in sites), allowed,
                              (" (" + entry["reason"] + ")") if entry else "",
                              ("; the allowance is VOID because its guard failed - " + void) if void else ""),
                          path=["call path: " + " -> ".join(path)])
    r.analysed["sites"] = nsites
    r.analysed["by_kind"] = kinds
    r.analysed["guards_evaluated"] = {k: {"entries": v, "holds": bool(ctx.memo.get(("guard", k, ""), (True,))[0])} for k, v in guards_seen.items()}
    # stale allow entries are information only
    for p, fa in al.items():
        if p.startswith("_"):
            continue
        if p in reach:
            for kd, entry in fa.items():
                have = len(inv.get(p, {}).get(kd, []))
                if have < entry["count"]:
                    r.info.append("allow-list entry %s %s allows %d, tree has %d" % (p, kd, entry["count"], have))
    return r


def rule_G2c(ctx):
    comp, _run = cg.entry_sets(ctx.F)
    r = _g2(ctx, "G2c", comp, "compile", "panic-free (compile set): every panic-capable site reachable from lex / Lexer::next / parse / build is in the reviewed allow-list")
    r.floor("compile entry points", len(comp), 4)
    r.floor("functions reachable from the compile entry points", r.analysed["reachable_functions"], 100)
    _controls(ctx, r)
    return r


def rule_G2r(ctx):
    _comp, run = cg.entry_sets(ctx.F)
    r = _g2(ctx, "G2r", run, "run", "panic-free (run set): every panic-capable site reachable from execute_current_instruction / the 55 instruction functions (both data impls, SimpleNumber) is in the reviewed allow-list")
    r.floor("run entry points", len(run), 56)
    r.floor("functions reachable from the run entry points", r.analysed["reachable_functions"], 250)
    _controls(ctx, r)
    return r


def _controls(ctx, r):
    for f in ctx.F.fns_in("gfixture::g2::"):
        if f["kind"] == "Closure":
            continue
        hit = bool(sites_in(f))
        if f["name"].startswith("ctl_"):
            r.control(f["name"], hit)
        elif f["name"].startswith("ok_"):
            r.neg_control(f["name"], not hit)


def _g1(ctx, rid, roots, title):
    F = ctx.F
    r = RuleResult(rid, title)
    g = cg.get(ctx)
    reach = g.reachable(roots)
    al = allow("recursion.json")
    comps = g.sccs(reach)
    r.analysed["reachable_functions"] = len(reach)
    r.analysed["cyclic_components"] = len(comps)
    for p in reach:
        r.examine(p, len(g.edges.get(p, ())) > 0)
    from . import report as _report
    known_fns = set()
    for prop_known in (_report.all_known() if hasattr(_report, "all_known") else []):
        parts = prop_known.split("|")
        if len(parts) >= 3 and parts[0] == rid:
            known_fns.add(parts[1])
    for comp in comps:
        # the representative of a cycle is a member already named by a recorded finding, if any (so that a helper
        # extracted from / added to a known cycle does not rename the finding), else the first member
        rep = ([m for m in comp if m in known_fns] or comp)[0]
        entry = al.get(rep)
        path = g.path_to(rep, set(roots))
        if entry and sorted(entry.get("members", comp)) == comp:
            r.info.append("allowed recursion %s: %s" % (rep, entry["reason"]))
            continue
        kind, why = recursion_bound(F, comp)
        r.finding(rep, "recursion:" + kind, loc(F.fns[rep]["mir"]["blocks"][0]["term"]) if F.fns[rep]["mir"]["blocks"] else "-",
                  "recursive call cycle {%s} reachable from the entry set: %s" % (", ".join(comp), why),
                  path=["call path: " + " -> ".join(path)])
    return r


def recursion_bound(F, comp):
    """('depth-bounded' | 'unbounded', explanation).  depth-bounded: some member takes an integer parameter that it tests
    against a limit with an early error / return, and every call from inside the cycle back to that member passes that
    parameter plus a positive constant - the recursion depth is then at most the limit.  Anything else is bounded only by
    the data."""
    from .origin import Body
    members = [F.fns[p] for p in comp if p in F.fns and F.fns[p].get("hir")]
    for f in members:
        params = []
        for i, prm in enumerate(f.get("params", [])):
            for n in _walk(prm):
                if n.get("k") == "Binding" and (n.get("ty") or "") in ("usize", "u32", "u64", "i32", "u16", "u8"):
                    params.append((i, n["lid"], n.get("name")))
        for pi, lid, pname in params:
            # early exit when the parameter reaches a limit
            guarded = False
            for n in _walk(f["hir"]):
                if n.get("k") == "If":
                    c = _hq.peel(n["cond"])
                    if c.get("k") == "Binary" and c.get("op") in (">=", ">", "==") and _hq.local_of(c["l"]) == lid and _hq.lit_value(c["r"]) is None:
                        # the branch leaves the function unconditionally: its last statement / value is a `return` or an `Err(..)?`
                        th = n.get("then") or {}
                        blk = th.get("b") if th.get("k") == "Block" else None
                        tail = None
                        if blk is not None:
                            tail = blk.get("expr") or ((blk["stmts"][-1].get("e") if blk["stmts"] else None))
                        tl = tail
                        while isinstance(tl, dict) and tl.get("k") in ("DropTemps", "Use"):
                            tl = tl["e"]
                        leaves = isinstance(tl, dict) and (tl.get("k") == "Ret" or (tl.get("k") == "Match" and tl.get("src") == "TryDesugar" and (_hq.callee(tl["scrut"]["args"][0]) if tl["scrut"].get("k") == "Call" and tl["scrut"].get("args") else "" or "").endswith("::Err")))
                        if leaves:
                            guarded = True
            if not guarded:
                continue
            # every call back to f from inside the cycle passes param + k
            bad = []
            n_calls = 0
            for g in members:
                for d, c in _hq.calls_in(g["hir"]):
                    if d != f["path"]:
                        continue
                    n_calls += 1
                    args = _hq.call_args(c)
                    a = _hq.peel(args[pi]) if pi < len(args) else {}
                    ok = False
                    if a.get("k") == "Binary" and a.get("op") == "+":
                        lit = _hq.lit_value(a["r"]) if _hq.lit_value(a["r"]) is not None else _hq.lit_value(a["l"])
                        try:
                            ok = lit is not None and int(lit) >= 1
                        except (TypeError, ValueError):
                            ok = False
                        if g is f and ok:
                            ok = lid in (_hq.local_of(a["l"]), _hq.local_of(a["r"]))
                    if not ok:
                        bad.append(loc(c))
            if n_calls and not bad:
                return "depth-bounded", "depth is bounded by the limit `%s` is tested against in %s (every recursive call passes %s + k), the frames may still exhaust the stack before the limit is reached" % (pname, last(f["path"]), pname)
            if n_calls and bad:
                return "unbounded", "`%s` of %s is tested against a limit, but the recursive call(s) at %s do not pass %s + k: the limit does not bound the recursion, depth is bounded only by the data" % (pname, last(f["path"]), ", ".join(bad), pname)
    return "unbounded", "depth is bounded only by the data / input"


def rule_G1c(ctx):
    comp, _ = cg.entry_sets(ctx.F)
    r = _g1(ctx, "G1c", comp, "no-recursion (compile set): the call graph reachable from lex / parse / build is acyclic (explicit work stacks)")
    r.floor("functions reachable from the compile entry points", r.analysed["reachable_functions"], 100)
    # control: a recursive helper in the fixture must be seen as a cycle
    g = cg.get(ctx)
    fx = set(f["path"] for f in ctx.F.fns_in("gfixture::g1::"))
    cyc = g.sccs(fx)
    names = set(last(p) for c in cyc for p in c)
    r.control("ctl_recursive", "ctl_recursive" in names)
    r.control("ctl_mutual_a", "ctl_mutual_a" in names)
    r.neg_control("ok_iterative", "ok_iterative" not in names)
    return r


def rule_G1r(ctx):
    _, run = cg.entry_sets(ctx.F)
    r = _g1(ctx, "G1r", run, "no-unbounded-recursion (run set): every recursive cycle reachable from the instruction functions is allow-listed with its depth bound")
    r.floor("functions reachable from the run entry points", r.analysed["reachable_functions"], 250)
    return r


# --------------------------------------------------------------------------------------- guards
# An allow-list entry may name guards: mechanisms its stated reason relies on.  A guard is re-derived from the current
# tree on every run; when it no longer holds the allowance is void and the sites are reported.

from . import hirq as _hq  # noqa: E402
from .facts import walk as _walk  # noqa: E402
from .origin import Body as _Body  # noqa: E402


def _rel_eval(body, e, env, rel):
    """Three-valued evaluation of a boolean HIR expression about indices versus a length.
    env: local id -> ("sym", subject) | ("len",) | ("closure", node);  rel: subject -> "lt" | "eq" | "gt" (index relative to the length).
    Returns True / False / None (unknown)."""
    e = _hq.peel(e)
    k = e.get("k")
    def val(x):
        x = _hq.peel(x)
        if x.get("k") == "Path" and x.get("res") == "local":
            if x["lid"] in env:
                return env[x["lid"]]
            for d in body.defs.get(x["lid"], []):
                if isinstance(d, dict):
                    if d.get("k") == "Param" and (d.get("ty") or "") == "usize":
                        return ("sym", "root")
                    if d.get("k") == "Closure":
                        return ("closure", d)
                    v = val(d)
                    if v:
                        return v
            return None
        if x.get("k") == "MethodCall" and x.get("m") == "len":
            return ("len",)
        if x.get("k") == "MethodCall" and x.get("m") in ("get_left", "get_right"):
            return ("sym", x["m"])
        if x.get("k") == "Closure":
            return ("closure", x)
        return None
    if k == "Lit" and (e.get("lit") or {}).get("t") == "bool":
        return bool(e["lit"]["v"])
    if k == "Unary" and e.get("op") == "!":
        v = _rel_eval(body, e["e"], env, rel)
        return None if v is None else (not v)
    if k == "Binary" and e.get("op") in ("||", "&&"):
        a, b = _rel_eval(body, e["l"], env, rel), _rel_eval(body, e["r"], env, rel)
        if e["op"] == "||":
            return True if (a is True or b is True) else (False if (a is False and b is False) else None)
        return False if (a is False or b is False) else (True if (a is True and b is True) else None)
    if k == "Binary" and e.get("op") in ("<", "<=", ">", ">=", "==", "!="):
        l, r = val(e["l"]), val(e["r"])
        op = e["op"]
        if l and r and l[0] == "len" and r[0] == "sym":
            l, r = r, l
            op = {"<": ">", "<=": ">=", ">": "<", ">=": "<=", "==": "==", "!=": "!="}[op]
        if l and r and l[0] == "sym" and r[0] == "len":
            o = rel.get(l[1], "lt")
            return {"<": o == "lt", "<=": o in ("lt", "eq"), ">": o == "gt", ">=": o in ("gt", "eq"), "==": o == "eq", "!=": o != "eq"}[op]
        return None
    if k == "Call":
        fv = val(e["f"]) if e["f"].get("k") == "Path" and e["f"].get("res") == "local" else None
        if fv and fv[0] == "closure":
            c = fv[1]
            env2 = dict(env)
            for prm, a in zip(c.get("params") or [], e.get("args") or []):
                if prm.get("k") == "Binding":
                    env2[prm["lid"]] = val(a)
            return _rel_eval(body, c["body"], env2, rel)
        return None
    if k == "MethodCall":
        m = e.get("m")
        if m == "any" and e.get("args"):
            c = val(e["args"][0])
            if c and c[0] == "closure":
                return _rel_eval(body, c[1]["body"], env, rel)      # existential: the witness element
            return None
        if m in ("map_or", "is_some_and", "is_none_or") and e.get("args"):
            recv = val(e["recv"])
            c = val(e["args"][-1])
            if recv and recv[0] == "sym" and c and c[0] == "closure":
                env2 = dict(env)
                ps = c[1].get("params") or []
                if ps and ps[0].get("k") == "Binding":
                    env2[ps[0]["lid"]] = recv
                return _rel_eval(body, c[1]["body"], env2, rel)    # the link is present (Some)
            return None
    if k == "Block" and e["b"].get("expr") and not e["b"]["stmts"]:
        return _rel_eval(body, e["b"]["expr"], env, rel)
    return None


def guard_build_links_validated(ctx, f):
    """build() rejects a tree whose root or child links leave the node list before any handler runs."""
    F = ctx.F
    cands = [g for g in F.fns.values() if g["crate"] == f["crate"] and g.get("name") == "build" and g.get("vis") == "Public" and "::build::" in g["path"]]
    if not cands:
        return False, "public build() not found"
    b0 = cands[0]
    # (a) the walk that validates the tree shape (rule G5) looks every followed link up with a checked accessor and returns Err
    #     for a missing node: every link reachable from the root is then in range before a handler indexes with it
    from .rules_build import _tree_walk_loops
    for lp in _tree_walk_loops(b0):
        unchecked = [n for n in _walk(lp) if n.get("k") == "Index"]
        checked = [n for n in _walk(lp) if n.get("k") == "MethodCall" and n.get("m") in ("get", "get_mut")]
        if checked and not unchecked:
            return True, "build() walks every link reachable from the root with checked lookups and returns Err for a missing node (%s)" % loc(lp)
    search = [b0]
    for d, _n in _hq.calls_in(b0["hir"]):
        g = F.fns.get(d)
        if g is not None and g["crate"] == b0["crate"] and g["kind"] != "Closure" and g not in search and not g.get("name", "").startswith("handle_"):
            search.append(g)
    for b in search:
      body = _Body(b)
      for n in _walk(b["hir"]):
        if n.get("k") != "If":
            continue
        cond = n["cond"]
        root_cmp = False
        links = set()
        for m in _walk(cond):
            if m.get("k") == "Binary" and m.get("op") in (">=", ">", "<", "<="):
                names = set()
                for side in ("l", "r"):
                    for o in body.origins(m[side]):
                        if o.get("k") == "Param" and "usize" == (o.get("ty") or ""):
                            names.add("index-param")
                        if o.get("k") == "MethodCall" and o.get("m") == "len":
                            names.add("len")
                if "index-param" in names and "len" in names:
                    root_cmp = True
            if m.get("k") == "MethodCall" and m.get("m") in ("get_left", "get_right"):
                links.add(m["m"])
        errs = any((_hq.callee(x) or "").endswith("::Err") for x in _walk(n["then"]) if x.get("k") == "Call")
        if root_cmp and links == {"get_left", "get_right"} and errs:
            # the rejecting condition must be true as soon as any one of root / left / right equals or exceeds the node count
            for subject in ("root", "get_left", "get_right"):
                for o in ("eq", "gt"):
                    v = _rel_eval(body, cond, {}, {subject: o})
                    if v is False:
                        return False, "%s does not reject a tree whose %s link is %s the node count (%s): the handlers index nodes[] with it" % (
                            b.get("name"), {"root": "root", "get_left": "left", "get_right": "right"}[subject], {"eq": "equal to", "gt": "greater than"}[o], loc(n))
            return True, "%s checks the root index and every get_left()/get_right() against the node count and returns Err (%s)" % (b.get("name"), loc(n))
    return False, "build() no longer validates parse_root and the left/right links against parse_tree.len() before walking the tree"


def guard_lexer_whitespace_ascii(ctx, f):
    """The lexer's whitespace buffers hold one-byte characters only: no Unicode-aware whitespace predicate routes a
    character into the Spaces / Subexpression states."""
    F = ctx.F
    bad = []
    good = 0
    for g in F.fns.values():
        if g["crate"] != "garnish_lang_compiler" or "Lexer" not in g.get("impl_self", "") or g["kind"] == "Closure":
            continue
        for d, n in _hq.calls_in(g["hir"]):
            if d == "core::char::methods::<impl char>::is_whitespace":
                bad.append(loc(n))
            if d == "core::char::methods::<impl char>::is_ascii_whitespace":
                good += 1
    if bad:
        return False, "the lexer classifies characters with char::is_whitespace (%s): multi-byte whitespace can enter the buffers that are sliced by byte arithmetic" % ", ".join(bad)
    if not good:
        return False, "no is_ascii_whitespace classification found in the lexer"
    return True, "whitespace classification uses is_ascii_whitespace / ASCII literals only"


def _clamps(expr, start_l):
    """Does expr bound a value from below by another (`.max(x)`, `cmp::max(a, b)`, `.clamp(lo, hi)`, or an `if a < b`)?"""
    for m in _walk(expr):
        k = m.get("k")
        if k == "MethodCall" and m.get("m") in ("max", "clamp") and m["args"]:
            if start_l is None or _hq.local_of(m["args"][0]) == start_l:
                return True
        if k == "Call" and (_hq.callee(m) or "") in ("core::cmp::max", "core::cmp::Ord::max") and len(m.get("args", [])) == 2:
            if start_l is None or start_l in (_hq.local_of(m["args"][0]), _hq.local_of(m["args"][1])):
                return True
        if k == "If":
            for c in _walk(m["cond"]):
                if c.get("k") == "Binary" and c.get("op") in ("<", "<=", ">", ">="):
                    ls = (_hq.local_of(c["l"]), _hq.local_of(c["r"]))
                    if start_l is None or start_l in ls:
                        return True
    return False


def _range_end_clamped(F, g, depth=0):
    """Every Range-typed index of a Vec/slice in g has an end whose origins include `.max(<start>)`; (start, end) pairs taken
    from a helper are checked in the helper."""
    body = _Body(g)
    ok_all = True
    n_sites = 0
    why = []
    for n in _walk(g["hir"]):
        if n.get("k") != "Index":
            continue
        idx = _hq.peel(n["idx"])
        rng = None
        if idx.get("k") == "Struct" and (idx.get("def") or "").startswith("core::ops::range::Range"):
            rng = idx
        if rng is None:
            continue
        fields = {fl["name"]: fl["e"] for fl in rng["fields"]}
        if "start" not in fields or "end" not in fields:
            continue
        n_sites += 1
        start_l = _hq.local_of(fields["start"])
        clamped = False
        # direct: end local defined through .max(start)
        end_e = fields["end"]
        for d in ([end_e] + [x for x in body.defs.get(_hq.local_of(end_e), []) if isinstance(x, dict)]):
            if _clamps(d, start_l):
                clamped = True
        if not clamped:
            # (start, end) destructured from a helper call: check the helper returns a clamped pair
            for d in body.defs.get(_hq.local_of(end_e), []):
                if isinstance(d, dict) and d.get("k") == "Destructure":
                    cd = _hq.callee(d["of"])
                    h = F.fns.get(cd) if cd else None
                    if h is not None and depth < 2:
                        if _clamps(h["hir"], None):
                            clamped = True
        if not clamped:
            ok_all = False
            why.append(loc(n))
    return ok_all and n_sites > 0, why, n_sites


def guard_range_end_clamped(ctx, f):
    ok, why, n = _range_end_clamped(ctx.F, f)
    if ok:
        return True, "%d range slice(s): the end is clamped with .max(start)" % n
    if n == 0:
        return False, "no range slice found in this function (guard cannot be evaluated)"
    return False, "range slice at %s: the end is not clamped to the start (`.max(start)`), reversed extents would panic" % ", ".join(why)


def guard_charlist_header_counts_chars(ctx, f):
    """Every CharList(n) header the data crate writes (constructor or in-place) receives a character count, never a UTF-8 byte length
    (the D1 origin analysis, restricted to the header sinks): the n cells after a header are then the n Char cells written with it."""
    from . import rules_units
    memo = ctx.memo.setdefault("guard-charlist-header", {})
    if "v" not in memo:
        bad, n = [], 0
        for g in ctx.F.fns.values():
            if g["crate"] != "garnish_lang_simple_data":
                continue
            for inst, where, msg, isbad in rules_units.d1_sites(ctx.F, g):
                if inst.startswith("CharList-header"):
                    n += 1
                    if isbad:
                        bad.append("%s (%s)" % (where, msg))
        memo["v"] = (bad, n)
    bad, n = memo["v"]
    if bad:
        return False, "a CharList header receives a byte length: " + "; ".join(bad[:2])
    if n < 5:
        return False, "only %d CharList header writes found (expected >= 5)" % n
    return True, "all %d CharList header writes receive character counts" % n


GUARDS = {
    "charlist-header-counts-chars": guard_charlist_header_counts_chars,
    "build-links-validated": guard_build_links_validated,
    "lexer-whitespace-ascii": guard_lexer_whitespace_ascii,
    "range-end-clamped": guard_range_end_clamped,
}


def rule_G1l(ctx):
    """No recursion through the list look-up functions: a key / index is looked for among the items of the list (and of the lists a
    concatenation is made of) - a cycle through these functions means items that are themselves collections are searched too."""
    F = ctx.F
    r = RuleResult("G1l", "look-ups are shallow: no recursive call cycle runs through the runtime's list look-up functions (access / index helpers): a key is searched among the items, never inside an item")
    _, run = cg.entry_sets(F)
    g = cg.get(ctx)
    reach = g.reachable(run)
    comps = g.sccs(reach)
    def is_lookup(p):
        f = F.fns.get(p)
        return f is not None and f["crate"] == "garnish_lang_runtime" and "::runtime::list::" in p
    lookups = sorted(p for p in reach if is_lookup(p) and "::{closure" not in p)
    r.floor("list look-up functions in the runtime", len(lookups), 8)
    for p in lookups:
        r.examine(p, True, None)
    for comp in comps:
        hit = [m for m in comp if is_lookup(m)]
        if hit:
            rep = sorted(m for m in hit if "::{closure" not in m)[0] if any("::{closure" not in m for m in hit) else hit[0]
            r.finding(rep, "lookup-recursion", loc(F.fns[rep]["mir"]["blocks"][0]["term"]), "recursive call cycle through the list look-up functions {%s}: the per-item check calls back into a look-up, so an item that is itself a list / slice is searched too - a key held by a nested list is 'found' through a concatenation although the list itself reports it absent" % ", ".join(comp))
    return r
