"""MIR query helpers: printing, CFG, dominators, def-use."""
from .hirq import last


def fmt_place(p):
    s = "_%d" % p["l"]
    for e in p["p"]:
        if e == "*":
            s = "(*%s)" % s
        elif isinstance(e, dict):
            if "f" in e:
                s += "." + str(e["n"])
            elif "as" in e:
                s = "(%s as %s)" % (s, e["as"])
            elif "idx" in e:
                s += "[_%d]" % e["idx"]
            else:
                s += "[..]"
        else:
            s += "<%s>" % e
    return s


def fmt_op(o):
    if "copy" in o:
        return fmt_place(o["copy"])
    if "move" in o:
        return "move " + fmt_place(o["move"])
    if "const" in o:
        c = o["const"]
        return "const " + (c.get("fn") or c.get("txt") or "?")
    return str(o)


def fmt_rv(rv):
    k = rv["k"]
    if k == "Use":
        return fmt_op(rv["op"])
    if k == "Ref":
        return "&%s%s" % ("mut " if rv.get("mut") else "", fmt_place(rv["place"]))
    if k == "BinaryOp":
        return "%s(%s, %s)" % (rv["op"], fmt_op(rv["l"]), fmt_op(rv["r"]))
    if k == "UnaryOp":
        return "%s(%s)" % (rv["op"], fmt_op(rv["e"]))
    if k == "Cast":
        return "%s as %s [%s]" % (fmt_op(rv["op"]), rv["to"], rv["cast"])
    if k == "Discriminant":
        return "discriminant(%s)" % fmt_place(rv["place"])
    if k == "Aggregate":
        a = rv["agg"]
        if a == "Adt":
            a = "%s::%s" % (last(rv["adt"]), rv["variant"])
        elif a == "Closure":
            a = "closure " + rv["closure"]
        return "%s(%s)" % (a, ", ".join(fmt_op(o) for o in rv["ops"]))
    if k in ("CopyForDeref", "RawPtr"):
        return "%s(%s)" % (k, fmt_place(rv["place"]))
    return k


def fmt_stmt(s):
    if s["k"] == "Assign":
        return "%s = %s" % (fmt_place(s["place"]), fmt_rv(s["rv"]))
    if s["k"] == "SetDiscriminant":
        return "discriminant(%s) = %d" % (fmt_place(s["place"]), s["vi"])
    return s["k"]


def fmt_term(t):
    k = t["k"]
    if k == "Goto":
        return "goto bb%d" % t["target"]
    if k == "SwitchInt":
        return "switchInt(%s) [%s, otherwise bb%d]" % (fmt_op(t["discr"]), ", ".join("%d: bb%d" % (v, b) for v, b in t["targets"]), t["otherwise"])
    if k == "Call":
        f = t.get("full") or ("fptr " + fmt_op(t["fptr"]))
        return "%s = %s(%s) -> %s" % (fmt_place(t["dest"]), f, ", ".join(fmt_op(a) for a in t["args"]), "bb%d" % t["target"] if t["target"] is not None else "!")
    if k == "Assert":
        return "assert(%s == %s, %s %s) -> bb%d" % (fmt_op(t["cond"]), t["expected"], t["assert"], t["detail"], t["target"])
    if k == "Drop":
        return "drop(%s) -> bb%d" % (fmt_place(t["place"]), t["target"])
    return k


def succs(t):
    k = t["k"]
    if k == "Goto":
        return [t["target"]]
    if k == "SwitchInt":
        return [b for _v, b in t["targets"]] + [t["otherwise"]]
    if k in ("Call",):
        return [t["target"]] if t["target"] is not None else []
    if k in ("Assert", "Drop"):
        return [t["target"]]
    return []


def reachable_blocks(mir):
    seen = {0}
    st = [0]
    bl = mir["blocks"]
    while st:
        b = st.pop()
        for s in succs(bl[b]["term"]):
            if s not in seen:
                seen.add(s)
                st.append(s)
    return seen


def dominators(mir):
    """dom[b] = set of blocks dominating b (iterative; MIR bodies are small)."""
    bl = mir["blocks"]
    reach = sorted(reachable_blocks(mir))
    preds = {b: [] for b in reach}
    for b in reach:
        for s in succs(bl[b]["term"]):
            preds[s].append(b)
    allb = set(reach)
    dom = {b: set(allb) for b in reach}
    dom[0] = {0}
    changed = True
    while changed:
        changed = False
        for b in reach:
            if b == 0:
                continue
            ps = [dom[p] for p in preds[b]]
            new = set.intersection(*ps) if ps else set()
            new = new | {b}
            if new != dom[b]:
                dom[b] = new
                changed = True
    return dom


def assignments(mir):
    """local -> list of (block, stmt index or 'term', rvalue-or-call)"""
    out = {}
    for bi, b in enumerate(mir["blocks"]):
        for si, s in enumerate(b["stmts"]):
            if s["k"] == "Assign" and not s["place"]["p"]:
                out.setdefault(s["place"]["l"], []).append((bi, si, s["rv"]))
        t = b["term"]
        if t["k"] == "Call" and not t["dest"]["p"]:
            out.setdefault(t["dest"]["l"], []).append((bi, "term", t))
    return out


def op_local(o):
    """local of a plain (projection-free) copy/move operand, else None"""
    for k in ("copy", "move"):
        if k in o:
            p = o[k]
            if not p["p"]:
                return p["l"]
            return None
    return None


def op_place(o):
    for k in ("copy", "move"):
        if k in o:
            return o[k]
    return None


def origins(mir, local, asg=None, seen=None, through_deref=True):
    """Follow plain copies/moves/refs/derefs backwards from `local` to the defining rvalues / calls
    that are not mere copies.  Returns list of (block, idx, node, local)."""
    if asg is None:
        asg = assignments(mir)
    if seen is None:
        seen = set()
    out = []
    if local in seen:
        return out
    seen.add(local)
    for (bi, si, node) in asg.get(local, []):
        if si != "term":
            k = node["k"]
            if k == "Use":
                pl = op_place(node["op"])
                if pl is not None and all(e == "*" for e in pl["p"]):
                    out.extend(origins(mir, pl["l"], asg, seen))
                    continue
            if k in ("Ref", "CopyForDeref"):
                pl = node["place"]
                if all(e == "*" for e in pl["p"]):
                    out.extend(origins(mir, pl["l"], asg, seen))
                    continue
        out.append((bi, si, node, local))
    if not asg.get(local) and local <= mir["argc"] and local != 0:
        out.append((None, None, {"k": "Param", "index": local}, local))
    return out


def _place_uses(pl, out):
    out.add(pl["l"])
    for e in pl["p"]:
        if isinstance(e, dict) and "idx" in e:
            out.add(e["idx"])


def _operand_uses(o, out):
    for k in ("copy", "move"):
        if k in o:
            _place_uses(o[k], out)


def _rv_uses(rv, out, addr_taken):
    k = rv["k"]
    if k in ("Use", "Repeat", "Cast", "WrapUnsafeBinder"):
        _operand_uses(rv["op"], out)
    elif k == "BinaryOp":
        _operand_uses(rv["l"], out)
        _operand_uses(rv["r"], out)
    elif k == "UnaryOp":
        _operand_uses(rv["e"], out)
    elif k == "Aggregate":
        for o in rv["ops"]:
            _operand_uses(o, out)
    elif k in ("Ref", "RawPtr"):
        _place_uses(rv["place"], out)
        addr_taken.add(rv["place"]["l"])
    elif k in ("Discriminant", "CopyForDeref"):
        _place_uses(rv["place"], out)


def liveness(mir):
    """live_in[b] = set of locals live at entry of block b; locals whose address is taken are always live."""
    bl = mir["blocks"]
    n = len(bl)
    use = [set() for _ in range(n)]
    defs = [set() for _ in range(n)]
    addr_taken = set()
    for bi, b in enumerate(bl):
        u, d = use[bi], defs[bi]
        for s in b["stmts"]:
            if s["k"] == "Assign":
                tmp = set()
                _rv_uses(s["rv"], tmp, addr_taken)
                pl = s["place"]
                if pl["p"]:
                    tmp.add(pl["l"])  # partial write keeps the rest live
                    for e in pl["p"]:
                        if isinstance(e, dict) and "idx" in e:
                            tmp.add(e["idx"])
                u |= (tmp - d)
                if not pl["p"]:
                    d.add(pl["l"])
            elif s["k"] == "SetDiscriminant":
                if s["place"]["l"] not in d:
                    u.add(s["place"]["l"])
        t = b["term"]
        tmp = set()
        if t["k"] == "SwitchInt":
            _operand_uses(t["discr"], tmp)
        elif t["k"] == "Call":
            for a in t["args"]:
                _operand_uses(a, tmp)
            if "fptr" in t:
                _operand_uses(t["fptr"], tmp)
            if t["dest"]["p"]:
                tmp.add(t["dest"]["l"])
        elif t["k"] == "Assert":
            _operand_uses(t["cond"], tmp)
        elif t["k"] == "Drop":
            _place_uses(t["place"], tmp)
        elif t["k"] == "Return":
            tmp.add(0)
        u |= (tmp - d)
        if t["k"] == "Call" and not t["dest"]["p"]:
            d.add(t["dest"]["l"])
    live_in = [set() for _ in range(n)]
    changed = True
    while changed:
        changed = False
        for bi in range(n - 1, -1, -1):
            out = set()
            for sx in succs(bl[bi]["term"]):
                out |= live_in[sx]
            new = use[bi] | (out - defs[bi])
            if new != live_in[bi]:
                live_in[bi] = new
                changed = True
    for li in live_in:
        li |= addr_taken
        li |= set(range(1, mir["argc"] + 1))
    return live_in


def path_avoiding(mir, start_blocks, is_marker_block, from_after=None):
    """A witness path of block indices from one of `start_blocks` to a Return that never enters a block for which
    is_marker_block(block_index, block) is true, or None when every such path passes through a marker (must-pass-through).
    Cleanup blocks and diverging edges are not followed."""
    bl = mir["blocks"]
    prev = {}
    work = []
    for s in start_blocks:
        if s is None or bl[s]["cleanup"] or is_marker_block(s, bl[s]):
            continue
        prev[s] = None
        work.append(s)
    while work:
        b = work.pop(0)
        t = bl[b]["term"]
        if t["k"] == "Return":
            path = []
            x = b
            while x is not None:
                path.append(x)
                x = prev[x]
            return list(reversed(path))
        for s in succs(t):
            if s in prev or bl[s]["cleanup"]:
                continue
            if is_marker_block(s, bl[s]):
                continue
            prev[s] = b
            work.append(s)
    return None


def path_avoiding_to(mir, start_blocks, is_marker_block, is_target_block):
    """Like path_avoiding, but the goal is any block for which is_target_block holds (checked before the marker test of that
    block's own statements is relevant: a target block that is itself a marker counts as reached only if the target event comes
    first - callers split such cases).  Returns a witness path or None."""
    bl = mir["blocks"]
    prev = {}
    work = []
    for s in start_blocks:
        if s is None or bl[s]["cleanup"]:
            continue
        prev[s] = None
        work.append(s)
    while work:
        b = work.pop(0)
        if is_target_block(b, bl[b]):
            path = []
            x = b
            while x is not None:
                path.append(x)
                x = prev[x]
            return list(reversed(path))
        if is_marker_block(b, bl[b]):
            continue
        for s in succs(bl[b]["term"]):
            if s in prev or bl[s]["cleanup"]:
                continue
            prev[s] = b
            work.append(s)
    return None
