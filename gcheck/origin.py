"""ORIGIN: backward, flow-insensitive origin sets of HIR expressions inside one function body.

origins(expr) follows: wrappers (`?`, refs, blocks, casts between integer types), locals (-> every
initialiser / assignment / pattern-binding scrutinee of that local in the body), `clone`/`into`/`min`/
`max`/`unwrap_or`..., Ok/Some/tuple constructors, arithmetic (both operands), `if`/`match` values (all
arms).  It stops at calls and literals, which are returned as origin nodes for the rule to classify.
"""
from .facts import walk
from . import hirq
from .hirq import peel, callee

RECV_ONLY_METHODS = {"ok_or", "ok_or_else", "expect", "unwrap", "ok", "try_into", "to_owned", "borrow", "as_ref", "cloned", "copied",
                     "clone", "into", "iter", "iter_mut", "enumerate", "rev", "into_iter", "to_vec", "as_slice",
                     "flatten", "filter", "skip", "take", "peekable", "fuse", "by_ref", "skip_while", "take_while", "step_by", "copied", "as_mut", "as_deref"}
PASS_THROUGH_METHODS = {"clone", "into", "min", "max", "unwrap_or", "unwrap_or_default", "to_owned", "borrow", "as_ref",
                        "saturating_sub", "saturating_add", "checked_sub", "checked_add", "wrapping_add", "wrapping_sub",
                        "try_into", "unwrap", "expect", "ok", "ok_or", "cloned", "copied", "iter", "iter_mut", "enumerate", "rev", "into_iter"}


class Body:
    def __init__(self, fn):
        self.fn = fn
        self.defs = {}  # lid -> list of defining expressions (or ("param", i) / ("pat", scrutinee expr))
        self._index(fn)

    def _bind_pat(self, pat, src):
        # position-sensitive for tuple patterns over tuple expressions
        if pat.get("k") == "Tuple" and isinstance(src, dict) and src.get("k") == "Destructure":
            of = peel(src["of"])
            if of.get("k") == "Tup" and len(of["es"]) == len(pat["pats"]) and pat.get("dd") is None:
                for q, e in zip(pat["pats"], of["es"]):
                    if q.get("k") == "Binding" and not q.get("sub"):
                        self.defs.setdefault(q["lid"], []).append(e)
                    else:
                        self._bind_pat(q, {"k": "Destructure", "of": e, "pat": q})
                return
        self._bind_pat_rec(pat, src)

    def _bind_pat_rec(self, pat, src):
        """Bind every Binding under pat to src; a binding under a field of a struct pattern `S { f: <pat>, .. }` is a read
        of field f of S (same origin node as the expression `x.f`), so `match n { S { f: Some(v), .. } => v }` and
        `match &n.f { Some(v) => v }` have the same origins."""
        k = pat.get("k")
        if k == "Binding":
            self.defs.setdefault(pat["lid"], []).append(src)
            if pat.get("sub"):
                self._bind_pat_rec(pat["sub"], src)
            return
        if k == "Struct" and pat.get("def") and any(not f["name"].isdigit() for f in pat.get("fields", [])):
            for f in pat["fields"]:
                fsrc = {"k": "Field", "name": f["name"], "base_ty": pat["def"], "e": src.get("of") if isinstance(src, dict) and src.get("k") == "Destructure" else src,
                        "sp": pat.get("sp"), "from_pattern": True}
                self._bind_pat_rec(f["pat"], fsrc)
            return
        for key in ("pats",):
            for q in pat.get(key) or []:
                self._bind_pat_rec(q, src)
        for f in pat.get("fields") or []:
            self._bind_pat_rec(f["pat"], src)
        for key in ("pat", "sub"):
            if isinstance(pat.get(key), dict):
                self._bind_pat_rec(pat[key], src)

    def _index(self, fn):
        for i, p in enumerate(fn.get("params", [])):
            for n in walk(p):
                if n.get("k") == "Binding":
                    self.defs.setdefault(n["lid"], []).append({"k": "Param", "index": i, "ty": n.get("ty")})
        for n in walk(fn["hir"]):
            k = n.get("k")
            if k == "Let" and "pat" in n:
                init = n.get("init")
                if init is not None:
                    pat = n["pat"]
                    if pat.get("k") == "Binding" and not pat.get("sub"):
                        self.defs.setdefault(pat["lid"], []).append(init)
                    else:
                        self._bind_pat(pat, {"k": "Destructure", "of": init, "pat": pat})
            elif k == "LetExpr":
                self._bind_pat(n["pat"], {"k": "Destructure", "of": n["init"], "pat": n["pat"]})
            elif k == "Match":
                for arm in n["arms"]:
                    self._bind_pat(arm["pat"], {"k": "Destructure", "of": n["scrut"], "pat": arm["pat"]})
            elif k == "Assign":
                l = hirq.local_of(n["l"])
                if l is not None and peel(n["l"]).get("k") == "Path":
                    self.defs.setdefault(l, []).append(n["r"])
            elif k == "AssignOp":
                l = hirq.local_of(n["l"])
                if l is not None:
                    self.defs.setdefault(l, []).append(n["r"])
            elif k == "Closure":
                for p in n.get("params", []):
                    for m in walk(p):
                        if m.get("k") == "Binding":
                            self.defs.setdefault(m["lid"], []).append({"k": "ClosureParam", "ty": m.get("ty")})
            elif k == "Loop" and n.get("src", "").startswith("ForLoop"):
                pass

    def _project(self, o, idx, seen, depth):
        if o.get("k") == "Tup" and idx < len(o["es"]):
            return self.origins(o["es"][idx], set(seen), depth + 1)
        if o.get("k") == "Array":
            res = []
            for x in o["es"]:
                px = peel(x)
                if px.get("k") == "Tup" and idx < len(px["es"]):
                    res.extend(self.origins(px["es"][idx], set(seen), depth + 1))
                else:
                    res.append({"k": "TupleFieldOf", "of": x, "index": idx})
            return res
        return [{"k": "TupleFieldOf", "of": o, "index": idx}]

    def origins(self, e, seen=None, depth=0):
        """Set of origin nodes (dict nodes) for expression e."""
        if seen is None:
            seen = set()
        out = []
        if e is None or depth > 40:
            return out
        e = peel(e)
        k = e.get("k")
        if k == "Path" and e.get("res") == "local":
            lid = e["lid"]
            if lid in seen:
                return out
            seen.add(lid)
            for d in self.defs.get(lid, []):
                if d.get("k") in ("Param", "ClosureParam"):
                    out.append(d)
                elif d.get("k") == "Destructure":
                    out.extend(self.origins(d["of"], seen, depth + 1))
                elif d.get("k") == "Field" and d.get("from_pattern"):
                    out.append(d)
                else:
                    out.extend(self.origins(d, seen, depth + 1))
            if not self.defs.get(lid):
                out.append({"k": "UnknownLocal", "name": e.get("name")})
            return out
        if k == "MethodCall":
            if e.get("m") in RECV_ONLY_METHODS:
                return self.origins(e["recv"], seen, depth + 1)
            if e.get("m") in PASS_THROUGH_METHODS:
                out.extend(self.origins(e["recv"], seen, depth + 1))
                for a in e["args"]:
                    out.extend(self.origins(a, seen, depth + 1))
                return out
            return [e]
        if k == "Call" and e.get("exp") and "vec" in e["exp"]:
            # vec![..] literal: the value is the array inside the expansion
            for x in walk(e):
                if x.get("k") in ("Array", "Repeat"):
                    return [x]
        if k == "Call":
            d = callee(e)
            if d and d.endswith(("::Ok", "::Some", "::Err")) and e["args"]:
                return self.origins(e["args"][0], seen, depth + 1)
            if d in ("core::convert::From::from", "core::convert::Into::into", "core::iter::traits::iterator::Iterator::next",
                     "core::iter::traits::collect::IntoIterator::into_iter", "alloc::slice::<impl [T]>::into_vec",
                     "alloc::boxed::Box::<T>::new", "alloc::boxed::box_assume_init_into_vec_unsafe", "alloc::boxed::box_new") and e["args"]:
                # for-loop desugaring: the loop variable derives from the iterated expression (e.g. range bounds)
                return self.origins(e["args"][0], seen, depth + 1)
            return [e]
        if k in ("Binary", "AssignOp"):
            return self.origins(e["l"], seen, depth + 1) + self.origins(e["r"], seen, depth + 1)
        if k == "Unary":
            return self.origins(e["e"], seen, depth + 1)
        if k == "Cast":
            return self.origins(e["e"], seen, depth + 1)
        if k == "If":
            return self.origins(e["then"], seen, depth + 1) + self.origins(e.get("else"), seen, depth + 1)
        if k == "Match":
            for arm in e["arms"]:
                out.extend(self.origins(arm["body"], seen, depth + 1))
            return out
        if k == "Block":
            return self.origins(e["b"].get("expr"), seen, depth + 1)
        if k in ("Tup", "Array"):
            return [e]
        if k == "Field":
            nm = e.get("name", "")
            if nm.isdigit():
                # tuple field: project tuple literals among the base's origins
                idx = int(nm)
                res = []
                for o in self.origins(e["e"], seen, depth + 1):
                    res.extend(self._project(o, idx, seen, depth))
                return res
            return [e]
        if k == "Index":
            return [e]
        return [e]


def return_exprs(f):
    """Value-producing exits of a function body: the tail expression and the operand of every `return` (closures excluded)."""
    out = []
    h = f["hir"]
    def rec(n, top):
        if isinstance(n, dict):
            if n.get("k") == "Closure":
                return
            if n.get("k") == "Ret" and n.get("e") is not None:
                d = callee(n["e"]) or ""
                # the error exits (`?` residuals, explicit `return Err(..)`) carry no value of the success type
                if not (d.endswith("::from_residual") or d.endswith("::Err")):
                    out.append(n["e"])
            for v in n.values():
                if isinstance(v, (dict, list)):
                    rec(v, False)
        elif isinstance(n, list):
            for x in n:
                rec(x, False)
    rec(h, True)
    body = peel(h) if isinstance(h, dict) else None
    if isinstance(h, dict):
        if h.get("k") == "Block" and h["b"].get("expr") is not None:
            out.append(h["b"]["expr"])
        elif h.get("k") != "Block":
            out.append(h)
    return out


class Deep:
    """Interprocedural origin resolution: parameters are expanded to the arguments at every resolved call site,
    struct field reads to every initialiser of that field, both within the given crates, up to a depth bound.
    terminal(origin_node) decides where to stop; returns the set of terminal nodes reached plus 'open' markers
    for origins that could not be expanded (public entry parameters, unknown calls)."""

    def __init__(self, F, crates):
        self.F = F
        self.crates = crates
        self.bodies = {}
        self.calls = None
        self.inits = None

    def body(self, f):
        b = self.bodies.get(f["path"])
        if b is None:
            b = Body(f)
            self.bodies[f["path"]] = b
        return b

    def _index(self):
        if self.calls is not None:
            return
        self.calls = {}
        self.inits = {}
        for f in self.F.fns.values():
            if f["crate"] not in self.crates:
                continue
            for d, n in hirq.calls_in(f["hir"]):
                if d in self.F.fns:
                    args = n["args"] if n.get("k") == "Call" else [n["recv"]] + n["args"]
                    self.calls.setdefault(d, []).append((f, args))
            for n in walk(f["hir"]):
                if n.get("k") == "Struct" and n.get("def"):
                    for fl in n["fields"]:
                        if "e" in fl:
                            self.inits.setdefault((n["def"].split("<")[0], fl["name"]), []).append((f, fl["e"]))
                if n.get("k") == "Assign":
                    l = peel(n["l"])
                    if l.get("k") == "Field":
                        t = l.get("base_ty", "").lstrip("&").replace("mut ", "").strip().split("<")[0]
                        self.inits.setdefault((t, l["name"]), []).append((f, n["r"]))

    def _expandable(self, d):
        """Calls whose value is looked up in the callee: plain functions / inherent methods of the analysed crates that
        have a body.  Constructors (`new*`) and trait methods stay terminal: rules classify those by name."""
        if not d or d not in self.F.fns:
            return False
        cf = self.F.fns[d]
        if cf.get("crate") not in self.crates or cf.get("kind") == "Closure" or not cf.get("hir"):
            return False
        if cf.get("impl_trait") or cf.get("name", "").startswith("new"):
            return False
        return True

    def resolve(self, f, e, depth=0, seen=None):
        self._index()
        if seen is None:
            seen = set()
        out = []
        b = self.body(f)
        for o in b.origins(e):
            k = o.get("k")
            if k == "Param" and depth < 6:
                key = ("p", f["path"], o["index"])
                if key in seen:
                    continue
                seen.add(key)
                sites = self.calls.get(f["path"], [])
                if not sites:
                    out.append({"k": "OpenParam", "fn": f["path"], "index": o["index"]})
                for cf, args in sites:
                    if o["index"] < len(args):
                        out.extend(self.resolve(cf, args[o["index"]], depth + 1, seen))
            elif k == "Call" and peel(o["f"]).get("res") == "local" and depth < 6:
                # call of a closure-typed local: expand through the closure(s) it can be
                key = ("c", f["path"], peel(o["f"])["lid"], depth)
                if key in seen:
                    continue
                seen.add(key)
                targets = self.resolve(f, o["f"], depth + 1, seen)
                hit = False
                for t in targets:
                    if t.get("k") == "Closure":
                        hit = True
                        owner = self.F.fns.get(t.get("def", "").rsplit("::{closure", 1)[0], f)
                        out.extend(self.resolve(owner, t["body"], depth + 1, seen))
                if not hit:
                    out.append(o)
            elif k in ("Call", "MethodCall") and depth < 6 and self._expandable(callee(o)):
                # a call of a function of the analysed crates: the value is what that function returns
                d = callee(o)
                key = ("r", d)
                if key in seen:
                    continue
                seen.add(key)
                cf = self.F.fns[d]
                rets = return_exprs(cf)
                if not rets:
                    out.append(o)
                for re_ in rets:
                    out.extend(self.resolve(cf, re_, depth + 1, seen))
            elif k == "TupleFieldOf" and depth < 6:
                for o2 in self.resolve(f, o["of"], depth + 1, seen) if isinstance(o["of"], dict) and o["of"].get("k") not in (None, "Param", "OpenParam") else []:
                    out.extend(b._project(o2, o["index"], set(), 0) if o2.get("k") in ("Tup", "Array") else [o2])
                if isinstance(o["of"], dict) and o["of"].get("k") == "Param":
                    key = ("p", f["path"], o["of"]["index"], "proj", o["index"])
                    if key not in seen:
                        seen.add(key)
                        for cf, args in self.calls.get(f["path"], []):
                            if o["of"]["index"] < len(args):
                                for o2 in self.resolve(cf, args[o["of"]["index"]], depth + 1, seen):
                                    out.extend(self.body(cf)._project(o2, o["index"], set(), 0) if o2.get("k") in ("Tup", "Array") else [o2])
            elif k == "Field" and depth < 6:
                t = o.get("base_ty", "").lstrip("&").replace("mut ", "").strip().split("<")[0]
                key = ("f", t, o.get("name"))
                if key in seen:
                    continue
                seen.add(key)
                inits = self.inits.get((t, o.get("name")), [])
                if not inits:
                    out.append(o)
                for cf, ie in inits:
                    out.extend(self.resolve(cf, ie, depth + 1, seen))
            else:
                out.append(o)
        return out
