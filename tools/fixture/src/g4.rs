//! G4 controls: a lookup that reports "absent" as an error, and one that does not.
pub fn ctl_lookup_err(items: &[usize], i: usize) -> Result<Option<usize>, String> {
    if i >= items.len() {
        return Err(format!("no item at {}", i));
    }
    Ok(Some(items[i]))
}

pub fn ok_lookup_none(items: &[usize], i: usize) -> Result<Option<usize>, String> {
    Ok(items.get(i).copied())
}

/// G4b control: the probe gives up when it meets an item of a particular kind.
pub fn g4b_ctl_absent_on_item_kind(slots: &[Option<(u64, usize)>], sym: u64) -> Result<Option<usize>, String> {
    let mut i = sym as usize % slots.len().max(1);
    let mut count = 0;
    loop {
        match slots.get(i).cloned().flatten() {
            None => return Ok(None),
            Some((k, v)) => {
                if k == sym {
                    return Ok(Some(v));
                }
            }
        }
        i += 1;
        if i >= slots.len() {
            i = 0;
        }
        count += 1;
        if count > slots.len() {
            return Ok(None);
        }
    }
}

/// G4b negative control: absence is decided by exhausting the probe sequence only.
pub fn g4b_ok_absent_on_exhaustion(slots: &[Option<(u64, usize)>], sym: u64) -> Result<Option<usize>, String> {
    let mut i = sym as usize % slots.len().max(1);
    let mut count = 0;
    loop {
        if let Some((k, v)) = slots.get(i).cloned().flatten() {
            if k == sym {
                return Ok(Some(v));
            }
        }
        i += 1;
        if i >= slots.len() {
            i = 0;
        }
        count += 1;
        if count > slots.len() {
            return Ok(None);
        }
    }
}
