"""A3 sticky-error: the lexer's error slot, once set, is never overwritten and stops consumption."""
from .facts import loc
from . import ai, mirq
from .hirq import last
from .report import RuleResult


def _slot_places(F, struct_suffix, field_ty_prefix="core::result::Result<(), "):
    """(struct path, field name) of error-slot fields: a field of type Result<(), E> in a struct named ...Lexer."""
    out = []
    for p, a in F.adts.items():
        if a["kind"] == "struct" and p.endswith(struct_suffix):
            for f in a["variants"][0]["fields"]:
                if f["ty"].startswith(field_ty_prefix):
                    out.append((p, f["name"]))
    return out


def _is_slot(place, mir, struct, field):
    pr = place["p"]
    if not pr:
        return False
    lastp = pr[-1]
    if not (isinstance(lastp, dict) and lastp.get("n") == field and "f" in lastp):
        return False
    root_ty = mir["locals"][place["l"]]["ty"]
    return struct.split("::")[-1] in root_ty and len([e for e in pr if isinstance(e, dict) and "f" in e]) == 1


def _stores(fn, struct, field):
    """(block, stmt) assignments to the slot; classify the stored value as 'err' (an Err aggregate) or 'other'."""
    mir = fn["mir"]
    asg = mirq.assignments(mir)
    out = []
    for bi, b in enumerate(mir["blocks"]):
        if b["cleanup"]:
            continue
        for s in b["stmts"]:
            if s["k"] == "Assign" and _is_slot(s["place"], mir, struct, field):
                kind = "other"
                rv = s["rv"]
                if rv["k"] == "Aggregate" and rv.get("variant") == "Err":
                    kind = "err"
                elif rv["k"] == "Use":
                    l = mirq.op_local(rv["op"])
                    if l is not None:
                        orgs = mirq.origins(mir, l, asg)
                        if orgs and all(o[2].get("k") == "Aggregate" and o[2].get("variant") == "Err" for o in orgs):
                            kind = "err"
                out.append((bi, s, kind))
        t = b["term"]
        if t["k"] == "Call" and _is_slot(t["dest"], mir, struct, field):
            out.append((bi, t, "other"))
    return out


def analyse_lexer(F, fns, struct, field, r):
    """fns: the methods of the lexer struct.  Returns findings list of (fn, instance, where, msg)."""
    direct = {}
    for f in fns:
        st = _stores(f, struct, field)
        if st:
            direct[f["path"]] = st
    # W: functions that may write the slot (directly or through calls to other methods taking the struct mutably)
    W = set(direct)
    changed = True
    byp = {f["path"]: f for f in fns}
    while changed:
        changed = False
        for f in fns:
            if f["path"] in W:
                continue
            for b in f["mir"]["blocks"]:
                t = b["term"]
                if t["k"] == "Call" and (t.get("resolved") or t.get("def")) in W:
                    W.add(f["path"])
                    changed = True
                    break
    # R: functions with a direct store that is not definitely Err: they rely on entering with a clean slot
    R = set(p for p, st in direct.items() if any(k == "other" for _b, _s, k in st))
    # assume-guarantee, closed over private helpers: a non-public method that hands on to a function requiring a clean slot
    # without establishing it (code extracted from a caller that did) requires a clean slot itself - and that is then checked
    # at each of ITS call sites.  Public entry points can assume nothing.
    callers_of = {}
    for f in fns:
        for b in f["mir"]["blocks"]:
            t = b["term"]
            if t["k"] == "Call":
                callers_of.setdefault(t.get("resolved") or t.get("def"), set()).add(f["path"])
    for _round in range(5):
        findings, examined, promote = _analyse_round(F, fns, struct, field, r, W, R, direct, byp, callers_of)
        promote -= R
        if not promote:
            break
        R |= promote
    r.examined_states = examined
    for f in fns:
        if f["path"] in W:
            r.examine(f["path"], True, {"fn": f["path"], "writes_slot": f["path"] in direct, "requires_clean_slot": f["path"] in R})
    r.analysed.setdefault("may_write_slot", sorted(W))
    r.analysed.setdefault("requires_clean_slot_at_entry", sorted(R))
    return findings, W, R, direct


def _analyse_round(F, fns, struct, field, r, W, R, direct, byp, callers_of):
    findings = []
    examined = 0
    promote = set()
    for f in fns:
        if f["path"] not in W:
            continue
        mir = f["mir"]
        self_local = 1
        slot_key_cache = {}

        def slot_key(interp, env):
            # the slot reached through `self`
            for b in mir["blocks"]:
                for s in b["stmts"]:
                    if s["k"] == "Assign" and _is_slot(s["place"], mir, struct, field):
                        return interp.key(s["place"], env)
            return None

        # find field index of the slot to build its key independent of a store being present
        fidx = None
        a = F.adts[struct]
        for i, fd in enumerate(a["variants"][0]["fields"]):
            if fd["name"] == field:
                fidx = i
        skey = "_1.*.%d" % fidx
        init_env = {}
        if f["path"] in R:
            init_env[skey + ".#"] = ("vn", "Ok")  # assume-guarantee: callers must establish this (checked at call sites)
        viol = []

        def tag(env):
            t = env.get(skey + ".#")
            if t:
                return t[1]
            v = env.get(skey)
            if ai.is_variant(v):
                return v[1]
            return "?"

        def on_assign(interp, env, ts, bi, st):
            if _is_slot(st["place"], mir, struct, field):
                rv = st["rv"]
                v = interp.rvalue(rv, env)
                definitely_err = ai.is_variant(v, "Err")
                if not definitely_err and tag(env) != "Ok":
                    viol.append(("overwrite", bi, loc(st), tag(env)))
            return None

        def on_call(interp, env, ts, bi, t):
            d = t.get("resolved") or t.get("def")
            if _is_slot(t["dest"], mir, struct, field):
                if tag(env) != "Ok":
                    viol.append(("overwrite", bi, loc(t), tag(env)))
            if d in W:
                if d in R and tag(env) != "Ok":
                    viol.append(("consume", bi, loc(t), tag(env), d))
                e2 = dict(env)
                interp.write_key(skey, ai.TOP, e2)
                e2.pop(skey + ".#", None)
                return [(ai.TOP, ts, e2)]
            return None

        def track(k):
            # locals are tracked; behind `self` only the error slot is
            return ".*" not in k or k == skey or k.startswith(skey + ".")

        def on_switch(interp, env, ts, bi, t, d):
            # a branch on a logging level (expansion of log's trace! / debug! ...) touches nothing tracked: follow the disabled edge only
            ex = t.get("exp") or []
            if any(m in ("trace", "debug", "info", "warn", "error", "log") or m.endswith("::log") or m.endswith("::__log") for m in ex):
                for v, bb in t["targets"]:
                    if v == 0:
                        return [(bb, dict(env), ts)]
            return None

        it = ai.Interp(f, hooks={"on_assign": on_assign, "on_call": on_call, "track": track, "on_switch": on_switch}, init_env=init_env, cap=60000)
        it.run()
        examined += it.visited
        seen = set()
        n = {}
        for v in viol:
            k = (v[0], v[1])
            if k in seen:
                continue
            seen.add(k)
            n[v[0]] = n.get(v[0], 0) + 1
            if v[0] == "overwrite":
                findings.append((f["path"], "overwrite#%d" % n[v[0]], v[2],
                                 "the error slot `%s` is assigned a value that may be Ok while it is %s: a recorded error can be overwritten" % (field, "Err" if v[3] == "Err" else "not known to be Ok")))
            else:
                if f.get("vis") != "Public" and not f.get("trait_item") and callers_of.get(f["path"]) and f["path"] not in R and v[3] != "Err":
                    promote.add(f["path"])
                    continue
                findings.append((f["path"], "consume-after-error:%s#%d" % (last(v[4]), n[v[0]]), v[2],
                                 "`%s` (which assigns the error slot a possibly-Ok value) is called while the slot is %s: characters keep being consumed after an error was recorded, and the error is then cleared" % (last(v[4]), "Err" if v[3] == "Err" else "not known to be Ok")))
    return findings, examined, promote


def rule_A3(ctx):
    F = ctx.F
    r = RuleResult("A3", "sticky-error: the lexer's error slot is never overwritten once set and no character is consumed while it is set")
    slots = [s for s in _slot_places(F, "::lexer::Lexer") if s[0].startswith("garnish_lang_compiler")]
    if not slots:
        r.anchor_missing("Lexer error slot", "no struct *::lexer::Lexer with a field of type Result<(), _>")
        return r
    struct, field = slots[0]
    fns = [f for f in F.fns.values() if f["crate"] == "garnish_lang_compiler" and struct.split("::")[-1] in f.get("impl_self", "") and f["kind"] != "Closure"]
    r.floor("Lexer methods", len(fns), 3)
    findings, W, R, direct = analyse_lexer(F, fns, struct, field, r)
    r.floor("functions that may write the error slot", len(W), 2)
    r.floor("stores to the error slot", sum(len(v) for v in direct.values()), 2)
    for fn, inst, where, msg in findings:
        r.finding(fn, inst, where, msg)
    # public reader: lex() must consult the slot after the iteration
    # controls
    cs = _slot_places(F, "::a3::CtlLexer")
    if cs:
        cstruct, cfield = cs[0]
        cf = [f for f in F.fns.values() if f["crate"] == "gfixture" and "CtlLexer" in f.get("impl_self", "") and f["kind"] != "Closure"]
        rr = RuleResult("A3c", "")
        fnd, _W, _R, _d = analyse_lexer(F, cf, cstruct, cfield, rr)
        r.control("ctl_feed_after_error", any("ctl_next" in x[0] for x in fnd))
    cs = _slot_places(F, "::a3::OkLexer")
    if cs:
        cstruct, cfield = cs[0]
        cf = [f for f in F.fns.values() if f["crate"] == "gfixture" and "OkLexer" in f.get("impl_self", "") and f["kind"] != "Closure"]
        rr = RuleResult("A3c", "")
        fnd, _W, _R, _d = analyse_lexer(F, cf, cstruct, cfield, rr)
        r.neg_control("ok_sticky", not fnd)
    return r


# ---------------------------------------------------------------------------------------------------------------------
# A8  trie-step classification sync.  The lexer classifies operators by walking a trie of the operator table; after each
#     character the token type must be the type *of the trie node reached* - including "no type" for a node that is only a
#     prefix of longer operators, which is what makes `>.` an error instead of a `>` token with the text `>.`.  Structurally:
#     on the Some(node) edge of every call of the trie walk made by a &mut self method, every path to the function's return
#     stores node.<type field> into the lexer's own type field (must-pass-through on the MIR CFG).


def _walk_fns(F, struct_path, node_suffix):
    """methods of the struct returning Option<&Node>: the trie walk."""
    out = []
    short = struct_path.split("::")[-1]
    for f in F.fns.values():
        if short in f.get("impl_self", "") and f["kind"] != "Closure" and f["crate"] == struct_path.split("::")[0]:
            rt = f["mir"]["locals"][0]["ty"]
            if rt.startswith("core::option::Option<&") and node_suffix in rt:
                out.append(f["path"])
    return out


def trie_sync_sites(F, f, walk_paths, node_ty_suffix):
    """[(where, ok, witness)] for each Some-edge of a trie-walk call in f (f takes &mut self)."""
    mir = f["mir"]
    if not mir["locals"][1]["ty"].startswith("&mut ") if len(mir["locals"]) > 1 else True:
        return []
    asg = mirq.assignments(mir)
    out = []
    for bi, b in enumerate(mir["blocks"]):
        t = b["term"]
        if b["cleanup"] or t["k"] != "Call" or (t.get("resolved") or t.get("def")) not in walk_paths:
            continue
        if t["dest"]["p"]:
            continue
        res = t["dest"]["l"]
        # blocks that bind `(res as Some).0`
        some_blocks = []
        node_locals = set()
        for ci, cb in enumerate(mir["blocks"]):
            for s in cb["stmts"]:
                if s["k"] == "Assign" and s["rv"]["k"] == "Use":
                    pl = mirq.op_place(s["rv"]["op"])
                    if pl and pl["l"] == res and any(isinstance(e, dict) and e.get("as") == "Some" for e in pl["p"]):
                        some_blocks.append(ci)
                        if not s["place"]["p"]:
                            node_locals.add(s["place"]["l"])
        if not some_blocks:
            continue  # the result is only tested (is_some) or passed on: no node is bound here

        def type_field_read(rv):
            """rvalue reads <node>.<field> where node is one of the bound nodes"""
            if rv["k"] != "Use":
                return False
            pl = mirq.op_place(rv["op"])
            if not pl or not pl["p"]:
                return False
            lastp = pl["p"][-1]
            if not (isinstance(lastp, dict) and "f" in lastp):
                return False
            base = pl["l"]
            bases = set([base]) | set(o[3] for o in mirq.origins(mir, base, asg))
            return bool(bases & node_locals) or any(
                o[2].get("k") == "Use" and (mirq.op_place(o[2]["op"]) or {}).get("l") == res for o in mirq.origins(mir, base, asg))

        def is_marker(ci, cb):
            for s in cb["stmts"]:
                if s["k"] != "Assign":
                    continue
                pr = s["place"]["p"]
                # a store into a field of *self whose value is the node's own type field (directly or through a temp)
                if s["place"]["l"] == 1 and pr and pr[0] == "*" and any(isinstance(e, dict) and "f" in e for e in pr):
                    rv = s["rv"]
                    if type_field_read(rv):
                        return True
                    if rv["k"] == "Use":
                        l = mirq.op_local(rv["op"])
                        if l is not None and any(type_field_read(o[2]) for o in mirq.origins(mir, l, asg) if o[1] != "term"):
                            return True
            return False

        for sb in sorted(set(some_blocks)):
            if is_marker(sb, mir["blocks"][sb]):
                out.append((loc(t), True, None))
                continue
            w = mirq.path_avoiding(mir, mirq.succs(mir["blocks"][sb]["term"]), is_marker)
            out.append((loc(t), w is None, w))
    return out


def rule_A8(ctx):
    F = ctx.F
    r = RuleResult("A8", "trie-step classification sync: after every step of the operator-trie walk the lexer's token type is the type of the node reached (also when that is none)")
    slots = [s for s in _slot_places(F, "::lexer::Lexer") if s[0].startswith("garnish_lang_compiler")]
    if not slots:
        r.anchor_missing("Lexer", "no struct *::lexer::Lexer")
        return r
    struct = slots[0][0]
    walks = _walk_fns(F, struct, "LexerOperatorNode")
    if not walks:
        r.anchor_missing("trie walk", "no Lexer method returning Option<&LexerOperatorNode>")
        return r
    r.analysed["trie_walk_functions"] = walks
    n = 0
    for f in sorted(F.fns.values(), key=lambda f: f["path"]):
        if f["crate"] != "garnish_lang_compiler" or struct.split("::")[-1] not in f.get("impl_self", "") or f["kind"] == "Closure":
            continue
        k = 0
        for where, ok, w in trie_sync_sites(F, f, walks, "LexerOperatorNode"):
            n += 1
            k += 1
            r.examine((f["path"], where), True, {"fn": f["path"], "trie_step_at": where, "type_follows_node_on_every_path": ok})
            if not ok:
                r.finding(f["path"], "stale-type#%d" % k, where, "after the trie step at %s a path reaches the end of the function without storing the reached node's type into the lexer's token type (blocks %s): a prefix node without a type of its own keeps the previous operator's classification, so the token's text and type disagree" % (where, w),
                          path=["CFG blocks: " + " -> ".join("bb%d" % x for x in (w or []))])
    r.floor("trie steps that bind the reached node", n, 2)
    for f in F.fns_in("gfixture::a8::"):
        if f["kind"] == "Closure" or not f.get("name", "").startswith(("ctl_", "ok_")):
            continue
        ws = [p for p, g in F.fns.items() if p.startswith("gfixture::a8::") and g.get("name") == "reached"]
        sites = trie_sync_sites(F, f, ws, "Node")
        bad = any(not ok for _w, ok, _p in sites)
        if f["name"].startswith("ctl_"):
            r.control(f["name"], bad)
        else:
            r.neg_control(f["name"], bool(sites) and not bad)
    return r
