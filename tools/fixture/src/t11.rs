//! T11 controls: loops that close a root with its end instructions.
use garnish_lang_traits::{GarnishData, Instruction};

pub fn ok_walks_all<D: GarnishData>(data: &mut D, ends: Vec<(Instruction, Option<D::Size>)>, last: Option<(Instruction, Option<D::Size>)>) -> Result<(), D::Error> {
    for end in ends {
        match last.clone() {
            Some(i) if i == end => {}
            _ => {
                data.push_instruction(end.0, end.1)?;
            }
        }
    }
    Ok(())
}

pub fn ok_if_form<D: GarnishData>(data: &mut D, ends: Vec<(Instruction, Option<D::Size>)>, last: Option<(Instruction, Option<D::Size>)>) -> Result<(), D::Error> {
    for end in ends {
        if last != Some(end.clone()) {
            data.push_instruction(end.0, end.1)?;
        }
    }
    Ok(())
}

pub fn ctl_break<D: GarnishData>(data: &mut D, ends: Vec<(Instruction, Option<D::Size>)>, last: Option<(Instruction, Option<D::Size>)>) -> Result<(), D::Error> {
    for end in ends {
        match last.clone() {
            Some(i) if i == end => break,
            _ => {
                data.push_instruction(end.0, end.1)?;
            }
        }
    }
    Ok(())
}

pub fn ctl_kind_only<D: GarnishData>(data: &mut D, ends: Vec<(Instruction, Option<D::Size>)>, last: Option<(Instruction, Option<D::Size>)>) -> Result<(), D::Error> {
    for end in ends {
        match last.clone() {
            Some(i) if i.0 == end.0 => {}
            _ => {
                data.push_instruction(end.0, end.1)?;
            }
        }
    }
    Ok(())
}

pub fn ok_matches_form<D: GarnishData>(data: &mut D, ends: Vec<(Instruction, Option<D::Size>)>, last: Option<(Instruction, Option<D::Size>)>) -> Result<(), D::Error> {
    for end in ends {
        let already_ended = matches!(last.clone(), Some(i) if i == end);
        if !already_ended {
            data.push_instruction(end.0, end.1)?;
        }
    }
    Ok(())
}

pub fn ok_continue_form<D: GarnishData>(data: &mut D, ends: Vec<(Instruction, Option<D::Size>)>, last: Option<(Instruction, Option<D::Size>)>) -> Result<(), D::Error> {
    for end in ends {
        if last == Some(end.clone()) {
            continue;
        }
        data.push_instruction(end.0, end.1)?;
    }
    Ok(())
}

pub fn ctl_continue_kind_only<D: GarnishData>(data: &mut D, ends: Vec<(Instruction, Option<D::Size>)>, last: Option<(Instruction, Option<D::Size>)>) -> Result<(), D::Error> {
    for end in ends {
        if last.clone().map(|i| i.0) == Some(end.0) {
            continue;
        }
        data.push_instruction(end.0, end.1)?;
    }
    Ok(())
}

pub fn ctl_matches_kind_only<D: GarnishData>(data: &mut D, ends: Vec<(Instruction, Option<D::Size>)>, last: Option<(Instruction, Option<D::Size>)>) -> Result<(), D::Error> {
    for end in ends {
        let already_ended = matches!(last.clone(), Some(i) if i.0 == end.0);
        if !already_ended {
            data.push_instruction(end.0, end.1)?;
        }
    }
    Ok(())
}

pub fn ctl_stream_last_unguarded<D: GarnishData>(data: &mut D, ends: Vec<(Instruction, Option<D::Size>)>) -> Result<(), D::Error> {
    let last = data.get_instruction_iter().last();
    for end in ends {
        match last.clone().and_then(|i| data.get_instruction(i)) {
            Some(i) if i == end => {}
            _ => {
                data.push_instruction(end.0, end.1)?;
            }
        }
    }
    Ok(())
}

pub fn ok_stream_last_guarded<D: GarnishData>(data: &mut D, root_start: D::Size, ends: Vec<(Instruction, Option<D::Size>)>) -> Result<(), D::Error> {
    let start = data.get_instruction_len();
    let _ = root_start;
    let last = if data.get_instruction_len() > start { data.get_instruction_iter().last() } else { None };
    for end in ends {
        match last.clone().and_then(|i| data.get_instruction(i)) {
            Some(i) if i == end => {}
            _ => {
                data.push_instruction(end.0, end.1)?;
            }
        }
    }
    Ok(())
}

/// a handler elsewhere records "the next instruction" as a jump-table entry; this root closer skips the end instruction
/// without looking at the jump table
pub fn ctl_join_ignored<D: GarnishData>(data: &mut D, ends: Vec<(Instruction, Option<D::Size>)>) -> Result<(), D::Error> {
    let start = data.get_instruction_len();
    let last = if data.get_instruction_len() > start { data.get_instruction_iter().last() } else { None };
    for end in ends {
        match last.clone().and_then(|i| data.get_instruction(i)) {
            Some(i) if i == end => {}
            _ => {
                data.push_instruction(end.0, end.1)?;
            }
        }
    }
    Ok(())
}

pub fn ok_join_checked<D: GarnishData>(data: &mut D, first_entry: D::Size, ends: Vec<(Instruction, Option<D::Size>)>) -> Result<(), D::Error> {
    use garnish_lang_traits::GarnishDataFactory;
    let start = data.get_instruction_len();
    let next = data.get_instruction_len();
    let joined = D::DataFactory::make_size_iterator_range(first_entry, data.get_jump_table_len()).any(|j| data.get_from_jump_table(j) == Some(next.clone()));
    let last = if data.get_instruction_len() > start && !joined { data.get_instruction_iter().last() } else { None };
    for end in ends {
        match last.clone().and_then(|i| data.get_instruction(i)) {
            Some(i) if i == end => {}
            _ => {
                data.push_instruction(end.0, end.1)?;
            }
        }
    }
    Ok(())
}
