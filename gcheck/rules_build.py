"""Builder rules: A2 metadata-pairing (typestate over MIR), T9 out-of-line operands, T10 attribution, D4 index origins."""
from .facts import walk, loc
from . import ai, hirq, mirq
from .hirq import peel, callee, call_args, last, path_def
from .origin import Body
from .report import RuleResult
from . import mirq
from .rules_numeric import allow
from .rules_tables import INSTR, DEFN, dispatch_matches, arm_table

PUSH_INSTR = "garnish_lang_traits::data::GarnishData::push_instruction"


def builder_fns(F, crate="garnish_lang_compiler", mod="::build::"):
    return [f for f in F.fns.values() if f["crate"] == crate and mod in f["path"] and f["kind"] != "Closure"]


def _is_meta_push(t):
    return t.get("def") == "alloc::vec::Vec::<T, A>::push" and t.get("gargs") and "InstructionMetadata" in t["gargs"][0]["txt"]


def a2_analyse(F, f, peers):
    """Typestate: balanced <-> pending.  Returns (violations, n_push_instruction, n_meta_push, states)."""
    viol = []
    counts = {"instr": set(), "meta": set()}

    def on_call(interp, env, ts, bi, t):
        d = t.get("def")
        if d == PUSH_INSTR:
            counts["instr"].add(bi)
            if ts == "pend":
                viol.append(("double-instruction", bi, loc(t)))
            return [(ai.TOP, "pend", None)]
        if _is_meta_push(t):
            counts["meta"].add(bi)
            if ts == "bal":
                viol.append(("metadata-without-instruction", bi, loc(t)))
            return [(ai.TOP, "bal", None)]
        if (t.get("resolved") or d) in peers:
            if ts == "pend":
                viol.append(("call-while-pending:" + last(d), bi, loc(t)))
            return None
        return None

    def on_return(interp, env, ts, bi):
        if ts == "pend":
            v = interp.read_key("_0", env)
            tag = env.get("_0.#")
            is_err = ai.is_variant(v, "Err") or (tag and tag[1] == "Err")
            if not is_err:
                viol.append(("pending-at-ok-return", bi, loc(interp.mir["blocks"][bi]["term"])))

    it = ai.Interp(f, hooks={"on_call": on_call, "on_return": on_return, "track": lambda k: ".*" not in k}, init_ts="bal", cap=60000)
    it.run()
    seen = set()
    out = []
    for v in viol:
        if (v[0], v[1]) in seen:
            continue
        seen.add((v[0], v[1]))
        out.append(v)
    return out, len(counts["instr"]), len(counts["meta"]), it.visited


def _emitters(fns):
    """Functions that (transitively) push instructions or metadata records: the ones whose calls matter."""
    direct = set()
    for f in fns:
        if any(b["term"]["k"] == "Call" and (b["term"].get("def") == PUSH_INSTR or _is_meta_push(b["term"])) for b in f["mir"]["blocks"]):
            direct.add(f["path"])
    peers = set(direct)
    changed = True
    while changed:
        changed = False
        for f in fns:
            if f["path"] in peers:
                continue
            for b in f["mir"]["blocks"]:
                t = b["term"]
                if t["k"] == "Call" and (t.get("resolved") or t.get("def")) in peers:
                    peers.add(f["path"])
                    changed = True
                    break
    return peers


def rule_A2(ctx):
    F = ctx.F
    r = RuleResult("A2", "metadata-pairing: on every path through the builder each push_instruction is followed by exactly one InstructionMetadata push before the next instruction or an Ok return")
    fns = builder_fns(F)
    peers = _emitters(fns)
    al = allow("pairing_exceptions.json")
    ni = nm = 0
    for f in sorted(fns, key=lambda f: f["path"]):
        has = any(b["term"]["k"] == "Call" and (b["term"].get("def") == PUSH_INSTR or _is_meta_push(b["term"])) for b in f["mir"]["blocks"])
        if not has:
            continue
        try:
            viol, a, b, states = a2_analyse(F, f, peers)
        except ai.StateCapExceeded as e:
            r.finding(f["path"], "state-cap", "-", "analysis exceeded its state cap (%s): cannot show the pairing, failing closed" % e)
            continue
        ni += a
        nm += b
        r.examine((f["path"],), True, {"fn": f["path"], "push_instruction_sites": a, "metadata_push_sites": b, "abstract_states": states})
        r.examined += a + b
        by = {}
        for kind, bi, where in viol:
            by.setdefault(kind, []).append(where)
        for kind, wheres in sorted(by.items()):
            allowed = al.get(f["path"], {}).get(kind, {}).get("count", 0)
            if len(wheres) > allowed:
                r.finding(f["path"], "%s|n=%d" % (kind, len(wheres)), wheres[0], {
                    "double-instruction": "a second push_instruction is reached while the previous instruction has no metadata record yet",
                    "metadata-without-instruction": "an InstructionMetadata record is pushed with no instruction pending: the two vectors go out of step",
                    "pending-at-ok-return": "the function can return Ok with an instruction pushed and no metadata record for it",
                }.get(kind, "a builder helper is called while an instruction still lacks its metadata record") + " (at %s; %d allowed)" % (", ".join(wheres), allowed))
            elif wheres:
                r.info.append("allowed %s %s x%d: %s" % (f["path"], kind, len(wheres), al[f["path"]][kind]["reason"]))
    r.floor("push_instruction call sites in compiler::build", ni, 5)
    r.floor("InstructionMetadata push sites in compiler::build", nm, 5)
    # the record list changes only by the paired push: a resize / extend / truncate / insert / pop on it puts it out of step
    # with the instructions this build emitted (e.g. padding it to the data object's TOTAL instruction count)
    for f in sorted(fns, key=lambda f: f["path"]):
        for n_ in walk(f["hir"]):
            if n_.get("k") == "MethodCall" and "InstructionMetadata" in (n_.get("recv_ty") or "") and "Vec<" in (n_.get("recv_ty") or "") and n_.get("m") in (
                    "resize", "resize_with", "extend", "extend_from_slice", "truncate", "insert", "pop", "remove", "clear", "append", "drain", "retain", "swap_remove", "dedup", "split_off"):
                r.finding(f["path"].split("::{closure")[0], "metadata-list-mutated:%s" % n_["m"], loc(n_), "the instruction metadata list is changed by `%s` at %s instead of the push that accompanies each emitted instruction: its length no longer equals the number of instructions this build emitted (built into an object that already holds instructions it gets extra records)" % (n_["m"], loc(n_)))
    # controls
    cf = [f for f in F.fns_in("gfixture::a2::") if f["kind"] != "Closure"]
    cpeers = _emitters(cf)
    for f in cf:
        viol, _a, _b, _s = a2_analyse(F, f, cpeers)
        if f["name"].startswith("ctl_"):
            r.control(f["name"], bool(viol))
        elif f["name"].startswith("ok_"):
            r.neg_control(f["name"], not viol)
    return r


# --------------------------------------------------------------------------------------- T10

META_NEW_SUFFIX = "InstructionMetadata::new"


_META_HELPERS = {}


def meta_helpers(F):
    """builder functions that construct the metadata record from one of their own parameters: path -> parameter position"""
    key = id(F)
    if key not in _META_HELPERS:
        out = {}
        for g in F.fns.values():
            if g["crate"] != "garnish_lang_compiler" or g["kind"] == "Closure" or not g.get("hir") or "::build::" not in g["path"]:
                continue
            pos = {}
            for i, prm in enumerate(g.get("params", [])):
                for b in walk(prm):
                    if b.get("k") == "Binding":
                        pos[b["lid"]] = i
            for d, n in hirq.calls_in(g["hir"]):
                if d.endswith(META_NEW_SUFFIX) and n.get("args"):
                    a = peel(n["args"][0])
                    if a.get("k") == "Path" and a.get("res") == "local" and a.get("lid") in pos:
                        out[g["path"]] = pos[a["lid"]]
        _META_HELPERS[key] = out
    return _META_HELPERS[key]


def _meta_calls(F, f):
    """(attributed?, where) for every InstructionMetadata::new(..) in f: attributed when the argument is Some(x) and x
    originates from a `node_index` parameter or a `parse_node_index` field."""
    body = Body(f)
    out = []
    pnames = {}
    for i, p in enumerate(f.get("params", [])):
        if p.get("k") == "Binding":
            pnames[i] = p.get("name")
    helpers = meta_helpers(F)
    for d, n in hirq.calls_in(f["hir"]):
        if d in helpers and f.get("path") != d:
            args_ = call_args(n)
            a = peel(args_[helpers[d]]) if helpers[d] < len(args_) else {}
        elif d.endswith(META_NEW_SUFFIX):
            a = peel(n["args"][0]) if n.get("args") else {}
        else:
            continue
        attributed = False
        if a.get("k") == "Call" and (callee(a) or "").endswith("::Some") and a["args"]:
            orgs = body.origins(a["args"][0])
            ok = bool(orgs)
            for o in orgs:
                if o.get("k") == "Param" and pnames.get(o["index"], "").endswith("node_index"):
                    continue
                if o.get("k") == "Field" and o.get("name") == "parse_node_index":
                    continue
                ok = False
            attributed = ok
        out.append((attributed, loc(n), n))
    return out


def rule_T10(ctx):
    F = ctx.F
    r = RuleResult("T10", "attribution: every Definition handler records at least one instruction against the node it handles")
    al = allow("attribution_exceptions.json")
    ms = [x for x in dispatch_matches(F, DEFN, ["garnish_lang_compiler"], 0.8) if "::build::" in x[0]["path"]]
    if not ms:
        r.anchor_missing("handle_parse_node dispatch", "no Definition dispatch match in compiler::build")
        return r
    f, m, named = ms[0]
    node_param = None
    for p in f.get("params", []):
        if p.get("k") == "Binding" and p.get("name", "").endswith("node_index"):
            node_param = p["lid"]
    n_arms = 0
    cache = {}
    for alts, _g, arm in arm_table(m):
        fake = {"path": f["path"], "params": f.get("params", []), "hir": arm["body"]}
        here = _meta_calls(F, fake)
        attributed = any(a for a, _w, _n in here)
        total = len(here)
        handlers = []
        for d, n in hirq.calls_in(arm["body"]):
            g = F.fns.get(d)
            if g and g["crate"] == "garnish_lang_compiler" and "::build::" in d and g["kind"] != "Closure" and not d.endswith(META_NEW_SUFFIX):
                passes_node = any(hirq.local_of(a) == node_param for a in call_args(n))
                if d not in cache:
                    # follow one more level (handle_value_primitive -> handle_value_like, handle_binary_operation -> _with_push)
                    mc = _meta_calls(F, g)
                    for d2, n2 in hirq.calls_in(g["hir"]):
                        g2 = F.fns.get(d2)
                        if g2 and g2["crate"] == "garnish_lang_compiler" and "::build::" in d2 and g2["kind"] != "Closure" and not d2.endswith(META_NEW_SUFFIX):
                            mc = mc + _meta_calls(F, g2)
                    cache[d] = mc
                handlers.append((d, passes_node, cache[d]))
                total += len(cache[d])
                if passes_node and any(a for a, _w, _n in cache[d]):
                    attributed = True
        for a in alts:
            if a[0] != "V":
                continue
            v = last(a[1])
            n_arms += 1
            r.examine(("def", v), True, {"definition": v, "attributed": attributed, "metadata_constructions": total, "handlers": [last(h[0]) for h in handlers]})
            if not attributed:
                if v in al:
                    r.info.append("exception %s: %s" % (v, al[v]))
                    continue
                r.finding(f["path"], "unattributed:" + v, loc(arm), "the handler of Definition::%s never records an instruction with Some(node index) of the node it handles: the construct would be built with no instruction attributed to it" % v)
    r.floor("Definition arms examined", n_arms, 69)
    return r


# --------------------------------------------------------------------------------------- D4

from .origin import Deep  # noqa: E402

JUMP_INSTR = {"JumpIfTrue", "JumpIfFalse", "JumpTo", "And", "Or", "Reapply"}
DATA_INSTR = {"Put", "Resolve"}
COUNT_INSTR = {"MakeList"}


def _classify(o):
    """Kind of a terminal origin node."""
    k = o.get("k")
    d = callee(o) if k in ("Call", "MethodCall") else None
    n = last(d) if d else None
    if n == "get_jump_table_len":
        return "jump_table_len"
    if n == "get_instruction_len":
        return "instruction_len"
    if n and "GarnishData" in d and (n.startswith("add_") or n.startswith("parse_add_") or n in ("end_list", "start_list", "merge_to_symbol_list")):
        return "data_addr"
    if n in ("zero",):
        return "zero"
    if n in ("one",):
        return "one"
    if n == "next" and "Iterator" in (d or ""):
        return "counter"
    if n == "get_data_len":
        return "data_len"
    if k == "Lit":
        return "literal"
    if k == "Path" and (o.get("def") or "").endswith("::None"):
        return "none"
    if k == "OpenParam":
        return "open_param"
    return "other:" + (n or k or "?")


def rule_D4(ctx):
    F = ctx.F
    r = RuleResult("D4", "index-origin: jump operands, expression values and the entry index come from get_jump_table_len(); data operands from the data object's own add_*; jump-table entries are get_instruction_len() or patched placeholders")
    deep = Deep(F, ["garnish_lang_compiler"])
    fns = builder_fns(F)
    n_push = n_jt = n_expr = 0
    for f in sorted(fns, key=lambda f: f["path"]):
        for d, n in hirq.calls_in(f["hir"]):
            args = call_args(n)
            if d == PUSH_INSTR and len(args) >= 3:
                n_push += 1
                instrs = set()
                for o in deep.resolve(f, args[1]):
                    pd = path_def(o) if o.get("k") == "Path" else None
                    if pd and pd.startswith(INSTR + "::"):
                        instrs.add(last(pd))
                    elif o.get("k") == "Field":
                        pass
                kinds = set()
                operand = peel(args[2])
                if operand.get("k") == "Call" and (callee(operand) or "").endswith("::Some") and operand["args"]:
                    for o in deep.resolve(f, operand["args"][0]):
                        kinds.add(_classify(o))
                elif path_def(operand) and str(path_def(operand)).endswith("::None"):
                    kinds.add("none")
                else:
                    for o in deep.resolve(f, operand):
                        kinds.add(_classify(o))
                r.examine((f["path"], "push", loc(n)), True, {"fn": last(f["path"]), "where": loc(n), "instructions": sorted(instrs), "operand_origins": sorted(kinds)})
                kinds.discard("none")
                if not instrs:
                    r.finding(f["path"], "push:unknown-instruction:" + "/".join(sorted(kinds)), loc(n), "cannot determine which instruction constant reaches this push_instruction")
                    continue
                for ins in sorted(instrs):
                    if ins in JUMP_INSTR:
                        want = {"jump_table_len"}
                    elif ins in DATA_INSTR:
                        want = {"data_addr"}
                    elif ins in COUNT_INSTR:
                        want = {"counter", "one"}
                    else:
                        want = set()
                    # a helper shared by several instructions carries the union of their operand kinds; check per
                    # instruction only when the helper serves a single operand kind
                    if len(instrs) > 1 and any((i in JUMP_INSTR) != (ins in JUMP_INSTR) or (i in DATA_INSTR) != (ins in DATA_INSTR) for i in instrs):
                        continue
                    bad = kinds - want
                    if want and not kinds:
                        r.finding(f["path"], "operand-missing:" + ins, loc(n), "%s needs an operand but None is pushed" % ins)
                    elif bad:
                        r.finding(f["path"], "operand-origin:%s:%s" % (ins, "/".join(sorted(bad))), loc(n),
                                  "operand of %s originates from %s; it must come from %s (an index of the kind the instruction's reader expects, taken from the data object's current tables)" % (ins, sorted(bad), sorted(want)))
                    elif not want and kinds:
                        r.finding(f["path"], "operand-unexpected:%s" % ins, loc(n), "%s takes no operand but one is pushed (%s)" % (ins, sorted(kinds)))
            elif last(d) == "push_to_jump_table" and "GarnishData" in d:
                n_jt += 1
                kinds = set(_classify(o) for o in deep.resolve(f, args[-1]))
                r.examine((f["path"], "jt", loc(n)), True, {"fn": last(f["path"]), "where": loc(n), "entry_origins": sorted(kinds)})
                bad = kinds - {"instruction_len", "zero"}
                if bad:
                    r.finding(f["path"], "jump-entry-origin:" + "/".join(sorted(bad)), loc(n), "jump-table entry originates from %s; it must be get_instruction_len() or the zero placeholder that is patched later" % sorted(bad))
                if "zero" in kinds:
                    # the placeholder's index must be registered for patching: the get_jump_table_len() local read in this
                    # function must reach a BuildNode/ConditionItem constructor
                    body = deep.body(f)
                    registered = False
                    for d2, n2 in hirq.calls_in(f["hir"]):
                        if "BuildNode" in d2 and last(d2).startswith("new_with_jump"):
                            for a in call_args(n2):
                                if any(_classify(o) == "jump_table_len" for o in body.origins(a)):
                                    registered = True
                    for m in walk(f["hir"]):
                        if m.get("k") == "Struct" and (m.get("def") or "").endswith("ConditionItem"):
                            for fl in m["fields"]:
                                if fl["name"] == "jump_index_to_update" and any(_classify(o) == "jump_table_len" for o in body.origins(fl["e"])):
                                    registered = True
                    if not registered:
                        r.finding(f["path"], "placeholder-unregistered", loc(n), "a zero placeholder is pushed to the jump table but its index never reaches a jump_index_to_update slot: it would never be patched")
            elif last(d) == "add_expression" and "GarnishData" in d:
                n_expr += 1
                kinds = set(_classify(o) for o in deep.resolve(f, args[-1]))
                r.examine((f["path"], "expr", loc(n)), True, {"fn": last(f["path"]), "where": loc(n), "expression_value_origins": sorted(kinds)})
                kinds.discard("none")  # an Option field's None initialiser: excluded by the Some(..) pattern that yields the value
                if kinds - {"jump_table_len"}:
                    r.finding(f["path"], "expression-origin:" + "/".join(sorted(kinds - {"jump_table_len"})), loc(n), "expression value originates from %s; it must be a jump-table index taken from get_jump_table_len()" % sorted(kinds))
    # end-instruction tuples (Instruction::X, operand) handed to the root emitter
    n_tup = 0
    for f in sorted(fns, key=lambda f: f["path"]):
        for n in walk(f["hir"]):
            if n.get("k") == "Tup" and len(n.get("es", [])) == 2:
                pd = path_def(n["es"][0])
                if not (pd and pd.startswith(INSTR + "::")):
                    continue
                ins = last(pd)
                if ins == "Invalid":
                    continue
                n_tup += 1
                operand = peel(n["es"][1])
                kinds = set()
                if operand.get("k") == "Call" and (callee(operand) or "").endswith("::Some") and operand["args"]:
                    kinds = set(_classify(o) for o in deep.resolve(f, operand["args"][0]))
                elif not (path_def(operand) and str(path_def(operand)).endswith("::None")):
                    kinds = set(_classify(o) for o in deep.resolve(f, operand))
                kinds.discard("none")
                want = {"jump_table_len"} if ins in JUMP_INSTR else ({"data_addr"} if ins in DATA_INSTR else ({"counter", "one"} if ins in COUNT_INSTR else set()))
                r.examine((f["path"], "tuple", loc(n)), True, {"fn": last(f["path"]), "where": loc(n), "end_instruction": ins, "operand_origins": sorted(kinds)})
                if want and not kinds:
                    r.finding(f["path"], "end-operand-missing:" + ins, loc(n), "end instruction %s needs an operand but None is given" % ins)
                elif kinds - want:
                    r.finding(f["path"], "end-operand-origin:%s:%s" % (ins, "/".join(sorted(kinds - want))), loc(n), "operand of end instruction %s originates from %s; it must come from %s" % (ins, sorted(kinds - want), sorted(want) or "nothing (no operand)"))
    r.floor("end-instruction tuples", n_tup, 2)
    r.floor("push_instruction sites", n_push, 5)
    r.floor("push_to_jump_table sites", n_jt, 1)
    r.floor("add_expression sites", n_expr, 1)
    # patch consumer + entry index in build()
    bf = [f for f in fns if f.get("name") == "build" and f.get("vis") == "Public"]
    if not bf:
        r.anchor_missing("build()", "public fn build not found")
        return r
    f = bf[0]
    body = deep.body(f)
    patched = False
    # the patch may sit in a private helper build() calls (two hops)
    patch_fns = [f]
    for hop in range(2):
        for g0 in list(patch_fns):
            for d_, _n in hirq.calls_in(g0["hir"]):
                g = F.fns.get(d_)
                if g is not None and g in fns and g not in patch_fns and not (g.get("name") or "").startswith("handle_"):
                    patch_fns.append(g)
    for pf in patch_fns:
      body = deep.body(pf)
      for n in walk(pf["hir"]):
        if n.get("k") == "Assign":
              l = peel(n["l"])
              # *item = jump_index  where item comes from get_from_jump_table_mut
              lo = body.origins(n["l"]) if l.get("k") != "Unary" else body.origins(l["e"])
              if any(last(callee(o) or "") == "get_from_jump_table_mut" for o in lo):
                  kinds = set(_classify(o) for o in body.origins(n["r"]))
                  r.examine((pf["path"], "patch", loc(n)), True, {"where": loc(n), "patched_with": sorted(kinds)})
                  patched = True
                  if kinds != {"instruction_len"}:
                      r.finding(pf["path"], "patch-origin", loc(n), "a jump-table placeholder is patched with %s; it must be get_instruction_len() at the time the root is emitted" % sorted(kinds))
    body = deep.body(f)
    if not patched:
        r.finding(f["path"], "patch-missing", "-", "build() never stores through get_from_jump_table_mut: placeholders are never patched")
    # entry index: the jump_index of the returned BuildData
    n_entry = 0
    for d, n in hirq.calls_in(f["hir"]):
        if d.endswith("BuildData::<Data>::new") or (last(d) == "new" and "BuildData" in d):
            args = call_args(n)
            if len(args) >= 3:
                kinds = set(_classify(o) for o in deep.resolve(f, args[2]))
                n_entry += 1
                r.examine((f["path"], "entry", loc(n)), True, {"where": loc(n), "entry_index_origins": sorted(kinds)})
                if kinds != {"jump_table_len"}:
                    r.finding(f["path"], "entry-origin", loc(n), "the entry index reported by build() originates from %s; it must be get_jump_table_len() read before the first root is registered" % sorted(kinds))
    for n in walk(f["hir"]):
        if n.get("k") == "Struct" and (n.get("def") or "").endswith("BuildData"):
            for fl in n["fields"]:
                if fl["name"] == "jump_index":
                    kinds = set(_classify(o) for o in deep.resolve(f, fl["e"]))
                    n_entry += 1
                    r.examine((f["path"], "entry-lit", loc(n)), True, {"where": loc(n), "entry_index_origins": sorted(kinds)})
                    al = allow("pairing_exceptions.json").get(f["path"], {})
                    if kinds - {"jump_table_len"}:
                        r.finding(f["path"], "entry-origin:literal-struct:" + "/".join(sorted(kinds)), loc(n), "the entry index in the returned BuildData originates from %s, not from get_jump_table_len(): with a non-empty jump table the reported entry point belongs to an earlier program" % sorted(kinds))
    r.floor("entry-index constructions in build()", n_entry, 1)
    return r


# --------------------------------------------------------------------------------------- D7
# Conditional-chain membership.  A conditional (`?>` / `!>`) whose build node carries a `conditional_parent` does not patch its
# own placeholder: it registers (branch node, placeholder index) with that parent and relies on the parent to schedule the
# branch, which is where the placeholder gets patched.  Only the handler that walks `conditional_items` does that.  So a
# node's conditional_parent may be *forwarded* to another node only by such a consumer (the else-chain); any other construct
# (a group, an operator) that passes the marker on hands the conditional to a parent that never schedules its branch - the
# zero placeholder survives the build.


def _contexts(F):
    """[(fn, label, node)] analysis contexts of the builder: every arm of the Definition dispatch separately, every other
    builder function as a whole."""
    out = []
    ms = [x for x in dispatch_matches(F, DEFN, ["garnish_lang_compiler"], 0.8) if "::build::" in x[0]["path"]]
    disp_fn = ms[0][0]["path"] if ms else None
    if ms:
        f, m, _n = ms[0]
        for alts, _g, arm in arm_table(m):
            names = sorted(set(last(a[1]) for a in alts if a[0] == "V" and a[1]))
            out.append((f, "arm:" + "|".join(names), arm["body"]))
    for f in builder_fns(F):
        if f["path"] != disp_fn and not f.get("impl_trait"):  # derived Debug / PartialEq bodies read every field
            out.append((f, "fn:" + (f.get("name") or "?"), f["hir"]))
    return out


def rule_D7(ctx):
    F = ctx.F
    r = RuleResult("D7", "conditional-chain membership: a node's conditional_parent is handed on to another node only by the handler that schedules conditional_items (the else-chain); nothing else forwards the marker")
    n_ctor = n_fwd = 0
    consumers = []
    for f, label, node in _contexts(F):
        body = Body(f)
        # consumer: iterates the registered branches (reads conditional_items other than to push onto it)
        consumer = False
        for n in walk(node):
            if n.get("k") == "Field" and n.get("name") == "conditional_items":
                consumer_here = True
                consumer = consumer or consumer_here
        # a mere `x.conditional_items.push(..)` is the producer side
        pushes = [n for n in walk(node) if n.get("k") == "MethodCall" and n.get("m") == "push" and peel(n["recv"]).get("k") == "Field" and peel(n["recv"]).get("name") == "conditional_items"]
        reads = [n for n in walk(node) if n.get("k") == "Field" and n.get("name") == "conditional_items"]
        consumer = len(reads) > len(pushes)
        if consumer:
            consumers.append(label)
        for d, c in hirq.calls_in(node):
            if not ("BuildNode" in d and "conditional" in last(d)):
                continue
            args = call_args(c)
            if len(args) < 3:
                continue
            n_ctor += 1
            kinds = set()
            for o in body.origins(args[2]):
                if o.get("k") == "Field" and o.get("name") == "conditional_parent":
                    kinds.add("forwarded")
                elif o.get("k") == "Param":
                    kinds.add("own-index")
                else:
                    kinds.add(_classify(o))
            r.examine((f["path"], label, loc(c)), True, {"context": label, "where": loc(c), "conditional_parent_from": sorted(kinds), "context_schedules_conditional_items": consumer})
            if "forwarded" in kinds:
                n_fwd += 1
                if not consumer:
                    r.finding(f["path"], "forwarded-outside-chain:" + label, loc(c),
                              "%s hands its own conditional_parent on to a child, but it never schedules conditional_items: a conditional below it registers its branch with a parent that does not build it, and the zero placeholder in the jump table is never patched" % label)
        # the marker can also be handed on by assigning the field of a node built otherwise (`inner.conditional_parent = node.conditional_parent`),
        # or by a struct literal / update
        for n in walk(node):
            src = None
            if n.get("k") == "Assign" and peel(n["l"]).get("k") == "Field" and peel(n["l"]).get("name") == "conditional_parent":
                src = n["r"]
            elif n.get("k") == "Struct" and "BuildNode" in (n.get("def") or n.get("txt") or ""):
                for fl in n.get("fields", []):
                    if fl.get("name") == "conditional_parent":
                        src = fl.get("e")
            if src is None:
                continue
            fwd = any(x.get("k") == "Field" and x.get("name") == "conditional_parent" for x in walk(src)) or any(
                isinstance(o, dict) and o.get("k") == "Field" and o.get("name") == "conditional_parent" for o in body.origins(src))
            if fwd:
                n_fwd += 1
                r.examine((f["path"], label, loc(n)), True, {"context": label, "where": loc(n), "conditional_parent_from": ["forwarded (field store)"], "context_schedules_conditional_items": consumer})
                if not consumer:
                    r.finding(f["path"], "forwarded-outside-chain:" + label, loc(n),
                              "%s hands its own conditional_parent on to a child (stored into the child's field at %s), but it never schedules conditional_items: a conditional below it registers its branch with a parent that does not build it, and the zero placeholder in the jump table is never patched" % (label, loc(n)))
    r.analysed["contexts_scheduling_conditional_items"] = consumers
    r.floor("constructions with a conditional parent", n_ctor, 2)
    r.floor("handlers scheduling conditional_items", len(consumers), 1)
    return r


# --------------------------------------------------------------------------------------- G5
# Reachable links form a tree.  build() walks the parse result with an explicit work stack and schedules every child it meets;
# it terminates (C03) and attributes each node once (C04) only if no node is reachable twice from the root - a shared node or
# a cycle makes it re-schedule nodes for ever.  `parse` can return such results for malformed input (`5 + + 3`), so the
# builder must reject them itself: before anything is emitted there is a walk over get_left()/get_right() links from the root
# that marks visited nodes and returns Err when it meets a marked one.


def _tree_walk_loops(f):
    """Loops in f that follow get_left / get_right, keep a visited collection and leave with an error on a repeat."""
    out = []
    body = Body(f)
    for lp in walk(f["hir"]):
        if lp.get("k") != "Loop":
            continue
        calls = [last(d) for d, _c in hirq.calls_in(lp)]
        if "get_left" not in calls or "get_right" not in calls or "push_instruction" in calls:
            continue
        # collections written in the loop: `v[i] = ..`, `v.insert(..)`
        written = set()
        for n in walk(lp):
            if n.get("k") == "Assign" and peel(n["l"]).get("k") == "Index":
                l = hirq.local_of(peel(n["l"])["e"])
                if l is not None:
                    written.add(l)
            if n.get("k") == "MethodCall" and n.get("m") in ("insert",):
                l = hirq.local_of(n["recv"])
                if l is not None:
                    written.add(l)
        # `*slot = true` where slot came from `v.get_mut(i)` / `v.iter_mut()`
        deref_store = any(n.get("k") == "Assign" and n["l"].get("k") == "Unary" and n["l"].get("op") == "*" for n in walk(lp))
        if deref_store:
            for n in walk(lp):
                if n.get("k") == "MethodCall" and n.get("m") in ("get_mut", "entry", "iter_mut"):
                    l = hirq.local_of(n["recv"])
                    if l is not None:
                        written.add(l)
        if not written:
            continue
        # an error exit whose condition reads one of them
        def reads_written(e):
            for x in walk(e):
                if x.get("k") == "Path" and x.get("res") == "local" and x.get("lid") in written:
                    return True
            return False
        def has_err_exit(e):
            for x in walk(e or {}):
                if x.get("k") == "Ret" and (callee(x.get("e") or {}) or "").endswith("::Err"):
                    return True
                if x.get("k") == "Call" and (callee(x) or "").endswith("::Err"):
                    return True
            return False
        ok = False
        for n in walk(lp):
            if n.get("k") == "If" and reads_written(n["cond"]) and (has_err_exit(n.get("then")) or has_err_exit(n.get("else"))):
                ok = True
            if n.get("k") == "If" and any(x.get("k") == "MethodCall" and x.get("m") == "insert" and hirq.local_of(x["recv"]) in written for x in walk(n["cond"])) and (has_err_exit(n.get("then")) or has_err_exit(n.get("else"))):
                ok = True
            if n.get("k") == "Match" and n.get("src") == "Normal" and reads_written(n["scrut"]) and any(has_err_exit(a["body"]) for a in n["arms"]):
                ok = True
        if ok:
            out.append(lp)
            _WALK_WRITTEN[id(lp)] = written
    return out


_WALK_WRITTEN = {}


def walk_exemptions(f, lp):
    """ways through one iteration of a validating walk that neither mark the node just taken from the work list nor leave with
    an error: such nodes are exempt from the reached-twice test"""
    from .rules_round3 import _d10_eval
    written = _WALK_WRITTEN.get(id(lp), set())
    def is_mark(n):
        k = n.get("k")
        if k == "Assign":
            l = n["l"]
            if l.get("k") == "Unary" and l.get("op") == "*":
                return True
            pl = peel(l)
            if pl.get("k") == "Index" and hirq.local_of(pl["e"]) in written:
                return True
        if k == "MethodCall" and n.get("m") == "insert" and hirq.local_of(n["recv"]) in written:
            return True
        if k in ("Ret",):
            return True
        if k == "Call" and (callee(n) or "").endswith("::Err"):
            return True
        return False
    body = lp.get("body")
    # `while let Some(x) = work.pop()`: the iteration proper is the Some arm
    target = body
    for m in walk(body):
        if m.get("k") == "Match" and m.get("src") in ("WhileLetDesugar", "ForLoopDesugar") :
            arms = [a for a in m["arms"] if any(b.get("k") == "Binding" for b in walk(a["pat"]))]
            if arms:
                target = arms[0]["body"]
            break
        if m.get("k") == "If" and any(x.get("k") in ("Let", "LetExpr") for x in walk(m.get("cond") or {})):
            target = m.get("then")
            break
    if isinstance(target, dict) and "k" not in target and "stmts" in target:
        target = {"k": "Block", "b": target}
    drops = []
    fall = _d10_eval(target, {False}, drops, 0, is_mark)
    return len(drops) + (1 if False in fall else 0)


def rule_G5(ctx):
    F = ctx.F
    r = RuleResult("G5", "reachable links form a tree: before emitting anything build() walks the left/right links from the root, marks visited nodes and rejects a node met twice (a shared node or a cycle would make the work-stack walk re-schedule nodes for ever)")
    bf = [f for f in builder_fns(F) if f.get("name") == "build" and f.get("vis") == "Public"]
    if not bf:
        r.anchor_missing("build()", "public fn build not found")
        return r
    b0 = bf[0]
    search = [b0]
    for d, _n in hirq.calls_in(b0["hir"]):
        g = F.fns.get(d)
        if g is not None and g["crate"] == b0["crate"] and g["kind"] != "Closure" and g not in search and not (g.get("name") or "").startswith("handle_"):
            search.append(g)
    found = []
    for g in search:
        for lp in _tree_walk_loops(g):
            found.append((g, lp))
    r.examine((b0["path"], "tree-walk"), True, {"fn": b0["path"], "functions_searched": [g["path"] for g in search], "validating_walks": [loc(lp) for _g, lp in found]})
    if not found:
        r.finding(b0["path"], "no-tree-validation", loc(b0["hir"]),
                  "build() never checks that the nodes reachable from the root through get_left()/get_right() are reached once: for a parse result with a shared node or a cycle (parse returns one for `5 + + 3`) the work-stack walk schedules nodes for ever - build does not terminate and memory grows without bound")
    else:
        for g_, lp_ in found:
            ex = walk_exemptions(g_, lp_)
            r.examine((g_["path"], "exemptions"), True, {"fn": g_["path"], "walk": loc(lp_), "iteration_paths_that_neither_mark_nor_fail": ex})
            if ex:
                r.finding(g_["path"], "walk-exempts-nodes", loc(lp_), "an iteration of the validating walk at %s can finish without marking the node it took from the work list and without failing (%d way(s)): nodes taken that way are exempt from the reached-twice test - a shared leaf is then built under two parents, the second build state overwrites the first and its reserved jump-table entry is never patched" % (loc(lp_), ex))
        # the walk must come before emission: in build() itself, its statement precedes the first statement that emits
        g, lp = found[0]
        if g is b0:
            top = peel(b0["hir"])
            stmts = top["b"]["stmts"] if top.get("k") == "Block" else []
            def idx_of(pred):
                for i, st in enumerate(stmts):
                    if any(pred(x) for x in walk(st)):
                        return i
                return None
            wi = idx_of(lambda x: x is lp)
            ei = idx_of(lambda x: x.get("k") in ("Call", "MethodCall") and last(callee(x) or "") in ("handle_parse_node",))
            if wi is not None and ei is not None and wi > ei:
                r.finding(b0["path"], "tree-validation-after-emission", loc(lp), "the tree validation walk runs after the emission loop has started")
    for f in F.fns_in("gfixture::g5::"):
        if f["kind"] == "Closure":
            continue
        lps = _tree_walk_loops(f)
        hit = not lps or any(walk_exemptions(f, lp) for lp in lps)
        if f["name"].startswith("ctl_"):
            r.control(f["name"], hit)
        elif f["name"].startswith("ok_"):
            r.neg_control(f["name"], not hit)
    return r


# --------------------------------------------------------------------------------------- A10
# Entry before instructions.  A root's jump-table entry is `get_instruction_len()` at the moment the root starts: it must be
# registered (pushed, or patched into its placeholder) before the first instruction of the root is emitted, otherwise the
# entry points past it.  Must-pass-through on build()'s MIR CFG: every path from the function entry to a call that emits an
# instruction passes a jump-table registration.


def _emitting_fns(F):
    """builder functions that (transitively) call GarnishData::push_instruction"""
    fns = {f["path"]: f for f in builder_fns(F)}
    direct = set()
    calls = {}
    for p, f in fns.items():
        cs = set()
        for b in f["mir"]["blocks"]:
            t = b["term"]
            if t["k"] == "Call":
                d = t.get("resolved") or t.get("def") or ""
                if (t.get("def") or "") == PUSH_INSTR:
                    direct.add(p)
                if d in fns:
                    cs.add(d)
                for ga in t.get("gargs", []):
                    if ga.get("fn") in fns:
                        cs.add(ga["fn"])
        calls[p] = cs
    em = set(direct)
    changed = True
    while changed:
        changed = False
        for p, cs in calls.items():
            if p not in em and cs & em:
                em.add(p)
                changed = True
    return em


def _registering_fns(F, emitters):
    """builder functions that register a jump-table entry and never emit: calling one is a registration"""
    fns = {f["path"]: f for f in builder_fns(F)}
    out = set()
    for p, f in fns.items():
        if p in emitters:
            continue
        for b in f["mir"]["blocks"]:
            t = b["term"]
            if t["k"] == "Call" and last(t.get("def") or "") in ("push_to_jump_table", "get_from_jump_table_mut") and "GarnishData" in (t.get("def") or ""):
                out.add(p)
    return out


def entry_order_witness(F, f, emitters):
    mir = f["mir"]
    registrars = _registering_fns(F, emitters)
    def is_reg(bi, b):
        t = b["term"]
        if t["k"] != "Call":
            return False
        if (t.get("resolved") or t.get("def") or "") in registrars:
            return True
        return last(t.get("def") or "") in ("push_to_jump_table", "get_from_jump_table_mut") and "GarnishData" in (t.get("def") or "")
    def is_emit(bi, b):
        t = b["term"]
        if t["k"] != "Call":
            return False
        d = t.get("resolved") or t.get("def") or ""
        return (t.get("def") or "") == PUSH_INSTR or d in emitters
    return mirq.path_avoiding_to(mir, [0], is_reg, is_emit), sum(1 for i, b in enumerate(mir["blocks"]) if is_reg(i, b)), sum(1 for i, b in enumerate(mir["blocks"]) if is_emit(i, b))


def rule_A10(ctx):
    F = ctx.F
    r = RuleResult("A10", "entry before instructions: on every path through build() a jump-table registration (push_to_jump_table / patch through get_from_jump_table_mut) precedes the first call that emits an instruction")
    bf = [f for f in builder_fns(F) if f.get("name") == "build" and f.get("vis") == "Public"]
    if not bf:
        r.anchor_missing("build()", "public fn build not found")
        return r
    f = bf[0]
    em = _emitting_fns(F)
    w, n_reg, n_emit = entry_order_witness(F, f, em)
    r.examine((f["path"], "entry-order"), True, {"fn": f["path"], "registration_sites": n_reg, "emitting_call_sites": n_emit, "emitting_functions": len(em)})
    r.floor("jump-table registration sites in build()", n_reg, 1)
    r.floor("emitting call sites in build()", n_emit, 1)
    if w is not None:
        blk = f["mir"]["blocks"][w[-1]]
        r.finding(f["path"], "emission-before-entry", loc(blk["term"]),
                  "a path through build() (blocks %s) emits an instruction at %s before any jump-table entry is registered: the entry registered afterwards is get_instruction_len() *after* that instruction, so the program's entry point skips it (or points past the end)" % (w, loc(blk["term"])),
                  path=["CFG blocks: " + " -> ".join("bb%d" % x for x in w)])
    return r


# --------------------------------------------------------------------------------------- T9


def _handlers_of(F, def_names):
    """Functions called from the handle_parse_node arms of the given Definition variants."""
    ms = [x for x in dispatch_matches(F, DEFN, ["garnish_lang_compiler"], 0.8) if "::build::" in x[0]["path"]]
    out = {}
    if not ms:
        return out, None
    f, m, _n = ms[0]
    for alts, _g, arm in arm_table(m):
        for a in alts:
            if a[0] == "V" and last(a[1]) in def_names:
                hs = []
                for d, n in hirq.calls_in(arm["body"]):
                    g = F.fns.get(d)
                    if g and g["crate"] == "garnish_lang_compiler" and "::build::" in d and g["kind"] != "Closure" and last(d).startswith("handle_"):
                        hs.append(g)
                out[last(a[1])] = (hs, arm)
    return out, f


def t9_check(F, g, r, label, need_tis):
    """In handler g: the right child never enters the in-line work stack; it is pushed to the root stack (or filed as a
    ConditionItem) and its root gets the required end instructions."""
    body = Body(g)
    stack_lid = root_lid = None
    for p in g.get("params", []):
        if p.get("k") == "Binding":
            if p.get("name") == "stack":
                stack_lid = p["lid"]
            elif p.get("name") == "root_stack":
                root_lid = p["lid"]
    if stack_lid is None or root_lid is None:
        r.finding(g["path"], label + ":anchor", "-", "handler has no `stack` / `root_stack` parameters (kind=anchor-missing)")
        return

    def is_right(e):
        return any(o.get("k") == "MethodCall" and o.get("m") == "get_right" for o in body.origins(e))

    inline_right = []
    out_of_line = []
    for n in walk(g["hir"]):
        if n.get("k") == "MethodCall" and n.get("m") == "push" and n["args"]:
            tgt = hirq.local_of(n["recv"])
            if tgt == stack_lid:
                r.examine((g["path"], "stack.push", loc(n)), True)
                if is_right(n["args"][0]):
                    inline_right.append(loc(n))
            elif tgt == root_lid:
                r.examine((g["path"], "root_stack.push", loc(n)), True)
                if is_right(n["args"][0]):
                    out_of_line.append(loc(n))
        if n.get("k") == "Struct" and (n.get("def") or "").endswith("ConditionItem"):
            for fl in n["fields"]:
                if fl["name"] == "node_index" and is_right(fl["e"]):
                    out_of_line.append(loc(n))
    for w in inline_right:
        r.finding(g["path"], label + ":right-inline", w, "the right operand/arm is pushed onto the in-line work stack: it would be evaluated unconditionally, before the jump that should guard it")
    if not out_of_line:
        r.finding(g["path"], label + ":right-not-deferred", "-", "the right operand/arm never reaches the root stack (directly or as a ConditionItem): it is not compiled out of line behind the jump")
    # end instructions of the out-of-line root
    ends = set()
    for n in walk(g["hir"]):
        if n.get("k") == "Tup" and len(n.get("es", [])) == 2:
            pd = path_def(n["es"][0])
            if pd and pd.startswith(INSTR + "::") and last(pd) != "Invalid":
                ends.add(last(pd))
    r.examine((g["path"], "ends"), True, {"handler": last(g["path"]), "role": label, "out_of_line_root_ends_with": sorted(ends), "right_child_deferred_at": out_of_line})
    if "JumpTo" not in ends:
        r.finding(g["path"], label + ":no-rejoin", "-", "the out-of-line root does not end in JumpTo(join): execution would not return to the instruction after the jump")
    if need_tis and "Tis" not in ends:
        r.finding(g["path"], label + ":no-tis", "-", "the out-of-line right operand of && / || does not end in Tis: the result would not be a boolean")
    # ... on every path: the construction of the right root (BuildNode::new_with_*end*) is always preceded by building the
    # Tis / JumpTo entries - an entry added only under a condition (e.g. "unless the operand is already boolean") is not
    mir = g["mir"]
    def builds(name):
        return lambda bi, b: any(s_["k"] == "Assign" and s_["rv"].get("k") == "Aggregate" and s_["rv"].get("variant") == name and (s_["rv"].get("adt") or "").endswith("::Instruction") for s_ in b["stmts"])
    def is_ctor(bi, b):
        t = b["term"]
        return t["k"] == "Call" and "BuildNode" in (t.get("def") or "") and "end" in last(t.get("def") or "")
    n_ctor = sum(1 for bi, b in enumerate(mir["blocks"]) if not b["cleanup"] and is_ctor(bi, b))
    for name in (["Tis", "JumpTo"] if need_tis else ["JumpTo"]):
        if n_ctor and name in ends:
            w = mirq.path_avoiding_to(mir, [0], builds(name), is_ctor)
            r.examine((g["path"], "always-" + name), True)
            if w is not None:
                r.finding(g["path"], label + ":conditional-" + name.lower(), loc(mir["blocks"][w[-1]]["term"]),
                          "a path through %s (blocks %s) constructs the out-of-line right root without a %s entry in its end instructions: %s" % (
                              last(g["path"]), w, name, "the operand's own value is used as the result of && / || - not a boolean whenever that operand yields unit or any non-boolean" if name == "Tis" else "execution would not re-join after the operand"),
                          path=["CFG blocks: " + " -> ".join("bb%d" % x for x in w)])


def rule_T9(ctx):
    F = ctx.F
    r = RuleResult("T9", "out-of-line operands: the right operand of && / || and the arm of ?> / !> are compiled behind the jump, re-joined through a jump-table entry")
    hs, f = _handlers_of(F, {"And", "Or", "JumpIfTrue", "JumpIfFalse"})
    if f is None:
        r.anchor_missing("handle_parse_node dispatch", "not found")
        return r
    seen = set()
    for v in ("And", "Or", "JumpIfTrue", "JumpIfFalse"):
        if v not in hs or not hs[v][0]:
            r.finding(f["path"], "handler-missing:" + v, "-", "Definition::%s is not routed to a handle_* function" % v)
            continue
        for g in hs[v][0]:
            key = (g["path"], v in ("And", "Or"))
            if key in seen:
                continue
            seen.add(key)
            t9_check(F, g, r, "logical" if v in ("And", "Or") else "conditional", v in ("And", "Or"))
    r.floor("handlers examined", len(seen), 2)
    # ElseJump consumer: ConditionItem.node_index goes to the root stack
    ej, _f = _handlers_of(F, {"ElseJump"})
    if "ElseJump" in ej:
        arm = ej["ElseJump"][1]
        fake = {"path": f["path"], "params": f.get("params", []), "hir": arm["body"]}
        ok = False
        for n in walk(arm["body"]):
            if n.get("k") == "MethodCall" and n.get("m") == "push" and n["args"]:
                a = peel(n["args"][0])
                if a.get("k") == "Field" and a.get("name") == "node_index" and "ConditionItem" in a.get("base_ty", ""):
                    rv = peel(n["recv"])
                    if rv.get("k") == "Path" and rv.get("name") == "root_stack":
                        ok = True
        r.examine((f["path"], "ElseJump"), True, {"else_chain_arms_to_root_stack": ok})
        if not ok:
            r.finding(f["path"], "elsejump:arms-not-deferred", loc(arm), "the ElseJump arm does not push its ConditionItem.node_index entries onto the root stack: conditional arms of an else-chain would never be emitted out of line")
    return r


# --------------------------------------------------------------------------------------- T11 / T12


def _walk_no_try(node):
    """walk() that does not descend into the arms of `?` desugarings (their `return` is the error exit)."""
    stack = [node]
    while stack:
        n = stack.pop()
        if isinstance(n, dict):
            yield n
            if n.get("k") == "Match" and n.get("src") == "TryDesugar":
                stack.append(n["scrut"])
                continue
            for v in n.values():
                if isinstance(v, (dict, list)):
                    stack.append(v)
        elif isinstance(n, list):
            stack.extend(x for x in n if isinstance(x, (dict, list)))


def rule_T12(ctx):
    F = ctx.F
    r = RuleResult("T12", "containing-expression inheritance: a child build node inherits its parent's containing_expression_jump; only a nested expression body and the tree root start a new one")
    fns = builder_fns(F)
    # the NestedExpression arm span
    ms = [x for x in dispatch_matches(F, DEFN, ["garnish_lang_compiler"], 0.8) if "::build::" in x[0]["path"]]
    nested_range = None
    if ms:
        f0, m, _n = ms[0]
        for alts, _g, arm in arm_table(m):
            for a in alts:
                if a[0] == "V" and last(a[1]) == "NestedExpression":
                    sp = arm["sp"]
                    parts = sp.split(":")
                    nested_range = (parts[0], int(parts[1]), int(sp.split("-")[1].split(":")[0]))
    if nested_range is None:
        r.anchor_missing("NestedExpression arm", "not found in handle_parse_node")
        return r
    # builder functions called from inside that arm (the arm's work extracted into a helper) are the same context
    nested_helpers = set()
    if ms:
        f0, m, _n = ms[0]
        for alts, _g, arm in arm_table(m):
            if any(a[0] == "V" and last(a[1]) == "NestedExpression" for a in alts):
                for d_, _c in hirq.calls_in(arm["body"]):
                    g = F.fns.get(d_)
                    if g is not None and g in fns and "BuildNode" not in d_:
                        nested_helpers.add(g["path"])
    n_sites = 0
    for f in sorted(fns, key=lambda f: f["path"]):
        body = Body(f)
        for d, n in hirq.calls_in(f["hir"]):
            if "BuildNode" not in d or not last(d).startswith("new"):
                continue
            args = call_args(n)
            if len(args) < 2:
                continue
            n_sites += 1
            kinds = set()
            # a constructor that delegates to another constructor (`..Self::new(idx, containing)`) forwards its own
            # parameter: the value is judged at the delegating constructor's call sites, which are examined like any other
            is_ctor = "BuildNode" in f["path"] and (f.get("name") or "").startswith("new")
            for o in body.origins(args[1]):
                if o.get("k") == "Field" and o.get("name") == "containing_expression_jump":
                    kinds.add("inherited")
                elif is_ctor and o.get("k") == "Param":
                    kinds.add("inherited")
                else:
                    kinds.add(_classify(o))
            file, line = n["sp"].split(":")[0], int(n["sp"].split(":")[1])
            in_nested = (file == nested_range[0] and nested_range[1] <= line <= nested_range[2]) or f["path"] in nested_helpers
            in_build = f.get("name") == "build" and f.get("vis") == "Public"
            r.examine((f["path"], loc(n)), True, {"fn": last(f["path"]), "where": loc(n), "containing_expression_jump_from": sorted(kinds), "starts_new_expression": in_nested or in_build})
            if in_nested or in_build:
                if kinds - {"jump_table_len"}:
                    r.finding(f["path"], "containing-new:" + "/".join(sorted(kinds)), loc(n), "a new expression's containing_expression_jump originates from %s; it must be its own jump-table entry (get_jump_table_len())" % sorted(kinds))
            elif kinds != {"inherited"}:
                r.finding(f["path"], "containing-not-inherited:" + "/".join(sorted(kinds - {"inherited"})), loc(n),
                          "a child node is given containing_expression_jump from %s instead of inheriting its parent's: a reapply (^~) inside it would jump to the wrong entry point" % sorted(kinds - {"inherited"}))
    r.floor("BuildNode constructions", n_sites, 8)
    return r


# ---------------------------------------------------------------------------------------------------------------------
# T11  root termination: the builder closes every root (expression body, conditional arm, right operand of a logical operator)
#      by walking that root's list of end instructions.  The list must be walked to its end: the last entry is the control
#      transfer (EndExpression, or the JumpTo that re-joins the code after the operator), and the only reason to skip an entry
#      is that the very same (instruction, operand) pair is already the last instruction emitted.
_EMIT_HELPERS = {}


def emit_helpers(F):
    """builder functions that hand their own parameters to push_instruction (`push_with_metadata(data, meta, instr, operand, node)`)"""
    key = id(F)
    if key not in _EMIT_HELPERS:
        hs = set()
        for g in F.fns.values():
            if g["crate"] not in ("garnish_lang_compiler", "gfixture") or g["kind"] == "Closure" or not g.get("hir"):
                continue
            plids = set(b["lid"] for prm in g.get("params", []) for b in walk(prm) if b.get("k") == "Binding")
            for m in walk(g["hir"]):
                if m.get("k") == "MethodCall" and m.get("m") == "push_instruction" and any(x.get("k") == "Path" and x.get("lid") in plids for a in m["args"] for x in walk(a)):
                    hs.add(g["path"])
        _EMIT_HELPERS[key] = hs
        _EMIT_HELPERS["current"] = hs
    else:
        _EMIT_HELPERS["current"] = _EMIT_HELPERS[key]
    return _EMIT_HELPERS[key]


def _end_loops(f):
    """for-loops whose loop variable (or a projection of it) is an argument of push_instruction (or of a helper that hands its
    parameters to push_instruction) inside the loop body."""
    out = []
    helpers = _EMIT_HELPERS.get("current", set())
    for n in walk(f["hir"]):
        if n.get("k") != "Loop" or n.get("src") != "ForLoop":
            continue
        some_arm = None
        for m in walk(n):
            if m.get("k") == "Match" and m.get("src") == "ForLoopDesugar":
                for arm in m["arms"]:
                    binds = [b for b in walk(arm["pat"]) if b.get("k") == "Binding"]
                    if binds:
                        some_arm = (arm, binds)
                break
        if not some_arm:
            continue
        arm, binds = some_arm
        lids = set(b["lid"] for b in binds)
        pushes = []
        for m in walk(arm["body"]):
            is_push = m.get("k") == "MethodCall" and m.get("m") == "push_instruction"
            is_helper = m.get("k") in ("Call", "MethodCall") and (callee(m) or "") in helpers
            if is_push or is_helper:
                if any(x.get("k") == "Path" and x.get("lid") in lids for a in call_args(m) for x in walk(a)):
                    pushes.append(m)
        if pushes:
            out.append((n, arm, lids, pushes))
    return out


def end_loop_findings(f, join_sites=()):
    fnd = []
    loops = _end_loops(f)
    for loop, arm, lids, pushes in loops:
        push_ids = set(id(p) for p in pushes)
        # (a) no early exit
        for m in walk(arm["body"]):
            exp = m.get("exp") or []
            if m.get("k") == "Break" and not any("ForLoop" in e for e in exp):
                fnd.append(("early-exit:break", loc(m), "the loop over a root's end instructions is left early (break at %s): the entries after the one that matched - the JumpTo that "
                            "re-joins the code after a logical operator - are never emitted" % loc(m)))
            if m.get("k") == "Ret" and not any("QuestionMark" in e for e in exp):
                fnd.append(("early-exit:return", loc(m), "the loop over a root's end instructions returns early at %s" % loc(m)))
            if m.get("k") == "Continue" and not any("ForLoop" in e for e in exp):
                pass
        # (b) every alternative in the body either pushes the entry or skips it because the identical pair is already there
        body_of = Body(f)
        def has_push(e):
            return any(id(x) in push_ids for x in walk(e or {}))
        def has_continue(e):
            return any(x.get("k") == "Continue" and not any("ForLoop" in z for z in (x.get("exp") or [])) for x in walk(e or {}))
        def whole_eq_bin(x):
            """x is `a == b` / `a != b` where one side mentions the loop entry as a whole (not a projection of it)."""
            projected = set(id(peel(y["e"])) for y in walk(x) if y.get("k") == "Field")
            for side in ("l", "r"):
                for y in walk(x[side]):
                    if y.get("k") == "Path" and y.get("lid") in lids and id(y) not in projected:
                        return True
            return False
        def bool_lit(e):
            e = peel(e)
            if e.get("k") == "Lit" and e["lit"].get("v") in (True, False, "true", "false"):
                return str(e["lit"].get("v")).lower() == "true"
            return None
        def implies_identity(c, pol, depth=0):
            """True when `c == pol` implies that the already-emitted last instruction equals this whole entry."""
            if c is None or depth > 12:
                return False
            c = peel(c)
            k = c.get("k")
            if k == "Unary" and c.get("op") == "!":
                return implies_identity(c["e"], not pol, depth + 1)
            if k == "Binary" and c.get("op") in ("==", "!="):
                return whole_eq_bin(c) and ((c["op"] == "==") == pol)
            if k == "Binary" and c.get("op") in ("&&", "||"):
                strong = (c["op"] == "&&") == pol  # conjunction that holds / disjunction that fails: every operand has that value
                l, r_ = implies_identity(c["l"], pol, depth + 1), implies_identity(c["r"], pol, depth + 1)
                return (l or r_) if strong else (l and r_)
            if k == "Path" and c.get("res") == "local":
                defs = body_of.defs.get(c["lid"], [])
                return bool(defs) and all(d.get("k") not in ("Param", "ClosureParam", "Destructure", "Field") and implies_identity(d, pol, depth + 1) for d in defs)
            if k == "Match" and c.get("src") == "Normal":
                # the match has value `pol` only through an arm that can yield it: a literal arm is selected by its guard,
                # any other arm yields its body's value
                may = False
                for a in c["arms"]:
                    v = bool_lit(a["body"])
                    if v is None:
                        if not implies_identity(a["body"], pol, depth + 1):
                            return False
                        may = True
                    elif v == pol:
                        if a.get("guard") is None or not implies_identity(a["guard"], True, depth + 1):
                            return False
                        may = True
                return may
            if k == "If" and c.get("else") is not None:
                may = False
                for br, taken in ((c.get("then"), True), (c.get("else"), False)):
                    v = bool_lit(br)
                    if v is None:
                        if not implies_identity(br, pol, depth + 1):
                            return False
                        may = True
                    elif v == pol:
                        if not implies_identity(c["cond"], taken, depth + 1):
                            return False
                        may = True
                return may
            if k == "Let":
                return False
            return False
        for m in walk(arm["body"]):
            if m.get("k") == "Match" and m.get("src") == "Normal" and has_push(m):
                for a in m["arms"]:
                    if has_push(a["body"]):
                        continue
                    g = a.get("guard")
                    if g is None or not implies_identity(g, True):
                        fnd.append(("skip-without-identity", loc(a["pat"]), "an end instruction is skipped at %s without the guard `already-emitted == this entry` on the whole (instruction, operand) pair" % loc(a["pat"])))
            if m.get("k") == "If":
                t, e = m.get("then"), m.get("else")
                skip_pol = None
                if has_push(t) != has_push(e):
                    skip_pol = has_push(e)  # the branch without the push is the skipping one: taken when cond == skip_pol
                elif not has_push(t) and not has_push(e) and (has_continue(t) != has_continue(e)):
                    skip_pol = has_continue(t)
                if skip_pol is not None and not implies_identity(m["cond"], skip_pol):
                    fnd.append(("skip-without-identity", loc(m), "an end instruction is skipped at %s under a condition that does not compare the whole (instruction, operand) pair with the last instruction" % loc(m)))
    # (c) "already present" must mean present in THIS root: the instruction compared with the entry is only looked at when the
    #     root has emitted something - a comparison between the current instruction length and the length read when the root
    #     was started controls the skip (in its condition, around it, or in the definition of a value it uses)
    reads_stream = any(n.get("k") == "MethodCall" and n.get("m") in ("get_instruction_iter", "get_instruction") for n in walk(f["hir"]))
    if loops and reads_stream:
        def is_len(e):
            return any(o.get("k") == "MethodCall" and o.get("m") == "get_instruction_len" for o in body_of.origins(e))
        len_cmps = [n for n in walk(f["hir"]) if n.get("k") == "Binary" and n.get("op") in (">", ">=", "<", "<=", "!=", "==") and is_len(n["l"]) and is_len(n["r"])]
        tied = False
        for loop, arm, lids, pushes in loops:
            # locals mentioned by the loop body, and transitively by their definitions
            seen_l = set()
            work_l = [x["lid"] for x in walk(arm["body"]) if x.get("k") == "Path" and x.get("res") == "local"]
            exprs = [arm["body"]]
            while work_l:
                l_ = work_l.pop()
                if l_ in seen_l:
                    continue
                seen_l.add(l_)
                for d_ in body_of.defs.get(l_, []):
                    if isinstance(d_, dict) and d_.get("k") not in ("Param", "ClosureParam", "Destructure", "Field"):
                        exprs.append(d_)
                        work_l.extend(x["lid"] for x in walk(d_) if x.get("k") == "Path" and x.get("res") == "local")
            ids = set(id(x) for e_ in exprs for x in walk(e_))
            if any(id(c) in ids for c in len_cmps):
                tied = True
            # an enclosing `if len > start { for .. }`
            def encloses(n, target, under):
                if n is target:
                    return under
                if isinstance(n, dict):
                    u2 = under or (n.get("k") == "If" and any(id(c) in set(id(x) for x in walk(n["cond"])) for c in len_cmps))
                    for v in n.values():
                        if isinstance(v, (dict, list)):
                            r_ = encloses(v, target, u2)
                            if r_ is not None:
                                return r_
                elif isinstance(n, list):
                    for x in n:
                        r_ = encloses(x, target, under)
                        if r_ is not None:
                            return r_
                return None
            if encloses(f["hir"], loop, False):
                tied = True
        # (d) join points: a handler records "the position after what I emitted" as a jump-table entry
        #     (push_to_jump_table(get_instruction_len())) before it is known whether the root emits anything there.  Skipping
        #     the end instruction then leaves that entry pointing at whatever is emitted next - the start of the next root,
        #     or nothing.  So the skip must also look at the jump table: a comparison of a jump-table entry with the current
        #     instruction length has to control it.
        if join_sites:
            def mentions(e, meth):
                for x in walk(e):
                    if x.get("k") == "MethodCall" and x.get("m") == meth:
                        return True
                    if x.get("k") == "Path" and x.get("res") == "local":
                        if any(isinstance(o, dict) and o.get("k") == "MethodCall" and o.get("m") == meth for o in body_of.origins(x)):
                            return True
                return False
            join_cmps = [n for n in walk(f["hir"]) if n.get("k") == "Binary" and n.get("op") in ("==", "!=", ">=", "<=", ">", "<")
                         and ((mentions(n["l"], "get_from_jump_table") and mentions(n["r"], "get_instruction_len")) or (mentions(n["r"], "get_from_jump_table") and mentions(n["l"], "get_instruction_len")))]
            # the scan may live in a helper (`any_jump_entry_points_at(data, first, next)`): a call of a builder function that
            # compares a jump-table entry with one of its parameters, handed the instruction length for that parameter
            for c_ in walk(f["hir"]):
                if c_.get("k") not in ("Call", "MethodCall"):
                    continue
                g_ = _FNS_BY_PATH.get(callee(c_) or "")
                if g_ is None or g_["path"] == f["path"] or not g_.get("hir"):
                    continue
                ppos = {}
                for i_, prm in enumerate(g_.get("params", [])):
                    for b_ in walk(prm):
                        if b_.get("k") == "Binding":
                            ppos[b_["lid"]] = i_
                hit_pos = set()
                for n_ in walk(g_["hir"]):
                    if n_.get("k") == "Binary" and n_.get("op") in ("==", "!="):
                        for a_, b_ in ((n_["l"], n_["r"]), (n_["r"], n_["l"])):
                            if any(x.get("k") == "MethodCall" and x.get("m") == "get_from_jump_table" for x in walk(a_)):
                                hit_pos |= set(ppos[x["lid"]] for x in walk(b_) if x.get("k") == "Path" and x.get("lid") in ppos)
                args_ = call_args(c_)
                if any(i_ < len(args_) and mentions(args_[i_], "get_instruction_len") for i_ in hit_pos):
                    join_cmps.append(c_)
            tied_j = False
            for loop, arm, lids, pushes in loops:
                seen_l = set()
                work_l = [x["lid"] for x in walk(arm["body"]) if x.get("k") == "Path" and x.get("res") == "local"]
                exprs = [arm["body"]]
                while work_l:
                    l_ = work_l.pop()
                    if l_ in seen_l:
                        continue
                    seen_l.add(l_)
                    for d_ in body_of.defs.get(l_, []):
                        if isinstance(d_, dict) and d_.get("k") not in ("Param", "ClosureParam", "Destructure", "Field"):
                            exprs.append(d_)
                            work_l.extend(x["lid"] for x in walk(d_) if x.get("k") == "Path" and x.get("res") == "local")
                ids = set(id(x) for e_ in exprs for x in walk(e_))
                if any(id(c) in ids for c in join_cmps):
                    tied_j = True
            # the scan behind that comparison covers THIS build's entries: where the entries are enumerated by an index range,
            # both bounds are jump-table lengths (the length when the build started, the length now) - an offset range
            # (`0 .. len - start`) looks at an earlier program's entries once the data object is shared
            for rc in walk(f["hir"]):
                if rc.get("k") not in ("Call", "MethodCall") or last(callee(rc) or rc.get("m") or "") != "make_size_iterator_range":
                    continue
                scope_ = None
                for mc in walk(f["hir"]):
                    if mc.get("k") == "MethodCall" and any(x is rc for x in walk(mc.get("recv") or {})) and any(id(c) in set(id(y) for a_ in mc.get("args", []) for y in walk(a_)) for c in join_cmps):
                        scope_ = mc
                if scope_ is None:
                    continue
                for a_ in call_args(rc)[-2:]:
                    exprs_ = [a_]
                    seen_ = set()
                    work_ = [x["lid"] for x in walk(a_) if x.get("k") == "Path" and x.get("res") == "local"]
                    while work_:
                        l_ = work_.pop()
                        if l_ in seen_:
                            continue
                        seen_.add(l_)
                        for d_ in body_of.defs.get(l_, []):
                            if isinstance(d_, dict) and d_.get("k") not in ("Param", "ClosureParam", "Destructure", "Field"):
                                exprs_.append(d_)
                                work_.extend(x["lid"] for x in walk(d_) if x.get("k") == "Path" and x.get("res") == "local")
                    arith = any(x.get("k") == "Binary" for e_ in exprs_ for x in walk(e_))
                    lens = any(x.get("k") == "MethodCall" and x.get("m") == "get_jump_table_len" for e_ in exprs_ for x in walk(e_))
                    # a bound handed in by the caller (the loop extracted into a helper) is the caller's business
                    if not lens and any(d_.get("k") in ("Param", "ClosureParam") for l_ in seen_ for d_ in body_of.defs.get(l_, []) if isinstance(d_, dict)):
                        lens = True
                    if arith or not lens:
                        fnd.append(("join-scan-range", loc(rc), "the scan for a join point at %s enumerates jump-table indices over a range whose bound is %s: it must run from the jump-table length at the start of this build to the length now - an offset range visits an earlier program's entries when the data object already holds some, misses this build's join entry, and the branch of `5 ?> 6 |> ;;` built second loops forever" % (loc(rc), "computed with arithmetic" if arith else "not a jump-table length")))
                        break
            if not tied_j:
                fnd.append(("skip-ignores-join-point", loc(loops[0][0]), "an end instruction is skipped because the root already ends with it, although %d site(s) of the builder (%s) record 'the next instruction' as a jump-table entry: when such a join point is the position after the root's last instruction - `a ?> b |> ;;` - nothing is emitted there, the entry aliases the start of the next root and the branch jumps back into itself. No comparison of a jump-table entry with the instruction length controls the skip" % (len(join_sites), ", ".join(join_sites[:4]))))
        if not tied:
            fnd.append(("skip-not-tied-to-this-root", loc(loops[0][0]), "an end instruction is skipped when it equals the last instruction of the whole stream, without checking that this root emitted anything (no comparison of the instruction length with the length at the root's start controls the skip): a root that emits nothing - `{ ( ) }` - loses its terminator and its jump-table entry points past the end"))
    return fnd, len(loops)


_FNS_BY_PATH = {}


def rule_T11(ctx):
    F = ctx.F
    emit_helpers(F)
    _FNS_BY_PATH.clear()
    _FNS_BY_PATH.update({g["path"]: g for g in builder_fns(F)})
    _FNS_BY_PATH.update({g["path"]: g for g in F.fns_in("gfixture::t11::")})
    r = RuleResult("T11", "root termination: the builder walks each root's end-instruction list to its end; an entry is skipped only when the identical pair is already the last instruction")
    total = 0
    # handlers that record "the next instruction" as a jump-table entry
    joins = {}
    for g in builder_fns(F):
        bo = None
        for n_ in walk(g["hir"]):
            if n_.get("k") == "MethodCall" and n_.get("m") == "push_to_jump_table" and n_.get("args"):
                bo = bo or Body(g)
                a0 = n_["args"][0]
                if any(x.get("k") == "MethodCall" and x.get("m") == "get_instruction_len" for x in walk(a0)) or any(
                        isinstance(o, dict) and o.get("k") == "MethodCall" and o.get("m") == "get_instruction_len" for x in walk(a0) if x.get("k") == "Path" and x.get("res") == "local" for o in bo.origins(x)):
                    joins.setdefault(g["path"], []).append(loc(n_))
    r.analysed["next_instruction_jump_entries"] = {last(k): v for k, v in joins.items()}
    for f in sorted(builder_fns(F), key=lambda f: f["path"]):
        others = [w for k, v in sorted(joins.items()) if k != f["path"] for w in v]
        fnd, n = end_loop_findings(f, others)
        total += n
        if n:
            r.examine((f["path"],), True, {"fn": f["path"], "end_instruction_loops": n, "violations": len(fnd)})
        for inst, where, msg in fnd:
            r.finding(f["path"], inst, where, msg)
    r.floor("end-instruction emission loops in the builder", total, 1)
    # the default end list of a root without one is EndExpression
    b = [f for f in builder_fns(F) if f.get("name") == "build" and f.get("vis") == "Public"]
    if b:
        defaults = [callee_path for n in walk(b[0]["hir"]) if n.get("k") == "Tup" and "vec" in str(n.get("exp") or "") for callee_path in [path_def(peel(n["es"][0])) or ""]]
        r.analysed["default_end_instruction"] = sorted(set(last(d) for d in defaults))
        if defaults and not all(last(d) == "EndExpression" for d in defaults):
            r.finding(b[0]["path"], "default-end:" + "/".join(sorted(set(last(d) for d in defaults))), loc(b[0]["hir"]), "a root with no end list is closed with %s instead of EndExpression" % sorted(set(last(d) for d in defaults)))
    for f in F.fns_in("gfixture::t11::"):
        if f["kind"] == "Closure":
            continue
        fnd, n = end_loop_findings(f, ("a join point in another handler",) if "_join_" in f["name"] else ())
        if f["name"].startswith("ctl_"):
            r.control(f["name"], bool(fnd))
        elif f["name"].startswith("ok_"):
            r.neg_control(f["name"], n >= 1 and not fnd)
    return r
