//! N2 controls: saturating float -> int cast.
pub fn ctl_cast(a: f64) -> Option<i32> {
    Some((a / 2.0) as i32)
}

pub fn ok_no_cast(a: i32) -> Option<f64> {
    Some(f64::from(a))
}
