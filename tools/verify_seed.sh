#!/bin/sh
# tools/verify_seed.sh <worktree> : confirm a seeded change myself: (1) with the change the 1500 baseline tests still pass,
# (2) the demo fails with the change, (3) the demo passes without it. Leaves the worktree with the change applied.
W="$1"
cd "$W" || exit 2
echo "## baseline with the change"
python3 /verif/tools/baseline_check.py "$W" | head -5
DEMO="cd $W/SEED/demo && cargo run --offline --quiet"
[ -f "$W/SEED/demo.sh" ] && DEMO="sh $W/SEED/demo.sh"
echo "## demo WITH change"
( eval "$DEMO" ) >/tmp/seed_with.log 2>&1; echo "exit=$?"; tail -4 /tmp/seed_with.log | cut -c1-200
git -C "$W" apply -R "$W/SEED/patch.diff" || exit 2
echo "## demo WITHOUT change"
( eval "$DEMO" ) >/tmp/seed_without.log 2>&1; echo "exit=$?"; tail -3 /tmp/seed_without.log | cut -c1-200
git -C "$W" apply "$W/SEED/patch.diff"
