// Minimal JSON value + writer (no dependencies).
pub enum J {
    Null,
    Bool(bool),
    Num(i128),
    Str(String),
    Arr(Vec<J>),
    Obj(Vec<(&'static str, J)>),
}

fn esc(s: &str, out: &mut String) {
    out.push('"');
    for c in s.chars() {
        match c {
            '"' => out.push_str("\\\""),
            '\\' => out.push_str("\\\\"),
            '\n' => out.push_str("\\n"),
            '\r' => out.push_str("\\r"),
            '\t' => out.push_str("\\t"),
            c if (c as u32) < 0x20 => {
                out.push_str(&format!("\\u{:04x}", c as u32));
            }
            c => out.push(c),
        }
    }
    out.push('"');
}

impl J {
    pub fn write(&self, out: &mut String) {
        match self {
            J::Null => out.push_str("null"),
            J::Bool(b) => out.push_str(if *b { "true" } else { "false" }),
            J::Num(n) => out.push_str(&n.to_string()),
            J::Str(s) => esc(s, out),
            J::Arr(v) => {
                out.push('[');
                for (i, x) in v.iter().enumerate() {
                    if i > 0 {
                        out.push(',');
                    }
                    x.write(out);
                }
                out.push(']');
            }
            J::Obj(v) => {
                out.push('{');
                for (i, (k, x)) in v.iter().enumerate() {
                    if i > 0 {
                        out.push(',');
                    }
                    esc(k, out);
                    out.push(':');
                    x.write(out);
                }
                out.push('}');
            }
        }
    }
}
