#!/bin/sh
# tools/scratch.sh <patch-file|-> <command...>: copy /repo (sources only) to a scratch dir outside /repo and /verif,
# apply the patch, run the command with GCHECK_REPO pointing at the copy, delete the copy.
set -e
PATCH="$1"; shift
D=$(mktemp -d /tmp/gscratch.XXXXXX)
trap 'rm -rf "$D"' EXIT
rsync -a --exclude target --exclude .git /repo/ "$D/"
if [ "$PATCH" != "-" ]; then
  (cd "$D" && patch -p1 -s < "$PATCH")
fi
GCHECK_REPO="$D" "$@"
