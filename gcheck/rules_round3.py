"""Rules added after the third round of seeded changes: N5 literal narrowing, D8 column units, T16 lexicographic structure,
W4 no visited-set in value flattening, D3b every path through the copy stanzas, D9 exclusive extents."""
from .facts import walk, loc
from . import hirq, mirq
from .hirq import peel, callee, call_args, last
from .origin import Body
from .report import RuleResult

INT_W = {"i8": 8, "i16": 16, "i32": 32, "i64": 64, "i128": 128, "isize": 64, "u8": 8, "u16": 16, "u32": 32, "u64": 64, "u128": 128, "usize": 64}


def _narrowing(frm, to):
    if frm not in INT_W or to not in INT_W:
        return False
    sf, st = frm[0] == "i", to[0] == "i"
    if INT_W[frm] > INT_W[to]:
        return True
    if INT_W[frm] == INT_W[to] and sf != st:
        return True
    if not sf and st and INT_W[frm] >= INT_W[to]:
        return True
    return False


def narrowing_conversions(F, f, _nested=True):
    """(where, T, target, casts) for every `T -> number` conversion called in f (closures written in f included) whose From
    impl narrows with an `as` cast."""
    out = []
    if _nested:
        for p, g in F.fns.items():
            if g["kind"] == "Closure" and p.startswith(f["path"] + "::{closure"):
                out.extend(narrowing_conversions(F, g, False))
    for b in f["mir"]["blocks"]:
        t = b["term"]
        if b["cleanup"] or t["k"] != "Call":
            continue
        d = t.get("def") or ""
        target = None
        if d == "core::convert::Into::into" and len(t.get("gargs", [])) >= 2:
            T, U = t["gargs"][0]["txt"], t["gargs"][1]["txt"]
            target = "<%s as core::convert::From<%s>>::from" % (U, T)
        elif d == "core::convert::From::from" and t.get("resolved"):
            target = t["resolved"]
        g = F.fns.get(target) if target else None
        if g is None or not (g["crate"].startswith("garnish_lang") or g["crate"] == "gfixture"):
            continue
        casts = []
        for gb in g["mir"]["blocks"]:
            for s in gb["stmts"]:
                if s["k"] == "Assign" and s["rv"]["k"] == "Cast" and s["rv"].get("cast") == "IntToInt" and _narrowing(s["rv"].get("from"), s["rv"].get("to")):
                    casts.append("%s as %s" % (s["rv"]["from"], s["rv"]["to"]))
        out.append((loc(t), target, casts))
    return out


def rule_N5(ctx):
    F = ctx.F
    r = RuleResult("N5", "literal narrowing: the literal parsers hand a parsed integer to the number type only through a conversion that does not narrow it with an `as` cast")
    scope = [f for f in F.fns.values() if f["crate"] == "garnish_lang_simple_data" and ("::data::parsing::" in f["path"] or (f.get("trait_item") or "").endswith("GarnishData::parse_add_number")) and f["kind"] != "Closure"]
    n = 0
    for f in sorted(scope, key=lambda f: f["path"]):
        k = 0
        for where, target, casts in narrowing_conversions(F, f):
            n += 1
            r.examine((f["path"], where), True, {"fn": f["path"], "conversion": target, "where": where, "narrowing_casts": casts})
            if casts:
                k += 1
                r.finding(f["path"], "narrowing-conversion#%d:%s" % (k, casts[0].replace(" ", "")), where,
                          "the parsed value goes through %s, which narrows it with `%s`: an integer literal outside the target range wraps to a different number instead of becoming a float / an error" % (target, casts[0]))
    r.floor("functions on the literal path", len(scope), 3)
    r.floor("number conversions on the literal path", n, 1)
    for f in F.fns_in("gfixture::round3::n5::"):
        if f["kind"] == "Closure" or not f.get("name", "").startswith(("ctl_", "ok_")):
            continue
        hit = any(c for _w, _t, c in narrowing_conversions(F, f))
        if f["name"].startswith("ctl_"):
            r.control(f["name"], hit)
        else:
            r.neg_control(f["name"], not hit)
    return r


# --------------------------------------------------------------------------------------- D8
def column_stores(F, f, col_fields):
    """(where, bad_origin) for every store into a column field of the lexer in f."""
    body = Body(f)
    out = []
    for n in walk(f["hir"]):
        if n.get("k") not in ("Assign", "AssignOp"):
            continue
        l = peel(n["l"])
        if l.get("k") == "Field" and l.get("name") in col_fields:
            bad = None
            for o in body.origins(n["r"]):
                if o.get("k") == "MethodCall" and o.get("m") == "len" and any(t in (o.get("recv_ty") or "") for t in ("str", "String")):
                    bad = loc(o)
            out.append((loc(n), bad))
    return out


def rule_D8(ctx):
    from .rules_lexer2 import LexShape
    F = ctx.F
    r = RuleResult("D8", "column units: the lexer's column counters (character counts) never receive a UTF-8 byte length")
    sh = LexShape(F)
    if sh.err:
        r.anchor_missing("lexer shape", sh.err)
        return r
    # column fields: the counter and the token-start column it is copied into
    names = set()
    names.add(sh.fields[sh.idx["col"]]["name"])
    mir = sh.starter["mir"]
    for b in mir["blocks"]:
        for s in b["stmts"]:
            if s["k"] == "Assign" and s["place"]["l"] == 1 and len(s["place"]["p"]) == 2 and s["rv"]["k"] == "Use":
                l = mirq.op_local(s["rv"]["op"])
                if l is not None:
                    for o in mirq.origins(mir, l):
                        if o[1] != "term" and o[2].get("k") == "Use":
                            pl = mirq.op_place(o[2]["op"])
                            if pl and pl["l"] == 1 and len(pl["p"]) == 2 and isinstance(pl["p"][1], dict) and pl["p"][1].get("f") == sh.idx["col"]:
                                names.add(s["place"]["p"][1]["n"])
    r.analysed["column_fields"] = sorted(names)
    n = 0
    for f in sh.methods:
        k = 0
        for where, bad in column_stores(F, f, names):
            n += 1
            r.examine((f["path"], where), True, {"fn": f["path"], "store": where, "byte_length_origin": bad})
            if bad:
                k += 1
                r.finding(f["path"], "column-from-byte-length#%d" % k, where, "a column field is computed from a byte length (len() at %s): columns count characters, so after a multi-byte character every later token of the line is reported too far right" % bad)
    r.floor("stores into the lexer's column fields", n, 3)
    for f in F.fns_in("gfixture::round3::d8::"):
        if f["kind"] == "Closure" or not f.get("name", "").startswith(("ctl_", "ok_")):
            continue
        hit = any(b for _w, b in column_stores(F, f, {"column", "start_column"}))
        if f["name"].startswith("ctl_"):
            r.control(f["name"], hit)
        else:
            r.neg_control(f["name"], not hit)
    return r


# --------------------------------------------------------------------------------------- T16
def lexicographic_sites(F, f):
    """For a function with a loop that compares items of two sequences: every comparison of the two *lengths* must be
    dominated by the loop (it is the tie-break after a common prefix).  Returns (n_length_comparisons, [where of early ones])."""
    mir = f["mir"]
    asg = mirq.assignments(mir)
    dom = mirq.dominators(mir)
    reach = mirq.reachable_blocks(mir)
    # loop headers: a reachable block with a predecessor it dominates
    preds = {}
    for bi in reach:
        for s in mirq.succs(mir["blocks"][bi]["term"]):
            preds.setdefault(s, []).append(bi)
    headers = [b for b in reach if any(b in dom.get(p, set()) for p in preds.get(b, []))]
    if not headers:
        return 0, [], 0
    # locals that hold a length: results of calls whose destination feeds size_to_number / named by a *len* function parameter call
    def is_len_local(l, depth=0):
        if depth > 6:
            return False
        for o in mirq.origins(mir, l, asg):
            if o[1] == "term":
                d = o[2].get("def") or ""
                if last(d) == "size_to_number":
                    return True
            elif o[2].get("k") == "Use":
                # `(a, b) = (f(x), f(y))`: a field of a tuple aggregate
                pl = mirq.op_place(o[2]["op"])
                if pl and len(pl["p"]) == 1 and isinstance(pl["p"][0], dict) and "f" in pl["p"][0]:
                    for (_b, _i, node) in asg.get(pl["l"], []):
                        if isinstance(node, dict) and node.get("k") == "Aggregate" and node.get("agg") == "Tuple" and pl["p"][0]["f"] < len(node["ops"]):
                            l2 = mirq.op_local(node["ops"][pl["p"][0]["f"]])
                            if l2 is not None and is_len_local(l2, depth + 1):
                                return True
            elif o[2].get("k") in ("Ref",):
                pass
        return False
    n = 0
    early = []
    for bi in sorted(reach):
        t = mir["blocks"][bi]["term"]
        if t["k"] != "Call":
            continue
        d = t.get("def") or ""
        if d in ("core::cmp::PartialOrd::partial_cmp", "core::cmp::Ord::cmp", "core::cmp::PartialEq::ne", "core::cmp::PartialEq::eq") and len(t["args"]) == 2:
            ls = [mirq.op_local(a) for a in t["args"]]
            if None in ls:
                continue
            if all(is_len_local(l) for l in ls):
                n += 1
                if not any(h in dom.get(bi, set()) for h in headers):
                    early.append(loc(t))
    return n, early, len(headers)


def rule_T16(ctx):
    F = ctx.F
    r = RuleResult("T16", "lexicographic structure: in the element-wise comparison of two lists the two lengths are compared only after the element loop (as the tie-break of a common prefix), never before it")
    n_fns = 0
    for f in sorted(F.fns.values(), key=lambda f: f["path"]):
        if f["crate"] != "garnish_lang_runtime" or "::comparison::" not in f["path"] or f["kind"] == "Closure":
            continue
        n, early, nh = lexicographic_sites(F, f)
        if n:
            n_fns += 1
            r.examine((f["path"],), True, {"fn": f["path"], "length_comparisons": n, "before_the_loop": early, "loops": nh})
            for k, w in enumerate(early):
                r.finding(f["path"], "length-compared-before-elements#%d" % (k + 1), w, "the two list lengths are compared at %s before the element loop has run: lists are then ordered by length first, not lexicographically ('z' < 'aa')" % w)
    r.floor("list comparison functions with a length tie-break", n_fns, 1)
    for f in F.fns_in("gfixture::round3::t16::"):
        if f["kind"] == "Closure" or not f.get("name", "").startswith(("ctl_", "ok_")):
            continue
        n, early, _nh = lexicographic_sites(F, f)
        if f["name"].startswith("ctl_"):
            r.control(f["name"], bool(early))
        else:
            r.neg_control(f["name"], n >= 1 and not early)
    return r


# --------------------------------------------------------------------------------------- W4
def flatten_walks(F, f, variant_suffix="::Concatenation"):
    """Loops in f that pop a work stack and, on a Concatenation cell, push its two sides: [(loop, dedup call or None)]."""
    out = []
    for lp in walk(f["hir"]):
        if lp.get("k") != "Loop":
            continue
        has_arm = False
        for m in walk(lp):
            if m.get("k") == "Match":
                for arm in m["arms"]:
                    names = [q.get("def") or "" for q in walk(arm["pat"]) if q.get("k") in ("TupleStruct", "Struct", "Expr", "Path")]
                    names += [(q.get("e") or {}).get("def") or "" for q in walk(arm["pat"]) if q.get("k") == "Expr"]
                    if any(nm.endswith(variant_suffix) or last(nm) == "Concatenation" for nm in names if nm):
                        pushes = [x for x in walk(arm["body"]) if x.get("k") == "MethodCall" and x.get("m") == "push"]
                        if len(pushes) >= 2:
                            has_arm = True
        if not has_arm:
            continue
        dedup = None
        for x in walk(lp):
            if x.get("k") == "MethodCall" and x.get("m") in ("insert", "contains", "contains_key") and any(t in (x.get("recv_ty") or "") for t in ("HashSet", "BTreeSet", "HashMap", "BTreeMap")):
                dedup = loc(x)
        out.append((lp, dedup))
    return out


def rule_W4(ctx):
    F = ctx.F
    r = RuleResult("W4", "flattening keeps every occurrence: the walk that flattens a concatenation into its item sequence expands every node it meets, without a visited set (a shared sub-sequence occurs as often as it is referenced)")
    n = 0
    for f in sorted(F.fns.values(), key=lambda f: f["path"]):
        if f["crate"] not in ("garnish_lang_simple_data", "garnish_lang_traits", "garnish_lang_runtime") or f["kind"] == "Closure":
            continue
        for lp, dedup in flatten_walks(F, f):
            n += 1
            r.examine((f["path"], loc(lp)), True, {"fn": f["path"], "walk": loc(lp), "visited_set": dedup})
            if dedup:
                r.finding(f["path"], "dedup-in-flatten", dedup, "the concatenation walk consults a visited set (%s): a concatenation node referenced twice contributes its items once, so `(x <> x) == x` - structural equality, length and indexing of values that share a sub-sequence are wrong" % dedup)
    r.floor("concatenation flattening walks", n, 1)
    for f in F.fns_in("gfixture::round3::w4::"):
        if f["kind"] == "Closure" or not f.get("name", "").startswith(("ctl_", "ok_")):
            continue
        ws = flatten_walks(F, f, "::Cat")
        if f["name"].startswith("ctl_"):
            r.control(f["name"], any(d for _l, d in ws))
        else:
            r.neg_control(f["name"], bool(ws) and not any(d for _l, d in ws))
    return r


# --------------------------------------------------------------------------------------- D3b
def rule_D3b(ctx):
    F = ctx.F
    r = RuleResult("D3b", "one way through the heap move: every path through reallocate_heap that returns Ok installs the new start and size of all six blocks (no shortcut path that moves some blocks and not others)")
    fs = [f for f in F.fns.values() if f["crate"] == "garnish_lang_simple_data" and f.get("name") == "reallocate_heap"]
    if not fs:
        r.anchor_missing("reallocate_heap", "function not found")
        return r
    f = fs[0]
    mir = f["mir"]
    # marker per block field: a store into `<block>.start` through *self
    stores = {}
    for bi, b in enumerate(mir["blocks"]):
        if b["cleanup"]:
            continue
        for s in b["stmts"]:
            if s["k"] == "Assign":
                pr = s["place"]["p"]
                names = [e.get("n") for e in pr if isinstance(e, dict) and "n" in e]
                if names and names[-1] == "start":
                    stores.setdefault(bi, set()).add(".".join(names[:-1]) or "?")
        t = b["term"]
    # accessor form: self.x_block_mut().start = ..  -> the call result local is the block; find by call name
    asg = mirq.assignments(mir)
    for bi, b in enumerate(mir["blocks"]):
        if b["cleanup"]:
            continue
        for s in b["stmts"]:
            if s["k"] == "Assign":
                pr = s["place"]["p"]
                if len(pr) >= 2 and pr[0] == "*" and isinstance(pr[-1], dict) and pr[-1].get("n") == "start":
                    for o in mirq.origins(mir, s["place"]["l"], asg):
                        if o[1] == "term" and last(o[2].get("def") or "").endswith("_block_mut"):
                            stores.setdefault(bi, set()).add(last(o[2]["def"])[:-4])
    for bi in list(stores):
        stores[bi].discard("?")
    blocks_named = sorted(set(x for v in stores.values() for x in v))
    r.analysed["blocks_with_a_start_store"] = blocks_named
    r.floor("blocks whose start is installed by reallocate_heap", len(blocks_named), 6)
    # a returning path that installs extents for some block but not for another one (error exits install none and are fine)
    def reach_avoiding(starts, avoid):
        seen = set()
        work = [b for b in starts if not mir["blocks"][b]["cleanup"] and b not in avoid]
        prev = {b: None for b in work}
        while work:
            b = work.pop(0)
            if b in seen:
                continue
            seen.add(b)
            for s_ in mirq.succs(mir["blocks"][b]["term"]):
                if s_ not in seen and s_ not in avoid and not mir["blocks"][s_]["cleanup"]:
                    prev.setdefault(s_, b)
                    work.append(s_)
        return seen, prev
    n = 0
    reported = set()
    for blk in blocks_named:
        n += 1
        avoid = set(bi for bi, v in stores.items() if blk in v)
        seen, prev = reach_avoiding([0], avoid)
        witness = None
        for bi in sorted(seen):
            others = stores.get(bi, set()) - {blk}
            if not others:
                continue
            seen2, _p2 = reach_avoiding([bi], avoid)
            if any(mir["blocks"][x]["term"]["k"] == "Return" for x in seen2):
                witness = (bi, sorted(others))
                break
        r.examine((f["path"], blk), True, {"block": blk, "a_returning_path_moves_other_blocks_without_it": bool(witness)})
        if witness and blk not in reported:
            reported.add(blk)
            bi, others = witness
            r.finding(f["path"], "partial-move:" + blk, loc(mir["blocks"][bi]["stmts"][0]) if mir["blocks"][bi]["stmts"] else "-",
                      "a returning path through reallocate_heap installs new extents for %s (block bb%d) without installing any for %s: the six blocks no longer move together - cells of a block that is skipped are found at extents that describe the old layout" % (others, bi, blk))
    return r


# --------------------------------------------------------------------------------------- D9
def extents_ends(F, f):
    """(where, kind) for each `Extents::new(start, end)` in f: kind 'last-index' when the end is `<something> - 1`."""
    body = Body(f)
    out = []
    for d, c in hirq.calls_in(f["hir"]):
        if not (last(d) == "new" and "Extents" in d):
            continue
        args = call_args(c)
        if len(args) < 2:
            continue
        kind = "ok"
        for o in body.origins(args[1]) + [peel(args[1])]:
            for x in walk(o):
                if x.get("k") == "Binary" and x.get("op") == "-":
                    rv = peel(x["r"])
                    if hirq.lit_value(rv) in (1, "1") or (callee(rv) or "").endswith("::one"):
                        kind = "last-index"
                if x.get("k") in ("Call", "MethodCall") and last(callee(x) or "") in ("sub", "decrement"):
                    a2 = call_args(x)
                    if last(callee(x) or "") == "decrement" or (len(a2) > 1 and ((callee(peel(a2[1])) or "").endswith("::one") or hirq.lit_value(a2[1]) in (1, "1"))):
                        kind = "last-index"
        out.append((loc(c), kind))
    return out


def rule_D9(ctx):
    F = ctx.F
    r = RuleResult("D9", "extents are half-open: the end handed to Extents::new is a length / an exclusive bound, never a last index (`len - 1`)")
    n = 0
    for f in sorted(F.fns.values(), key=lambda f: f["path"]):
        if f["crate"] not in ("garnish_lang_runtime", "garnish_lang_traits") or f["kind"] == "Closure":
            continue
        k = 0
        for where, kind in extents_ends(F, f):
            n += 1
            r.examine((f["path"], where), True, {"fn": f["path"], "extents_at": where, "end": kind} if n % 7 == 1 or kind != "ok" else None)
            if kind != "ok":
                k += 1
                r.finding(f["path"], "inclusive-end#%d" % k, where, "Extents::new at %s is given `len - 1` as its end: BasicGarnishData reads the end as exclusive, so the last item of the sequence is left out" % where)
    r.floor("Extents::new call sites in the runtime / traits crates", n, 10)
    for f in F.fns_in("gfixture::round3::d9::"):
        if f["kind"] == "Closure" or not f.get("name", "").startswith(("ctl_", "ok_")):
            continue
        hit = any(k != "ok" for _w, k in extents_ends(F, f))
        if f["name"].startswith("ctl_"):
            r.control(f["name"], hit)
        else:
            r.neg_control(f["name"], not hit)
    return r


# --------------------------------------------------------------------------------------- W5
def _callback_fields(F, struct):
    a = F.adts.get(struct)
    if not a:
        return []
    return [fd["name"] for fd in a["variants"][0]["fields"] if fd["ty"].startswith("fn(") or fd["ty"].startswith("for<") and " fn(" in fd["ty"][:12] or fd["ty"].startswith("for<'a> fn(")]


def carried_fields(F, f, struct_short):
    """fields of the struct that f initialises / assigns from the same field of another instance: {field}"""
    got = set()
    for n in walk(f["hir"]):
        if n.get("k") == "Assign":
            l = peel(n["l"])
            if l.get("k") == "Field" and struct_short in (l.get("base_ty") or ""):
                for x in walk(n["r"]):
                    if x.get("k") == "Field" and x.get("name") == l.get("name") and struct_short in (x.get("base_ty") or ""):
                        got.add(l["name"])
        if n.get("k") == "Struct" and struct_short in (n.get("def") or ""):
            for fl in n["fields"]:
                for x in walk(fl["e"]):
                    if x.get("k") == "Field" and x.get("name") == fl["name"] and struct_short in (x.get("base_ty") or ""):
                        got.add(fl["name"])
    return got


def rule_W5(ctx):
    F = ctx.F
    r = RuleResult("W5", "clones keep the host's callbacks: every function that builds a SimpleGarnishData from another one carries over each function-pointer field (resolver, op handler) from the source")
    struct = "garnish_lang_simple_data::simple::SimpleGarnishData"
    cbs = _callback_fields(F, struct)
    r.analysed["callback_fields"] = cbs
    r.floor("host callback fields of SimpleGarnishData", len(cbs), 2)
    n = 0
    for f in sorted(F.fns.values(), key=lambda f: f["path"]):
        if f["crate"] != "garnish_lang_simple_data" or f["kind"] == "Closure":
            continue
        ls = f["mir"]["locals"]
        argc = f["mir"]["argc"]
        takes = any("SimpleGarnishData<" in ls[i]["ty"] and ls[i]["ty"].startswith("&") for i in range(1, argc + 1))
        returns = "SimpleGarnishData<" in ls[0]["ty"]
        if not (takes and returns):
            continue
        got = carried_fields(F, f, "SimpleGarnishData")
        # a function that copies some fields itself and delegates the rest: what the delegate carries counts too
        seen_d, work_d = set(), [f]
        while work_d:
            h = work_d.pop()
            for d, _c in hirq.calls_in(h["hir"]):
                g = F.fns.get(d)
                if g is None or g["crate"] != f["crate"] or g["kind"] == "Closure" or g["path"] in seen_d or not g.get("hir"):
                    continue
                gl = g["mir"]["locals"]
                if "SimpleGarnishData<" in gl[0]["ty"] and any("SimpleGarnishData<" in gl[i]["ty"] and gl[i]["ty"].startswith("&") for i in range(1, g["mir"]["argc"] + 1)):
                    seen_d.add(g["path"])
                    got_g = carried_fields(F, g, "SimpleGarnishData")
                    if got and got_g:
                        got |= got_g
                    work_d.append(g)
        if not got:
            continue  # delegates to another function; that one is examined
        n += 1
        missing = [c for c in cbs if c not in got]
        r.examine((f["path"],), True, {"fn": f["path"], "fields_carried_from_the_source": sorted(got), "callbacks_missing": missing})
        for c in missing:
            r.finding(f["path"], "callback-not-carried:" + c, loc(f["hir"]), "%s builds a data object from another one and copies %s, but not the host callback `%s`: on the copy the host's %s is replaced by the default that always declines" % (last(f["path"]), sorted(got)[:4], c, c))
    r.floor("functions copying a SimpleGarnishData field by field", n, 1)
    for f in F.fns_in("gfixture::round3::w5::"):
        if f["kind"] == "Closure" or not f.get("name", "").startswith(("ctl_", "ok_")):
            continue
        got = carried_fields(F, f, "Store")
        miss = [c for c in ("on_resolve", "on_op") if c not in got]
        if f["name"].startswith("ctl_"):
            r.control(f["name"], bool(miss))
        else:
            r.neg_control(f["name"], bool(got) and not miss)
    return r


# --------------------------------------------------------------------------------------- A11
GD_ = "garnish_lang_traits::data::GarnishData::"
CMP = {"core::cmp::PartialOrd::gt": "gt", "core::cmp::PartialOrd::lt": "lt", "core::cmp::PartialOrd::ge": "ge", "core::cmp::PartialOrd::le": "le",
       "core::cmp::PartialEq::ne": "ne", "core::cmp::PartialEq::eq": "eq"}


_DRAIN_HELPER = {}


def is_drain_helper(F, g):
    """a workspace function (this, mark) that pops down to its mark parameter on every Ok path"""
    key = (id(F), g["path"])
    if key not in _DRAIN_HELPER:
        _DRAIN_HELPER[key] = False
        nc, viol, _np = drain_analysis(F, g, param_marks=True)
        _DRAIN_HELPER[key] = nc > 0 and not viol
    return _DRAIN_HELPER[key]


def drain_analysis(F, f, param_marks=False):
    """Work-list helpers that borrow the operand stack: returns (n_drain_conditions, violations).
    state clean = the depth is known to be back at the mark (we just left a `get_register_len() > mark` test on its false edge);
    any call that is handed the data object makes it unknown again; an Ok return needs clean; a direct pop needs a guard."""
    mir = f["mir"]
    asg = mirq.assignments(mir)
    blocks = mir["blocks"]

    def is_len_call(node):
        return isinstance(node, dict) and node.get("k") == "Call" and (node.get("def") or "") == GD_ + "get_register_len"

    def origin_calls(l):
        return [o[2] for o in mirq.origins(mir, l, asg) if o[1] == "term"]

    # marks: named locals computed from get_register_len() (directly or `len - k`)
    def derives_from_len(l, depth=0):
        if depth > 4:
            return False
        for o in mirq.origins(mir, l, asg):
            if o[1] == "term":
                if is_len_call(o[2]):
                    return True
                if (o[2].get("def") or "").startswith("core::ops::arith::") and o[2]["args"]:
                    a0 = mirq.op_local(o[2]["args"][0])
                    if a0 is not None and derives_from_len(a0, depth + 1):
                        return True
            elif o[2].get("k") == "BinaryOp":
                for side in ("l", "r"):
                    a0 = mirq.op_local(o[2][side])
                    if a0 is not None and derives_from_len(a0, depth + 1):
                        return True
        return False

    named = set(i for i, l in enumerate(mir["locals"]) if l.get("name"))
    param_mark_locals = set(range(2, mir["argc"] + 1)) if param_marks else set()
    _dfl = derives_from_len

    def derives_from_len(l, depth=0):  # noqa: F811 - a mark parameter of a drain helper counts as a mark
        if l in param_mark_locals:
            return True
        return _dfl(l, depth)
    # drain conditions: cmp(len_now, mark) where len_now is a *fresh* get_register_len() temp and mark a named local derived from an earlier one
    conds = {}  # block index -> (kind, clean_edge_is_false)
    for bi, b in enumerate(blocks):
        t = b["term"]
        if b["cleanup"] or t["k"] != "Call" or (t.get("def") or "") not in CMP or len(t["args"]) != 2:
            continue
        ls = [mirq.op_local(a) for a in t["args"]]
        if None in ls:
            continue
        def base(l):
            # follow refs to the underlying local
            out = set([l])
            for o in mirq.origins(mir, l, asg):
                if o[1] != "term" and o[2].get("k") == "Ref":
                    out.add(o[2]["place"]["l"])
                out.add(o[3])
            return out
        b0, b1 = base(ls[0]), base(ls[1])
        fresh0 = any(is_len_call(c) for l in b0 for c in origin_calls(l)) and not (b0 & named)
        fresh1 = any(is_len_call(c) for l in b1 for c in origin_calls(l)) and not (b1 & named)
        mark0 = any(l in named and derives_from_len(l) for l in b0)
        mark1 = any(l in named and derives_from_len(l) for l in b1)
        k = CMP[t["def"]]
        if fresh0 and mark1:
            # len OP mark : "depth above mark" holds when gt / ne (true edge) -> clean on the false edge; le / eq -> clean on true edge
            if k in ("gt", "ne"):
                conds[bi] = "false"
            elif k in ("le", "eq"):
                conds[bi] = "true"
        elif mark0 and fresh1:
            if k in ("lt", "ne"):
                conds[bi] = "false"
            elif k in ("ge", "eq"):
                conds[bi] = "true"
    # the block after a cond call switches on its result
    def cond_edges(bi):
        t = blocks[bi]["term"]
        tb = t["target"]
        if tb is None:
            return None
        sw = blocks[tb]["term"]
        # walk goto chains / negations are not handled: the result must be switched on directly
        if sw["k"] != "SwitchInt":
            return None
        false_t = [bb for v, bb in sw["targets"] if v == 0]
        true_t = sw["otherwise"]
        if not false_t:
            return None
        return tb, false_t[0], true_t

    viol = []
    # forward exploration over (block, dirty, err)
    seen = set()
    work = [(0, False, False)]
    guard_true_blocks = set()
    while work:
        bi, dirty, err = work.pop()
        if (bi, dirty, err) in seen or blocks[bi]["cleanup"]:
            continue
        seen.add((bi, dirty, err))
        b = blocks[bi]
        for s in b["stmts"]:
            if s["k"] == "Assign" and s["rv"]["k"] == "Aggregate" and s["rv"].get("variant") == "Err":
                err = True
        t = b["term"]
        if t["k"] == "Return":
            if dirty and not err:
                viol.append(("ok-return-without-drain", loc(t), "an Ok return is reached without passing the exit edge of a `get_register_len() > mark` test after the last call that may push: operands borrowed for the walk (or pushed by a callee) can be left on the caller's operand stack, or the caller's own operands popped"))
            continue
        if t["k"] == "Call":
            d = t.get("def") or ""
            if d.endswith("::from_residual"):
                err = True
            if bi in conds:
                ce = cond_edges(bi)
                if ce:
                    tb, false_b, true_b = ce
                    clean_b = false_b if conds[bi] == "false" else true_b
                    other_b = true_b if conds[bi] == "false" else false_b
                    guard_true_blocks.add(other_b)
                    work.append((clean_b, False, err))
                    work.append((other_b, dirty, err))
                    continue
            g_ = F.fns.get(t.get("resolved") or "") or F.fns.get(d)
            if g_ is not None and g_["path"] != f["path"] and g_["crate"].startswith(("garnish_lang", "gfixture")) and not param_marks:
                arg_locals = [mirq.op_local(a) for a in t["args"]]
                def mark_like(l, depth=0):
                    if l is None or depth > 4:
                        return False
                    cand = {l} | set(o[3] for o in mirq.origins(mir, l, asg))
                    # every local on the copy chain (origins() skips the named local a temp was moved into)
                    chain, todo = set(), [l]
                    while todo:
                        x = todo.pop()
                        if x in chain:
                            continue
                        chain.add(x)
                        for (_b, si, node) in asg.get(x, []):
                            if si != "term" and node.get("k") == "Use":
                                pl = mirq.op_place(node["op"])
                                if pl and not pl["p"]:
                                    todo.append(pl["l"])
                    cand |= chain
                    if any(b_ in named and derives_from_len(b_) for b_ in cand):
                        return True
                    for o in mirq.origins(mir, l, asg):
                        if o[1] == "term" and (o[2].get("def") or "").endswith("Clone::clone") and o[2]["args"]:
                            if mark_like(mirq.op_local(o[2]["args"][0]), depth + 1):
                                return True
                        if o[1] != "term" and o[2].get("k") == "Ref" and mark_like(o[2]["place"]["l"], depth + 1):
                            return True
                    return False
                if any(mark_like(l) for l in arg_locals) and is_drain_helper(F, g_):
                    # the drain loop lives in a helper that is handed the mark
                    for s_ in mirq.succs(t):
                        work.append((s_, False, err))
                    guard_true_blocks.add(bi)
                    continue
            def is_data_ref(a):
                l = mirq.op_local(a)
                if l is None:
                    return False
                ty = mir["locals"][l]["ty"]
                if not ty.startswith("&"):
                    return False
                core_ty = ty.lstrip("&").replace("mut ", "").strip()
                return core_ty in ("Data", "D", "Self") or core_ty.endswith("GarnishData") or "GarnishData<" in core_ty
            passes_data = any(is_data_ref(a) for a in t["args"])
            if passes_data and d not in (GD_ + "get_register_len", GD_ + "get_data_type") and d not in CMP:
                dirty = True
        for s_ in mirq.succs(t):
            work.append((s_, dirty, err))
    # direct pops are guarded
    dom = mirq.dominators(mir)
    n_pop = 0
    for bi, b in enumerate(blocks):
        t = b["term"]
        if not b["cleanup"] and t["k"] == "Call" and (t.get("def") or "") == GD_ + "pop_register":
            n_pop += 1
            if not any(g in dom.get(bi, set()) for g in guard_true_blocks):
                viol.append(("unguarded-pop", loc(t), "pop_register at %s is not inside a `get_register_len() > mark` guard: the walk can pop operands that belong to its caller" % loc(t)))
    return len(conds), viol, n_pop


def rule_A11(ctx):
    F = ctx.F
    import json, os
    from .facts import VERIF
    r = RuleResult("A11", "drain to the mark: the work-list helpers that borrow the operand stack (A1's trusted summaries) return Ok only after leaving a `get_register_len() > mark` test on its exit edge, and pop only inside such a guard")
    trusted = json.load(open(os.path.join(VERIF, "spec", "arity.json")))["trusted"]
    n = 0
    for p in sorted(trusted):
        if trusted[p].get("nary"):
            continue
        f = F.fns.get(p)
        if f is None:
            r.finding(p, "trusted-helper-missing", "-", "the trusted summary names %s, which no longer exists: the summary is unverifiable" % p)
            continue
        nc, viol, n_pop = drain_analysis(F, f)
        n += 1
        r.examine((p,), True, {"fn": p, "drain_tests": nc, "direct_pops": n_pop, "violations": [v[0] for v in viol]})
        if nc == 0:
            r.finding(p, "no-drain-test", loc(f["hir"]), "%s has no `get_register_len()` test against a mark taken at entry: its trusted net effect on the operand stack is not supported by its code" % last(p))
        seen = set()
        for k, where, msg in viol:
            if k in seen:
                continue
            seen.add(k)
            r.finding(p, k, where, msg)
    r.floor("trusted work-list helpers examined", n, 2)
    for f in F.fns_in("gfixture::round3::a11::"):
        if f["kind"] == "Closure" or not f.get("name", "").startswith(("ctl_", "ok_")):
            continue
        nc, viol, _np = drain_analysis(F, f)
        if f["name"].startswith("ctl_"):
            r.control(f["name"], bool(viol) or nc == 0)
        else:
            r.neg_control(f["name"], nc > 0 and not viol)
    return r


# --------------------------------------------------------------------------------------- D1c
def header_vs_cells(F, f):
    """In a function that writes `CharList(n)` and then one `Char(c)` per character of a string: the string counted for n is
    the string whose characters are written.  Returns [(where, counted base, written base)]."""
    body = Body(f)
    out = []
    headers = []
    for d, c in hirq.calls_in(f["hir"]):
        if d.endswith("::CharList") and c.get("args"):
            bases = set()
            for o in body.origins(c["args"][0]) + [peel(c["args"][0])]:
                for x in walk(o):
                    if x.get("k") == "MethodCall" and x.get("m") == "chars":
                        l = hirq.local_of(x["recv"])
                        if l is not None:
                            bases.add(l)
            if bases:
                headers.append((c, bases))
    if not headers:
        return out
    written = set()
    for lp in walk(f["hir"]):
        if lp.get("k") != "Match" or lp.get("src") != "ForLoopDesugar":
            continue
        # the iterated expression: <X>.chars()
        it_bases = set()
        for x in walk(lp["scrut"]):
            if x.get("k") == "MethodCall" and x.get("m") == "chars":
                l = hirq.local_of(x["recv"])
                if l is not None:
                    it_bases.add(l)
        pushes_char = any((callee(x) or "").endswith("::Char") for x in walk(lp) if x.get("k") == "Call")
        if it_bases and pushes_char:
            written |= it_bases
    if not written:
        return out
    for c, bases in headers:
        if not (bases & written):
            out.append((loc(c), sorted(bases), sorted(written)))
    return out


def rule_D1c(ctx):
    F = ctx.F
    r = RuleResult("D1c", "header counts what is written: a CharList(n) header written before a run of Char cells counts the characters of the very string whose characters are written")
    n = 0
    for f in sorted(F.fns.values(), key=lambda f: f["path"]):
        if f["crate"] != "garnish_lang_simple_data" or f["kind"] == "Closure":
            continue
        has = any((d.endswith("::BasicData::CharList")) for d, _c in hirq.calls_in(f["hir"])) and any(x.get("k") == "MethodCall" and x.get("m") == "chars" for x in walk(f["hir"]))
        if not has:
            continue
        n += 1
        res = header_vs_cells(F, f)
        r.examine((f["path"],), True, {"fn": f["path"], "mismatches": len(res)})
        for k, (where, counted, written) in enumerate(res):
            r.finding(f["path"], "header-counts-other-string#%d" % (k + 1), where, "the CharList header at %s counts the characters of one string while the Char cells are written from another: the name reads back cut short (or with cells of the next value appended)" % where)
    r.floor("functions writing a CharList header from a string", n, 2)
    for f in F.fns_in("gfixture::round3::d1c::"):
        if f["kind"] == "Closure" or not f.get("name", "").startswith(("ctl_", "ok_")):
            continue
        res = header_vs_cells(F, f)
        if f["name"].startswith("ctl_"):
            r.control(f["name"], bool(res))
        else:
            r.neg_control(f["name"], not res)
    return r


# --------------------------------------------------------------------------------------- G4c
ITEM_GETTERS = ("get_list_item", "get_char_list_item", "get_byte_list_item", "get_symbol_list_item")


def user_index_sites(F, f):
    """calls of a data `get_*_item(addr, index)` whose index is a Number parameter of f handed through unchanged:
    [(where, getter, has_lower_bound_test)]"""
    body = Body(f)
    out = []
    lower = any(n.get("k") == "Binary" and n.get("op") in ("<", ">=", "<=", ">") and any((callee(x) or "").endswith("::zero") for x in walk(n)) for n in walk(f["hir"]))
    for d, c in hirq.calls_in(f["hir"]):
        if last(d) in ITEM_GETTERS and "GarnishData" in d:
            orgs = body.origins(call_args(c)[-1])
            if orgs and all(o.get("k") == "Param" for o in orgs):
                out.append((loc(c), last(d), lower))
    return out


def rule_G4c(ctx):
    F = ctx.F
    r = RuleResult("G4c", "index lower bound: a function that hands a caller-supplied number to the data's get_*_item tests it against zero first (the data impls convert a negative number to an index by clamping)")
    n = 0
    for f in sorted(F.fns.values(), key=lambda f: f["path"]):
        if f["crate"] not in ("garnish_lang_runtime", "garnish_lang_traits") or f["kind"] == "Closure":
            continue
        for where, getter, lower in user_index_sites(F, f):
            n += 1
            r.examine((f["path"], getter), True, {"fn": f["path"], "getter": getter, "where": where, "tests_lower_bound": lower})
            if not lower:
                r.finding(f["path"], "no-lower-bound:" + getter, where, "%s passes its index parameter to %s without testing it against zero: BasicGarnishData converts a negative number to index 0, so `list.(-1)` yields the first item instead of unit (every sibling index_* function tests `index < zero()` first)" % (last(f["path"]), getter))
    r.floor("functions indexing with a caller-supplied number", n, 3)
    for f in F.fns_in("gfixture::round3::g4c::"):
        if f["kind"] == "Closure" or not f.get("name", "").startswith(("ctl_", "ok_")):
            continue
        sites = user_index_sites(F, f)
        if f["name"].startswith("ctl_"):
            r.control(f["name"], any(not l for _w, _g, l in sites))
        else:
            r.neg_control(f["name"], bool(sites) and all(l for _w, _g, l in sites))
    return r


# --------------------------------------------------------------------------------------- W6
def returned_address_origins(F, f):
    """origin kinds of the value an add_* / parse_add_* method returns on success"""
    from .origin import return_exprs
    body = Body(f)
    kinds = []
    for re_ in return_exprs(f):
        for o in body.origins(re_):
            k = o.get("k")
            if k in ("Call", "MethodCall"):
                kinds.append(("call", last(callee(o) or "?"), loc(o)))
            elif k == "Param":
                kinds.append(("param", "", "-"))
            elif k == "Binary":
                kinds.append(("arith", o.get("op"), loc(o)))
            elif k == "Field":
                kinds.append(("field", o.get("name"), loc(o)))
            elif k == "Lit":
                kinds.append(("literal", str((o.get("lit") or {}).get("v")), loc(o)))
            elif k == "Tup" and not o.get("es"):
                continue
            else:
                kinds.append((k or "?", "", loc(o) if o.get("sp") else "-"))
    # Body.origins looks through arithmetic: find arithmetic on the way explicitly
    for re_ in return_exprs(f):
        for x in walk(re_):
            if x.get("k") == "Binary" and x.get("op") in ("-", "+", "*"):
                kinds.append(("arith", x.get("op"), loc(x)))
        e = peel(re_)
        if e.get("k") == "Call" and (callee(e) or "").endswith("::Ok") and e["args"]:
            a = peel(e["args"][0])
            if a.get("k") == "Path" and a.get("res") == "local":
                for d_ in body.defs.get(a["lid"], []):
                    if isinstance(d_, dict):
                        for x in walk(d_):
                            if x.get("k") == "Binary" and x.get("op") in ("-", "+", "*"):
                                kinds.append(("arith", x.get("op"), loc(x)))
    return kinds


def rule_W6(ctx):
    F = ctx.F
    r = RuleResult("W6", "addresses handed out are addresses written: BasicGarnishData's add_* / parse_add_* return what a store primitive (push_to_data_block, another add_*, a conversion) returned - never an address computed from stored indices")
    n = 0
    for f in sorted(F.fns.values(), key=lambda f: f["path"]):
        ti = f.get("trait_item") or ""
        nm = last(ti)
        if f["crate"] != "garnish_lang_simple_data" or "GarnishData::" not in ti or "BasicGarnishData" not in (f.get("impl_self") or ""):
            continue
        if not (nm.startswith("add_") or nm.startswith("parse_add_")) or nm == "add_to_list":
            continue
        kinds = returned_address_origins(F, f)
        n += 1
        r.examine((f["path"],), True, {"method": nm, "returns": sorted(set(k[0] + ":" + str(k[1]) for k in kinds))})
        seen = set()
        for k, what, where in kinds:
            if k in ("arith", "field", "literal") and k not in seen:
                seen.add(k)
                r.finding(f["path"], "computed-address:" + k, where, "%s returns an address that is computed (%s %s at %s) rather than the address a store primitive returned for the value it wrote: the cell there need not be (or stay) the value the caller asked for - e.g. after a compaction that keeps only part of what used to precede it" % (nm, k, what, where))
    r.floor("value-adding methods of BasicGarnishData", n, 15)
    for f in F.fns_in("gfixture::round3::w6::"):
        if f["kind"] == "Closure" or not f.get("name", "").startswith(("ctl_", "ok_")):
            continue
        kinds = returned_address_origins(F, f)
        bad = any(k in ("arith", "field", "literal") for k, _w, _l in kinds)
        if f["name"].startswith("ctl_"):
            r.control(f["name"], bad)
        else:
            r.neg_control(f["name"], not bad)
    return r


# ---------------------------------------------------------------------------------------------------------------------
# W7  cursor discipline: a storage block's `cursor` (number of used cells) never passes its `size`.
#     (a) the cursor is only ever advanced by one, shrunk by a subtraction, or advanced by n under a test that n cells fit;
#     (b) every call of a by-one advancer is preceded, on every path, by the capacity test of THAT block, whose 'full' side
#         passes through a function that writes the block sizes (the reallocation) before the advance;
#     (c) the reallocation on that side is handed a grown size of that same block.
def _is_block_field(place, name):
    pr = place["p"]
    return bool(pr) and isinstance(pr[-1], dict) and pr[-1].get("n") == name


def _block_of(mir, place):
    """name of the block a `.cursor`/`.size` place belongs to: the field before it, or the base local for `(*block).cursor`"""
    pr = [e for e in place["p"] if isinstance(e, dict) and "n" in e]
    if len(pr) >= 2:
        return str(pr[-2]["n"])
    # (*_n).cursor: follow the reference back to `&mut self.X_block`, else the parameter itself
    for (_b, _s, node, _l) in mirq.origins(mir, place["l"]):
        if node.get("k") == "Ref":
            q = [e for e in node["place"]["p"] if isinstance(e, dict) and "n" in e]
            if q:
                return str(q[-1]["n"])
        if node.get("k") == "Param":
            return "param:%d" % node["index"]
    return "?"


def _reads_field(mir, operand, asg, name, depth=0):
    """blocks named by `.name` reads this operand derives from through copies"""
    out = set()
    pl = mirq.op_place(operand) if isinstance(operand, dict) else None
    if pl is None:
        return out
    if _is_block_field(pl, name):
        out.add(_block_of(mir, pl))
        return out
    if pl["p"] or depth > 6:
        return out
    for (_b, si, node, _l) in mirq.origins(mir, pl["l"], asg):
        if si != "term" and node.get("k") == "Use":
            out |= _reads_field(mir, node["op"], asg, name, depth + 1)
    return out


def _slice_locals(mir, operand, asg, limit=400):
    """locals (and params) the value of an operand depends on"""
    seen = set()
    work = []
    pl = mirq.op_place(operand)
    if pl is not None:
        work.append(pl["l"])
    while work and len(seen) < limit:
        l = work.pop()
        if l in seen:
            continue
        seen.add(l)
        for (_bi, si, node) in asg.get(l, []):
            ops = []
            if si == "term":
                ops = node.get("args", [])
            else:
                k = node.get("k")
                if k in ("Use", "Cast", "UnaryOp"):
                    ops = [node.get("op") if k != "UnaryOp" else node.get("e", node.get("op"))]
                elif k == "BinaryOp":
                    ops = [node["l"], node["r"]]
                elif k in ("Ref", "CopyForDeref"):
                    work.append(node["place"]["l"])
                elif k == "Aggregate":
                    ops = node.get("ops", [])
            for o in ops:
                if isinstance(o, dict):
                    p2 = mirq.op_place(o)
                    if p2 is not None:
                        work.append(p2["l"])
    return seen


def _touches_block(mir, asg, locals_, blk):
    """does the definition of one of these locals read or borrow something of block `blk`?"""
    def has(pl):
        return any(isinstance(e, dict) and e.get("n") == blk for e in pl["p"])
    for l in locals_:
        for (_bi, si, node) in asg.get(l, []):
            if si == "term":
                continue
            k = node.get("k")
            if k in ("Ref", "CopyForDeref") and has(node["place"]):
                return True
            for o in ([node.get("op")] if k in ("Use", "Cast") else [node.get("l"), node.get("r")] if k == "BinaryOp" else []):
                if isinstance(o, dict):
                    pl = mirq.op_place(o)
                    if pl is not None and has(pl):
                        return True
    return False


def w7_cursor_writes(f):
    """[(block index, stmt, kind, extra)] for every assignment to a block's cursor; kind in unit/bulk/shrink/reset/arbitrary"""
    mir = f["mir"]
    asg = mirq.assignments(mir)
    out = []
    for bi, b in enumerate(mir["blocks"]):
        if b["cleanup"]:
            continue
        for s in b["stmts"]:
            if s["k"] != "Assign" or not _is_block_field(s["place"], "cursor"):
                continue
            rv = s["rv"]
            bop = None
            if rv["k"] == "BinaryOp":
                bop = rv
            elif rv["k"] == "Use":
                pl = mirq.op_place(rv["op"])
                if pl is None:
                    c = rv["op"].get("const", {})
                    out.append((bi, s, "reset" if c.get("int") == 0 else "arbitrary", None))
                    continue
                for (_b, si, node, _l) in mirq.origins(mir, pl["l"], asg):
                    if si != "term" and node.get("k") == "BinaryOp":
                        bop = node
            if bop is None:
                out.append((bi, s, "arbitrary", None))
                continue
            op = bop["op"].replace("WithOverflow", "").replace("Unchecked", "")
            if op == "Sub":
                out.append((bi, s, "shrink", None))
            elif op == "Add":
                sides = [bop["l"], bop["r"]]
                cur = [i for i, o in enumerate(sides) if _reads_field(mir, o, asg, "cursor")]
                if not cur:
                    out.append((bi, s, "arbitrary", None))
                    continue
                other = sides[1 - cur[0]]
                if "const" in other and other["const"].get("int") == 1:
                    out.append((bi, s, "unit", None))
                else:
                    out.append((bi, s, "bulk", other))
            else:
                out.append((bi, s, "arbitrary", None))
    return out


def _capacity_switches(mir, asg, block_name, sum_of=None):
    """[(block index, true successor, false successor, op, sum_on_left)] SwitchInt blocks testing cursor (or cursor + n) of
    `block_name` against its size"""
    out = []
    for bi, b in enumerate(mir["blocks"]):
        t = b["term"]
        if b["cleanup"] or t["k"] != "SwitchInt" or t.get("dty") != "bool":
            continue
        l = mirq.op_local(t["discr"])
        if l is None:
            continue
        for (_b, si, node, _l) in mirq.origins(mir, l, asg):
            if si == "term" or node.get("k") != "BinaryOp" or node["op"] not in ("Ge", "Gt", "Lt", "Le", "Eq", "Ne"):
                continue
            def side_kind(o):
                if block_name in _reads_field(mir, o, asg, "size"):
                    return "size"
                if block_name in _reads_field(mir, o, asg, "cursor"):
                    return "cursor"
                pl = mirq.op_place(o)
                if pl is not None and not pl["p"]:
                    for (_b2, s2, n2, _l2) in mirq.origins(mir, pl["l"], asg):
                        if s2 != "term" and n2.get("k") == "BinaryOp" and n2["op"].startswith("Add"):
                            if block_name in (_reads_field(mir, n2["l"], asg, "cursor") | _reads_field(mir, n2["r"], asg, "cursor")):
                                return "sum"
                        if s2 != "term" and n2.get("k") == "Use" and isinstance(n2["op"], dict):
                            p3 = mirq.op_place(n2["op"])
                            if p3 is not None and p3["p"] and isinstance(p3["p"][-1], dict) and p3["p"][-1].get("n") == "0":
                                # (sum, overflow).0 of an AddWithOverflow
                                for (_b4, s4, n4, _l4) in mirq.origins(mir, p3["l"], asg):
                                    if s4 != "term" and n4.get("k") == "BinaryOp" and n4["op"].startswith("Add") and block_name in (
                                            _reads_field(mir, n4["l"], asg, "cursor") | _reads_field(mir, n4["r"], asg, "cursor")):
                                        return "sum"
                return None
            kl, kr = side_kind(node["l"]), side_kind(node["r"])
            if {kl, kr} not in ({"cursor", "size"}, {"sum", "size"}):
                continue
            tru = t["otherwise"]
            fal = next((tg for v, tg in t["targets"] if v == 0), None)
            out.append((bi, tru, fal, node["op"], kl if kl != "size" else kr, kl != "size"))
    return out


def w7_check_fn_calls(F, scope, advancers, growers):
    """clause (b)/(c) for every call of a by-one advancer.  Returns (findings, n_sites, wrappers)"""
    fnd = []
    n_sites = 0
    work = list(advancers)
    seen_adv = set(advancers)
    while work:
        adv = work.pop()
        for g in scope:
            mir = g["mir"]
            asg = None
            for ci, b in enumerate(mir["blocks"]):
                t = b["term"]
                if b["cleanup"] or t["k"] != "Call" or adv not in (t.get("def"), t.get("resolved")):
                    continue
                asg = asg or mirq.assignments(mir)
                dom = mirq.dominators(mir)
                # which block is advanced
                blk = None
                for a in t.get("args", []):
                    pl = mirq.op_place(a)
                    if pl is None:
                        continue
                    for (_b, si, node, _l) in mirq.origins(mir, pl["l"], asg):
                        if si != "term" and node.get("k") == "Ref":
                            q = [e for e in node["place"]["p"] if isinstance(e, dict) and "n" in e]
                            if q and str(q[-1]["n"]).endswith("block"):
                                blk = str(q[-1]["n"])
                        if node.get("k") == "Param" and "Block" in (mir["locals"][node["index"]]["ty"] or ""):
                            blk = blk or ("param:%d" % node["index"])
                n_sites += 1
                if blk is None:
                    fnd.append((g["path"], "advance-of-unknown-block", loc(t), "a cell is pushed at %s but the block whose cursor is advanced cannot be identified" % loc(t)))
                    continue
                if blk.startswith("param:"):
                    # a wrapper: the obligation moves to its callers
                    if g["path"] not in seen_adv:
                        seen_adv.add(g["path"])
                        work.append(g["path"])
                    continue
                ok = False
                grown_ok = False
                for (di, tru, fal, op, _what, _sl) in _capacity_switches(mir, asg, blk):
                    if di not in dom.get(ci, set()) and di != ci:
                        continue
                    for side in (tru, fal):
                        if side is None:
                            continue
                        def is_grow(bi_, b_):
                            t_ = b_["term"]
                            return t_["k"] == "Call" and (t_.get("def") in growers or t_.get("resolved") in growers)
                        reach = mirq.path_avoiding_to(mir, [side], lambda bi_, b_: False, lambda bi_, b_: bi_ == ci)
                        if reach is None:
                            continue
                        if mirq.path_avoiding_to(mir, [side], is_grow, lambda bi_, b_: bi_ == ci and not is_grow(bi_, b_)) is None:
                            ok = True
                            # (c) the growth is of this block: some argument of the reallocation depends on it and is not just
                            #     a copy of its present size
                            for gi, gb in enumerate(mir["blocks"]):
                                if not is_grow(gi, gb) or di not in dom.get(gi, set()):
                                    continue
                                for a in gb["term"].get("args", []):
                                    if blk in _reads_field(mir, a, asg, "size"):
                                        continue  # the present size, unchanged
                                    if _touches_block(mir, asg, _slice_locals(mir, a, asg), blk):
                                        grown_ok = True
                if not ok:
                    fnd.append((g["path"], "advance-without-capacity-test:%s" % blk, loc(t), "a cell is pushed to `%s` at %s without a dominating test of that block's cursor against its size whose 'full' side reallocates first: when the block is full the cursor passes its size and the next heap index is out of the block (a panic, or a write into the neighbouring block)" % (blk, loc(t))))
                elif not grown_ok:
                    fnd.append((g["path"], "grows-other-block:%s" % blk, loc(t), "the reallocation that guards the push to `%s` at %s is not handed a grown size of that block (no argument derives from it): the block stays full and the push lands outside it" % (blk, loc(t))))
    return fnd, n_sites, seen_adv - set(advancers)


def w7_bulk_ok(f, bi, s, n_operand, growers):
    """is an advance by n dominated by a test that n cells fit (or by a reallocation sized from n)?"""
    mir = f["mir"]
    asg = mirq.assignments(mir)
    dom = mirq.dominators(mir)
    blk = _block_of(mir, s["place"])
    n_locals = _slice_locals(mir, n_operand, asg) if mirq.op_place(n_operand) is not None else set()
    for (di, tru, fal, op, what, sum_left) in _capacity_switches(mir, asg, blk):
        if what != "sum" or (di not in dom.get(bi, set()) and di != bi):
            continue
        # which side means "does not fit"
        if op in ("Gt", "Ge"):
            nofit = tru if sum_left else fal
        elif op in ("Lt", "Le"):
            nofit = fal if sum_left else tru
        else:
            continue
        if nofit is None:
            continue
        # every way from "does not fit" to the advance goes back through the test ...
        if mirq.path_avoiding_to(mir, [nofit], lambda b_, _x: b_ == di, lambda b_, _x: b_ == bi) is None:
            return True
        # ... or through a reallocation whose size depends on n
        def grows_for_n(b_, blk_):
            t_ = blk_["term"]
            if t_["k"] != "Call" or not (t_.get("def") in growers or t_.get("resolved") in growers):
                return False
            for a in t_.get("args", []):
                if mirq.op_place(a) is not None and (_slice_locals(mir, a, asg) & n_locals):
                    return True
            return False
        if mirq.path_avoiding_to(mir, [nofit], grows_for_n, lambda b_, x_: b_ == bi and not grows_for_n(b_, x_)) is None:
            return True
    return False


def w7_analyse(F, scope):
    growers = set()
    for g in scope:
        for b in g["mir"]["blocks"]:
            if b["cleanup"]:
                continue
            if any(s["k"] == "Assign" and _is_block_field(s["place"], "size") for s in b["stmts"]):
                growers.add(g["path"])
    fnd = []
    advancers = []
    kinds = {}
    for g in scope:
        for (bi, s, kind, extra) in w7_cursor_writes(g):
            kinds[kind] = kinds.get(kind, 0) + 1
            if kind == "unit":
                advancers.append(g["path"])
            elif kind == "bulk":
                if not w7_bulk_ok(g, bi, s, extra, growers):
                    fnd.append((g["path"], "bulk-advance-unchecked", loc(s), "the cursor of `%s` is advanced by a computed amount at %s without a dominating test that so many cells fit (a test of cursor + n against the size that is re-taken after growing, or a reallocation sized from n): one growth step need not be enough, the cursor passes the size and the next heap index is out of the block" % (_block_of(g["mir"], s["place"]), loc(s))))
            elif kind == "arbitrary":
                fnd.append((g["path"], "cursor-set-arbitrary", loc(s), "the cursor of `%s` is assigned a value at %s that is neither cursor + 1, a difference, nor zero" % (_block_of(g["mir"], s["place"]), loc(s))))
    f2, n_sites, wrappers = w7_check_fn_calls(F, scope, sorted(set(advancers)), growers)
    fnd.extend(f2)
    return fnd, {"cursor_writes": kinds, "advancers": sorted(set(advancers)), "wrappers": sorted(wrappers), "growers": sorted(growers), "push_sites": n_sites}


def rule_W7(ctx):
    F = ctx.F
    r = RuleResult("W7", "cursor discipline: a BasicGarnishData block's cursor is advanced only by one under that block's capacity test (the full side reallocating that block first), by n under a test that n cells fit, or shrunk - so it never passes the block's size")
    scope = [f for f in F.fns.values() if f["crate"] == "garnish_lang_simple_data" and "::basic::" in f["path"]]
    fnd, info = w7_analyse(F, scope)
    r.analysed.update(info)
    r.floor("functions that advance a block cursor by one", len(info["advancers"]), 1)
    r.floor("functions that write block sizes (reallocation)", len(info["growers"]), 1)
    r.floor("guarded push sites", info["push_sites"], 6)
    for k in range(info["push_sites"]):
        r.examine(("push-site", k), True, None)
    seen = set()
    for p, inst, where, msg in fnd:
        if (p, inst) in seen:
            continue
        seen.add((p, inst))
        r.finding(p, inst, where, msg)
    fx = [f for f in F.fns_in("gfixture::round3::w7::")]
    ffnd, _i = w7_analyse(F, fx)
    bad_fns = set(p for p, _i2, _w, _m in ffnd)
    for f in fx:
        if f["kind"] == "Closure" or not f.get("name", "").startswith(("ctl_", "ok_")):
            continue
        if f["name"].startswith("ctl_"):
            r.control(f["name"], f["path"] in bad_fns)
        else:
            r.neg_control(f["name"], f["path"] not in bad_fns)
    return r


# ---------------------------------------------------------------------------------------------------------------------
# W8  intern-table coherence: SimpleGarnishData's `cache` maps the hash of a value to THE address that value was pushed at.
#     The only function that may add to or change it is the one that pushes the hashed value in the same breath (it reads
#     the data length, pushes the value, inserts (hash, that length)).  Any other writer - a copy of another object's entries,
#     a remove, a retain - can leave an entry that names a cell holding a different value, and the next equal constant built
#     into the object is handed that cell.
_MAP_MUTATORS = {"insert", "entry", "extend", "remove", "clear", "retain", "drain", "get_mut", "values_mut", "iter_mut", "remove_entry", "try_insert", "shrink_to_fit", "append"}


def intern_table_writes(f, owner_ty="SimpleGarnishData", field="cache"):
    out = []
    def is_tbl(e):
        e = peel(e)
        return e.get("k") == "Field" and e.get("name") == field and owner_ty in (e.get("base_ty") or "")
    for n in walk(f["hir"]):
        k = n.get("k")
        if k == "MethodCall" and n.get("m") in _MAP_MUTATORS and is_tbl(n["recv"]):
            out.append((n["m"], loc(n), n))
        elif k in ("Assign", "AssignOp") and is_tbl(n["l"]):
            out.append(("assign", loc(n), n))
        elif k == "AddrOf" and n.get("mut") and is_tbl(n["e"]):
            out.append(("&mut", loc(n), n))
    return out


def coherent_insert(f, n, owner_ty="SimpleGarnishData", field="cache"):
    """`cache.insert(h, addr)`: addr is the data length read before a push of the hashed value in this same function"""
    if n.get("k") != "MethodCall" or n.get("m") != "insert" or len(n.get("args", [])) < 2:
        return False
    bo = Body(f)
    addr_ok = False
    for o in bo.origins(n["args"][1]):
        if isinstance(o, dict) and o.get("k") == "MethodCall" and o.get("m") == "len":
            rv = peel(o["recv"])
            if rv.get("k") == "Field" and rv.get("name") == "data":
                addr_ok = True
    pushes = [m for m in walk(f["hir"]) if m.get("k") == "MethodCall" and m.get("m") == "push" and peel(m["recv"]).get("k") == "Field" and peel(m["recv"]).get("name") == "data"]
    return addr_ok and bool(pushes)


def rule_W8(ctx):
    F = ctx.F
    r = RuleResult("W8", "intern-table coherence: SimpleGarnishData's hash -> address table is written only by the function that pushes the hashed value and records the address it was pushed at")
    owners = 0
    writers = 0
    for f in sorted(F.fns.values(), key=lambda f: f["path"]):
        if f["crate"] != "garnish_lang_simple_data":
            continue
        ws = intern_table_writes(f)
        if not ws:
            continue
        writers += 1
        bad = [(m, where) for m, where, n in ws if not coherent_insert(f, n)]
        r.examine((f["path"],), True, {"fn": f["path"], "writes": [m for m, _w, _n in ws], "coherent": not bad})
        if not bad:
            owners += 1
            continue
        seen = set()
        for m, where in bad:
            if m in seen:
                continue
            seen.add(m)
            r.finding(f["path"], "intern-table-written:" + m, where, "%s changes the constant table (`cache.%s` at %s) without pushing the hashed value and recording the address it was pushed at: an entry can then name a cell that holds a different value, and the next equal constant added to the object - a literal of a program built later - is handed that cell" % (last(f["path"]), m, where))
    r.floor("functions that write the intern table coherently (push value, record its address)", owners, 1)
    r.analysed["intern_table_writers"] = writers
    for f in F.fns_in("gfixture::round3::w8::"):
        if f["kind"] == "Closure" or not f.get("name", "").startswith(("ctl_", "ok_")):
            continue
        ws = intern_table_writes(f, owner_ty="Store", field="cache")
        bad = [1 for m, where, n in ws if not coherent_insert(f, n)]
        if f["name"].startswith("ctl_"):
            r.control(f["name"], bool(bad))
        else:
            r.neg_control(f["name"], bool(ws) and not bad)
    return r


# ---------------------------------------------------------------------------------------------------------------------
# D10  character accounting in the literal parsers: in a loop over the characters of a literal, every iteration does something
#      with its character - appends to the output or to a pending token, changes the parser's state, fails or stops.  An
#      iteration that simply moves on DROPS a character of the literal; the drops the language documents (raw line feeds and
#      tabs that lay out a single-quoted text) are counted per function in allow/literal_drops.json.
_ACC_METHODS = {"push", "push_str", "extend", "extend_from_slice", "insert", "append", "write_char", "write_str"}


def _char_loops(f):
    """(loop node, body of the Some(c) arm) for every `for c in <..>.chars()<..>` loop of f"""
    out = []
    for n in walk(f["hir"]):
        if n.get("k") != "Match" or n.get("src") != "ForLoopDesugar":
            continue
        # the outer desugar match: scrutinee is IntoIterator::into_iter(<iterable>)
        if not any(x.get("k") == "MethodCall" and x.get("m") in ("chars", "char_indices") for x in walk(n.get("scrut") or {})):
            continue
        for lp in walk(n):
            if lp.get("k") == "Loop" and lp.get("src") == "ForLoop":
                for m in walk(lp):
                    if m.get("k") == "Match" and m.get("src") == "ForLoopDesugar" and m is not n:
                        arms = [a for a in m["arms"] if any(b.get("k") == "Binding" for b in walk(a["pat"]))]
                        if arms:
                            out.append((lp, arms[0]["body"]))
                        break
                break
    return out


def _d10_eval(node, acted, drops, depth=0, act=None):
    """abstract run of one loop iteration.  `acted` is the set of possible values of "did something with the character"
    on entry; returns the set on fall-through.  Paths that end the iteration (continue) with False are recorded in drops."""
    if not acted or node is None:
        return acted if node is None else set()
    if isinstance(node, list):
        for x in node:
            acted = _d10_eval(x, acted, drops, depth, act)
            if not acted:
                break
        return acted
    if not isinstance(node, dict):
        return acted
    k = node.get("k")
    if k in ("Semi", "Expr", "DropTemps", "Cast", "AddrOf", "Field", "Unary"):
        return _d10_eval(node.get("e"), acted, drops, depth, act)
    if k == "Let":
        return _d10_eval(node.get("init"), acted, drops, depth, act)
    if k == "Block":
        b = node.get("b") or {}
        if isinstance(b, dict):
            a = _d10_eval(b.get("stmts") or [], acted, drops, depth, act)
            return _d10_eval(b.get("expr"), a, drops, depth, act) if b.get("expr") is not None else a
        return _d10_eval(b, acted, drops, depth, act)
    if act is not None and act(node):
        return {True}
    if k in ("Assign", "AssignOp"):
        a = _d10_eval(node.get("r"), acted, drops, depth, act)
        return {True} if act is None else a
    if k == "MethodCall":
        a = _d10_eval(node.get("recv"), acted, drops, depth, act)
        a = _d10_eval(node.get("args"), a, drops, depth, act)
        if act is None and node.get("m") in _ACC_METHODS:
            return {True} if a else a
        return a
    if k == "Call":
        a = _d10_eval(node.get("args"), acted, drops, depth, act)
        return a
    if k == "If":
        a = _d10_eval(node.get("cond"), acted, drops, depth, act)
        t = _d10_eval(node.get("then"), set(a), drops, depth, act)
        e = _d10_eval(node.get("else"), set(a), drops, depth, act) if node.get("else") is not None else set(a)
        return t | e
    if k == "Match":
        a = _d10_eval(node.get("scrut"), acted, drops, depth, act)
        if node.get("src") == "TryDesugar":
            # `Err(..)?` always returns: the continue arm of the desugaring is not a way through
            sc = peel(node.get("scrut") or {})
            if sc.get("k") == "Call" and sc.get("args"):
                x = peel(sc["args"][0])
                if x.get("k") == "Call" and (callee(x) or "").endswith("Result::Err"):
                    return set()
        out = set()
        for arm in node.get("arms", []):
            g = arm.get("guard")
            a2 = _d10_eval(g, set(a), drops, depth, act) if g is not None else set(a)
            out |= _d10_eval(arm.get("body"), a2, drops, depth, act)
        return out
    if k == "Continue":
        if False in acted:
            drops.append(node)
        return set()
    if k in ("Ret", "Break"):
        if k == "Ret" and act is not None and hasattr(act, "rets") and False in acted and not any("QuestionMark" in z for z in (node.get("exp") or [])):
            act.rets.append(node)
        return set()
    if k == "Loop":
        inner = []
        a = _d10_eval(node.get("body"), set(acted), inner, depth + 1, act)
        # an inner loop: its own continues stay inside it
        if act is not None:
            return set(acted) | a | ({True} if any(act(x) for x in walk(node)) else set())
        return set(acted) | a | ({True} if any(x.get("k") in ("Assign", "AssignOp") or (x.get("k") == "MethodCall" and x.get("m") in _ACC_METHODS) for x in walk(node)) else set())
    if k == "Closure":
        return acted
    if k == "Binary":
        a = _d10_eval(node.get("l"), acted, drops, depth, act)
        return _d10_eval(node.get("r"), a, drops, depth, act)
    if k in ("Tup", "Array"):
        return _d10_eval(node.get("es"), acted, drops, depth, act)
    if k == "Struct":
        return _d10_eval([fl.get("e") for fl in node.get("fields", []) if isinstance(fl, dict)], acted, drops, depth, act)
    return acted


def d10_drops(f):
    """[(loop location, number of ways an iteration can end having done nothing with its character)]"""
    out = []
    for lp, body in _char_loops(f):
        drops = []
        fall = _d10_eval(body, {False}, drops)
        n = len(drops) + (1 if False in fall else 0)
        out.append((lp, n, fall, drops))
    return out


def rule_D10(ctx):
    import json, os
    from .facts import VERIF
    F = ctx.F
    r = RuleResult("D10", "character accounting in the literal parsers: every iteration over a literal's characters appends to the output, changes the parser state, fails or stops - a character is dropped only where the language documents it (allow/literal_drops.json)")
    with open(os.path.join(VERIF, "allow", "literal_drops.json")) as fh:
        al = json.load(fh)["drops"]
    n_loops = 0
    for f in sorted(F.fns.values(), key=lambda f: f["path"]):
        if f["crate"] != "garnish_lang_simple_data" or "::data::parsing::" not in f["path"] or f["kind"] == "Closure":
            continue
        res = d10_drops(f)
        total = sum(n for _lp, n, _f, _d in res)
        if res:
            n_loops += len(res)
            allowed = al.get(f["name"], {}).get("max", 0)
            r.examine((f["path"],), True, {"fn": f["name"], "character_loops": len(res), "dropping_ways": total, "documented": allowed})
            if total > allowed:
                lp = next(lp for lp, n, _f, _d in res if n)
                r.finding(f["path"], "character-dropped:%s" % f["name"], loc(lp), "an iteration of the character loop of `%s` (%s) can end without appending to the output, changing the parser state, failing or stopping - in %d way(s), %d documented: a character of the literal is silently dropped and the literal denotes something else than it spells" % (f["name"], loc(lp), total, allowed))
            elif allowed:
                r.info.append("documented drop in %s: %s" % (f["name"], al[f["name"]]["why"]))
    r.floor("character loops in the literal parsers", n_loops, 3)
    for f in F.fns_in("gfixture::round3::d10::"):
        if f["kind"] == "Closure" or not f.get("name", "").startswith(("ctl_", "ok_")):
            continue
        res = d10_drops(f)
        total = sum(n for _lp, n, _f, _d in res)
        if f["name"].startswith("ctl_"):
            r.control(f["name"], total > 0)
        else:
            r.neg_control(f["name"], bool(res) and total == 0)
    return r


# ---------------------------------------------------------------------------------------------------------------------
# A12  verdict pass-through: the data objects' resolve / apply / defer_op hand the host's answer to the runtime unchanged.
#      The runtime pushes unit exactly when it is told "declined"; a data object that turns an accepted answer into
#      "declined" (or the reverse) makes the identifier evaluate to unit on top of the host's value, or leaves nothing.
_CALLBACKS = ("resolve", "apply", "defer_op")


def _is_host_call(e, name):
    e = peel(e)
    if e.get("k") == "Call":
        fe = peel(e.get("f") or {})
        if fe.get("k") == "Field" and "fn(" in (fe.get("ty") or ""):
            return True
        if fe.get("k") == "Path" and fe.get("res") == "local" and "fn(" in (fe.get("ty") or ""):
            return True  # `let resolver = self.resolver; resolver(self, symbol)`
        d = callee(e) or ""
        if last(d) == name and d != "":
            return True
    if e.get("k") == "MethodCall" and e.get("m") == name:
        return True
    return False


def verdict_problems(f, name, F=None, depth=0):
    body = Body(f)
    bad = []
    n_calls = [0]
    def delegate(e):
        """a call of a workspace function that itself only passes the host's answer on"""
        if F is None or depth > 2:
            return False
        d = callee(e) if e.get("k") in ("Call", "MethodCall") else None
        g = F.fns.get(d) if d else None
        if g is None or g["crate"] != f["crate"] or g["kind"] == "Closure" or not g.get("hir") or g["path"] == f["path"]:
            return False
        if "Result<bool" not in (g["mir"]["locals"][0]["ty"] or "").replace("core::result::", ""):
            return False
        b2, c2 = verdict_problems(g, name, F, depth + 1)
        return not b2 and c2 > 0

    def ok(e, depth=0, seen=None):
        seen = seen if seen is not None else set()
        if e is None or depth > 30:
            return
        e = peel(e)
        k = e.get("k")
        if _is_host_call(e, name) or delegate(e):
            n_calls[0] += 1
            return
        if k == "Call":
            d = callee(e) or ""
            if d.endswith(("Result::Ok",)) and e.get("args"):
                return ok(e["args"][0], depth + 1, seen)
            if d.endswith("Result::Err"):
                return
        if k == "Lit":
            if str(e["lit"].get("v")).lower() == "false":
                return
            bad.append(("constant-verdict", loc(e), "answers %s without consulting the host" % e["lit"].get("v")))
            return
        if k == "Path" and e.get("res") == "local":
            if e["lid"] in seen:
                return
            seen.add(e["lid"])
            ds = body.defs.get(e["lid"], [])
            for d_ in ds:
                if d_.get("k") in ("Param", "ClosureParam"):
                    bad.append(("verdict-from-parameter", loc(e), "answers with a parameter"))
                elif d_.get("k") == "Destructure":
                    ok(d_["of"], depth + 1, seen)
                else:
                    ok(d_, depth + 1, seen)
            return
        if k == "Match":
            if e.get("src") == "TryDesugar":
                sc = peel(e.get("scrut") or {})
                if sc.get("k") == "Call" and sc.get("args"):
                    return ok(sc["args"][0], depth + 1, seen)
            for arm in e["arms"]:
                ok(arm["body"], depth + 1, seen)
            return
        if k == "If":
            ok(e.get("then"), depth + 1, seen)
            ok(e.get("else"), depth + 1, seen)
            return
        if k == "Block":
            b = e.get("b") or {}
            if isinstance(b, dict) and b.get("expr") is not None:
                return ok(b["expr"], depth + 1, seen)
            return
        if k == "Ret":
            return
        bad.append(("verdict-altered:" + str(k) + (":" + str(e.get("op") or e.get("m")) if e.get("op") or e.get("m") else ""), loc(e), "the answer is computed (%s) instead of being the host's" % k))

    ok(f["hir"])
    for n in walk(f["hir"]):
        if n.get("k") == "Ret" and n.get("e") is not None and not any("QuestionMark" in z for z in (n.get("exp") or [])):
            ok(n["e"])
    return bad, n_calls[0]


def rule_A12(ctx):
    F = ctx.F
    r = RuleResult("A12", "verdict pass-through: the data objects' resolve / apply / defer_op return the host callback's answer unchanged (or false when no host is consulted)")
    n = 0
    for f in sorted(F.fns.values(), key=lambda f: f["path"]):
        ti = f.get("trait_item") or ""
        if f["crate"] != "garnish_lang_simple_data" or "GarnishData::" not in ti or last(ti) not in _CALLBACKS:
            continue
        n += 1
        bad, calls = verdict_problems(f, last(ti), F)
        r.examine((f["path"],), True, {"method": last(ti), "impl": (f.get("impl_self") or "").split("<")[0], "host_calls": calls, "problems": [b[0] for b in bad]})
        seen = set()
        for inst, where, msg in bad:
            if inst in seen:
                continue
            seen.add(inst)
            r.finding(f["path"], inst, where, "`%s` of %s: %s (%s): the runtime pushes unit exactly when it is told the host declined, so an accepted answer reported as declined leaves unit on top of the host's value - the identifier evaluates to unit and the host's value is consumed as some other operand" % (last(ti), last((f.get("impl_self") or "?").split("<")[0]), msg, where))
        if not bad and calls == 0:
            r.info.append("%s never consults a host (always declines)" % f["path"])
    r.floor("host callback methods of the data implementations", n, 5)
    for f in F.fns_in("gfixture::round3::a12::"):
        if f["kind"] == "Closure" or not f.get("name", "").startswith(("ctl_", "ok_")):
            continue
        bad, _c = verdict_problems(f, "resolve")
        if f["name"].startswith("ctl_"):
            r.control(f["name"], bool(bad))
        else:
            r.neg_control(f["name"], not bad)
    return r


# ---------------------------------------------------------------------------------------------------------------------
# G7  the two operands of a concatenation are treated alike.  A concatenation is a binary tree whose either side may again be
#     a concatenation (`a <> (b <> c)` nests on the right, `a <> b <> c` on the left).  Code that takes one apart by hand
#     (get_concatenation) and hands its two halves to different treatment - one side is checked for being a concatenation and
#     walked on, the other is looked at as a single item - works for the chains the tests build and loses the other shape.
def _concat_pairs(f):
    """[(left binding, right binding, scope node)] for every destructuring of a get_concatenation result in f"""
    out = []
    body = Body(f)
    def two_bindings(pat):
        p = pat
        while isinstance(p, dict) and p.get("k") in ("Ref", "Deref"):
            p = p["pat"]
        if isinstance(p, dict) and p.get("k") == "Tuple" and len(p.get("pats", [])) == 2:
            bs = []
            for q in p["pats"]:
                while isinstance(q, dict) and q.get("k") in ("Ref", "Deref"):
                    q = q["pat"]
                bs.append(q if isinstance(q, dict) and q.get("k") == "Binding" else None)
            return bs
        return None
    def from_concat(e):
        return any(isinstance(o, dict) and o.get("k") == "MethodCall" and o.get("m") == "get_concatenation" for o in body.origins(e)) or any(
            x.get("k") == "MethodCall" and x.get("m") == "get_concatenation" for x in walk(e or {}))
    for n in walk(f["hir"]):
        if n.get("k") == "Let" and n.get("init") is not None:
            bs = two_bindings(n.get("pat"))
            if bs and from_concat(n["init"]):
                out.append((bs[0], bs[1], f["hir"]))
        if n.get("k") == "MethodCall" and n.get("m") in ("and_then", "map", "map_or", "map_or_else") and from_concat(n["recv"]):
            for a in n["args"]:
                c = peel(a)
                if c.get("k") == "Closure" and c.get("params"):
                    bs = two_bindings(c["params"][0].get("pat") if isinstance(c["params"][0], dict) and "pat" in c["params"][0] else c["params"][0])
                    if bs:
                        out.append((bs[0], bs[1], c["body"]))
    return out


def _treatments(scope, lid):
    """what is done with a binding: the functions it is handed to, whether it becomes the next thing to walk, ..."""
    out = set()
    def is_it(e):
        e = peel(e)
        while e.get("k") == "MethodCall" and e.get("m") in ("clone", "to_owned", "into", "borrow") or e.get("k") == "AddrOf":
            e = peel(e["recv"] if e.get("k") == "MethodCall" else e["e"])
        return e.get("k") == "Path" and e.get("res") == "local" and e.get("lid") == lid
    for n in walk(scope):
        k = n.get("k")
        if k == "MethodCall":
            if any(is_it(a) for a in n.get("args", [])):
                out.add("call:" + n.get("m", "?"))
        elif k == "Call":
            if any(is_it(a) for a in n.get("args", [])):
                d = callee(n) or ""
                nm = last(d) if d else "?"
                if nm not in ("Ok", "Some"):
                    out.add("call:" + nm)
        elif k == "Assign" and is_it(n.get("r")):
            out.add("becomes-next")
        elif k == "Tup" and any(is_it(x) for x in n.get("es", [])):
            out.add("tuple")
    return out


def rule_G7(ctx):
    F = ctx.F
    r = RuleResult("G7", "concatenation operands alike: code that takes a concatenation apart by hand gives its left and right operand the same treatment (either may itself be a concatenation)")
    n = 0
    def check(f):
        res = []
        for lb, rb, scope in _concat_pairs(f):
            if lb is None or rb is None:
                continue  # one side deliberately ignored (`(left, _)`): the accessors of one end
            tl, tr_ = _treatments(scope, lb["lid"]), _treatments(scope, rb["lid"])
            res.append((lb, tl, tr_))
        return res
    for f in sorted(F.fns.values(), key=lambda f: f["path"]):
        if f["crate"] not in ("garnish_lang_runtime", "garnish_lang_traits", "garnish_lang_simple_data") or f["kind"] == "Closure":
            continue
        for lb, tl, tr_ in check(f):
            n += 1
            r.examine((f["path"], loc(lb)), True, {"fn": f["path"], "left": sorted(tl), "right": sorted(tr_)})
            if tl != tr_:
                r.finding(f["path"], "operands-treated-differently", loc(lb), "%s takes a concatenation apart and treats its operands differently (left: %s; right: %s): the side that is not walked on as a possible concatenation is read as a single item, so items (and keys) inside a concatenation nested on that side are not found - `a <> (b <> c)`" % (last(f["path"]), sorted(tl) or "-", sorted(tr_) or "-"))
    r.floor("hand-written destructurings of a concatenation (both operands used)", n, 3)
    for f in F.fns_in("gfixture::round3::g7::"):
        if f["kind"] == "Closure" or not f.get("name", "").startswith(("ctl_", "ok_")):
            continue
        res = check(f)
        bad = any(tl != tr_ for _lb, tl, tr_ in res)
        if f["name"].startswith("ctl_"):
            r.control(f["name"], bad)
        else:
            r.neg_control(f["name"], bool(res) and not bad)
    return r


# ---------------------------------------------------------------------------------------------------------------------
# T17  stack discipline: a vector the compiler uses as a stack (both pushed and popped) is read at its top only - `last`, `pop`,
#      or the entry at an index that was derived from its length (the 'current group' of the parser).  Reading another entry
#      (`first()`, `[0]`, an iteration) answers for the OUTERMOST open bracket where the innermost is meant: the code agrees with
#      the right one as long as brackets are not nested.
_STACK_OK = {"push", "pop", "len", "is_empty", "last", "last_mut", "clear", "with_capacity", "reserve", "extend", "truncate"}


def stack_discipline(f):
    body = Body(f)
    stacks = {}
    for n in walk(f["hir"]):
        if n.get("k") == "MethodCall" and n.get("m") in ("push", "pop") and "Vec<" in (n.get("recv_ty") or ""):
            rv = peel(n["recv"])
            while rv.get("k") in ("AddrOf", "Unary"):
                rv = peel(rv["e"])
            if rv.get("k") == "Path" and rv.get("res") == "local":
                stacks.setdefault(rv["lid"], {"name": rv.get("name"), "ops": set()})["ops"].add(n["m"])
    stacks = {l: s for l, s in stacks.items() if {"push", "pop"} <= s["ops"]}
    out = []
    n_access = 0
    def is_stack(e):
        e = peel(e)
        while e.get("k") in ("AddrOf", "Unary"):
            e = peel(e["e"])
        return e.get("lid") if e.get("k") == "Path" and e.get("res") == "local" and e.get("lid") in stacks else None
    def index_from_len(e, lid):
        orgs = body.origins(e)
        if not orgs:
            return False
        for o in orgs:
            if o.get("k") == "Lit":
                continue
            if o.get("k") == "MethodCall" and o.get("m") == "len" and is_stack(o["recv"]) == lid:
                continue
            if o.get("k") == "Path" and (o.get("def") or "").endswith("::None"):
                continue
            return False
        return any(o.get("k") == "MethodCall" and o.get("m") == "len" for o in orgs)
    for n in walk(f["hir"]):
        k = n.get("k")
        if k == "MethodCall":
            lid = is_stack(n["recv"])
            if lid is None:
                continue
            n_access += 1
            m = n.get("m")
            if m in _STACK_OK:
                continue
            if m in ("get", "get_mut") and n.get("args") and index_from_len(n["args"][0], lid):
                continue
            out.append(("non-top-access:%s:%s" % (stacks[lid]["name"], m), loc(n), stacks[lid]["name"], m))
        elif k == "Index":
            lid = is_stack(n.get("e") or n.get("base") or {})
            if lid is None:
                continue
            n_access += 1
            ix = n.get("idx")
            if ix is not None and index_from_len(ix, lid):
                continue
            out.append(("non-top-access:%s:index" % stacks[lid]["name"], loc(n), stacks[lid]["name"], "[..]"))
    return out, len(stacks), n_access


def rule_T17(ctx):
    F = ctx.F
    r = RuleResult("T17", "stack discipline: a vector the parser / builder both pushes and pops is read only at its top or at an index derived from its length - never at a fixed or searched position")
    n_st = 0
    for f in sorted(F.fns.values(), key=lambda f: f["path"]):
        if f["crate"] != "garnish_lang_compiler" or f["kind"] == "Closure":
            continue
        fnd, ns, na = stack_discipline(f)
        if ns:
            n_st += ns
            r.examine((f["path"],), True, {"fn": f["path"], "stacks": ns, "accesses": na, "violations": len(fnd)})
            r.examined += max(na - 1, 0)
        seen = set()
        for inst, where, name, m in fnd:
            if inst in seen:
                continue
            seen.add(inst)
            r.finding(f["path"], inst, where, "`%s` is used as a stack (pushed and popped) but read with `%s` at %s: that is an entry other than the innermost one - with nested brackets the outermost open bracket answers where the enclosing one is meant" % (name, m, where))
    r.floor("stack-like vectors in the compiler", n_st, 1)
    for f in F.fns_in("gfixture::round3::t17::"):
        if f["kind"] == "Closure" or not f.get("name", "").startswith(("ctl_", "ok_")):
            continue
        fnd, ns, _na = stack_discipline(f)
        if f["name"].startswith("ctl_"):
            r.control(f["name"], bool(fnd))
        else:
            r.neg_control(f["name"], ns >= 1 and not fnd)
    return r


# ---------------------------------------------------------------------------------------------------------------------
# T18  shifted-id consistency in the parser.  An arm of parse() that may insert a synthetic List node in front of the node it
#      creates computes its own, shifted id (`our_id = current_id; if list { our_id = current_id + 1 }`) and uses it for what
#      it records about "this node".  Recording the unshifted id (which is then the List node's) in the loop-carried state
#      contradicts that: the next token is parented to the List node outside the brackets.
def t18_analyse(f):
    """returns (findings, number of shifted arms, number of state writes examined)"""
    top = f["hir"]
    b = top.get("b") if top.get("k") == "Block" else None
    if not isinstance(b, dict):
        return [], 0, 0
    state = {}
    for st in b.get("stmts") or []:
        if st.get("k") == "Let":
            for x in walk(st.get("pat") or {}):
                if x.get("k") == "Binding" and "mut" in str(x.get("mode") or "").lower():
                    state[x["lid"]] = x.get("name")
    fnd, n_arms, n_writes = [], 0, 0
    for lp in walk(top):
        if lp.get("k") != "Loop" or lp.get("src") != "ForLoop":
            continue
        # node id of the iteration: `let X = <Vec<ParseNode>>.len()` directly in the loop body
        ids = {}
        for n in walk(lp):
            if n.get("k") == "Let" and n.get("init") is not None:
                i = peel(n["init"])
                if i.get("k") == "MethodCall" and i.get("m") == "len" and "ParseNode" in (i.get("recv_ty") or ""):
                    for x in walk(n.get("pat") or {}):
                        if x.get("k") == "Binding":
                            ids[x["lid"]] = x.get("name")
        if not ids:
            continue
        def is_id(e):
            e = peel(e)
            return e.get("k") == "Path" and e.get("res") == "local" and e.get("lid") in ids
        for m in walk(lp):
            if m.get("k") != "Match" or m.get("src") not in (None, "Normal") or len(m.get("arms", [])) < 8:
                continue
            for arm in m["arms"]:
                # shifted own id: `let mut L = X` ... `L = X + 1` / `L += 1`
                shifted = {}
                for n in walk(arm["body"]):
                    if n.get("k") == "Let" and n.get("init") is not None and is_id(n["init"]):
                        for x in walk(n.get("pat") or {}):
                            if x.get("k") == "Binding":
                                shifted[x["lid"]] = [x.get("name"), False]
                for n in walk(arm["body"]):
                    if n.get("k") == "AssignOp" and n.get("op") in ("+=", "+") and peel(n["l"]).get("lid") in shifted:
                        shifted[peel(n["l"])["lid"]][1] = True
                    if n.get("k") == "Assign" and peel(n["l"]).get("lid") in shifted:
                        r_ = peel(n["r"])
                        if r_.get("k") == "Binary" and r_.get("op") == "+" and (is_id(r_["l"]) or is_id(r_["r"])):
                            shifted[peel(n["l"])["lid"]][1] = True
                shifted = {l: v[0] for l, v in shifted.items() if v[1]}
                if not shifted:
                    continue
                n_arms += 1
                # order: the shifted id is recorded only after the shift - a record taken before `L = id + 1` holds the unshifted id
                order = {id(x): i for i, x in enumerate(walk(arm["body"]))}
                shift_pos = {}
                for n in walk(arm["body"]):
                    if n.get("k") in ("Assign", "AssignOp") and peel(n["l"]).get("lid") in shifted:
                        shift_pos[peel(n["l"])["lid"]] = max(shift_pos.get(peel(n["l"])["lid"], -1), order[id(n)])
                for n in walk(arm["body"]):
                    if n.get("k") == "Assign" and peel(n["l"]).get("k") == "Path" and peel(n["l"]).get("lid") in state:
                        r_ = peel(n["r"])
                        if r_.get("k") == "Call" and (callee(r_) or "").endswith("::Some") and r_.get("args"):
                            a0 = peel(r_["args"][0])
                            if a0.get("k") == "Path" and a0.get("lid") in shifted and order[id(n)] < shift_pos.get(a0["lid"], -1):
                                fnd.append(("recorded-before-shift:%s" % state[peel(n["l"])["lid"]], loc(n), state[peel(n["l"])["lid"]], shifted[a0["lid"]], shifted[a0["lid"]] + " (before it is shifted)"))
                for n in walk(arm["body"]):
                    if n.get("k") != "Assign":
                        continue
                    l_ = peel(n["l"])
                    if l_.get("k") != "Path" or l_.get("lid") not in state:
                        continue
                    r_ = peel(n["r"])
                    if r_.get("k") == "Call" and (callee(r_) or "").endswith("::Some") and r_.get("args"):
                        n_writes += 1
                        if is_id(r_["args"][0]):
                            fnd.append(("unshifted-id-recorded:%s" % state[l_["lid"]], loc(n), state[l_["lid"]], sorted(shifted.values())[0], ids[peel(r_["args"][0])["lid"]]))
    return fnd, n_arms, n_writes


def rule_T18(ctx):
    F = ctx.F
    r = RuleResult("T18", "shifted-id consistency: an arm of parse() that computes a shifted id for the node it creates (a List node may be inserted in front) records that id - not the unshifted one - in the loop-carried parser state")
    total_arms = 0
    for f in sorted(F.fns.values(), key=lambda f: f["path"]):
        if f["crate"] != "garnish_lang_compiler" or "::parse::" not in f["path"] or f["kind"] == "Closure":
            continue
        fnd, n_arms, n_writes = t18_analyse(f)
        if n_arms:
            total_arms += n_arms
            r.examine((f["path"],), True, {"fn": f["path"], "arms_with_a_shifted_id": n_arms, "state_writes_examined": n_writes})
            r.examined += max(n_writes - 1, 0)
        seen = set()
        for inst, where, st, sh, idn in fnd:
            if inst in seen:
                continue
            seen.add(inst)
            r.finding(f["path"], inst, where, "this arm computes its node's id as `%s` (shifted by one when a List node is inserted in front) but records the unshifted `%s` in `%s` at %s: when the List node is inserted that is the List node's id, so what follows is attached outside the bracket / operator it belongs to" % (sh, idn, st, where))
    # no floor: the shape (`let mut our_id = id; .. our_id = id + 1`) is one way to write these arms - a parser that inserts the
    # List node through a helper returning the node's id has no such local and nothing for this clause to compare
    r.analysed["arms_with_a_shifted_id"] = total_arms
    if not total_arms:
        r.info.append("no parser arm computes a shifted own id on this tree: the clause has nothing to compare")
    for f in F.fns_in("gfixture::round3::t18::"):
        if f["kind"] == "Closure" or not f.get("name", "").startswith(("ctl_", "ok_")):
            continue
        fnd, n_arms, _w = t18_analyse(f)
        if f["name"].startswith("ctl_"):
            r.control(f["name"], bool(fnd))
        else:
            r.neg_control(f["name"], n_arms >= 1 and not fnd)
    return r


# ---------------------------------------------------------------------------------------------------------------------
# T19  an operator that waits for its right operand becomes the next parent.  In parse(), every arm that places the current
#      token with an assumed right operand (the next node id) records the token's id in the loop-carried state before doing so -
#      that is how a prefix operator or bracket that follows finds its parent.  Sibling agreement over the arms (4 today).
def t19_analyse(F, f):
    top = f["hir"]
    b = top.get("b") if top.get("k") == "Block" else None
    if not isinstance(b, dict):
        return [], 0
    body = Body(f)
    state = {}
    for st in b.get("stmts") or []:
        if st.get("k") == "Let":
            for x in walk(st.get("pat") or {}):
                if x.get("k") == "Binding" and "mut" in str(x.get("mode") or "").lower():
                    state[x["lid"]] = x.get("name")
    # helpers with a parameter that receives the right operand's id
    role = {}
    for g in F.fns.values():
        if g["crate"] == f["crate"] and g["path"].rsplit("::", 1)[0] == f["path"].rsplit("::", 1)[0] and g["kind"] != "Closure":
            for i, p in enumerate(g.get("params", [])):
                if p.get("k") == "Binding" and p.get("name") == "right":
                    role[g["path"]] = i
    fnd, n = [], 0
    for lp in walk(top):
        if lp.get("k") != "Loop" or lp.get("src") != "ForLoop":
            continue
        ids = set()
        for n_ in walk(lp):
            if n_.get("k") == "Let" and n_.get("init") is not None:
                i = peel(n_["init"])
                if i.get("k") == "MethodCall" and i.get("m") == "len" and "ParseNode" in (i.get("recv_ty") or ""):
                    ids |= set(x["lid"] for x in walk(n_.get("pat") or {}) if x.get("k") == "Binding")
        if not ids:
            continue
        def is_id(e):
            e = peel(e)
            return e.get("k") == "Path" and e.get("res") == "local" and e.get("lid") in ids
        def waits_for_right(a):
            # Some(id + 1): the node that will be created next
            a = peel(a)
            if a.get("k") == "Path" and (a.get("def") or "").endswith("::None"):
                return False
            for o in body.origins(a):
                pass
            return any(x.get("k") == "Binary" and x.get("op") == "+" and (is_id(x["l"]) or is_id(x["r"])) for e_ in [a] + [d for l in [peel(a).get("lid")] if l is not None for d in body.defs.get(l, []) if isinstance(d, dict)] for x in walk(e_))
        def records_id(stmt):
            e = stmt.get("e") if stmt.get("k") in ("Semi", "Expr") else None
            e = peel(e or {})
            if e.get("k") != "Assign":
                return False
            l_ = peel(e["l"])
            r_ = peel(e["r"])
            return l_.get("k") == "Path" and l_.get("lid") in state and r_.get("k") == "Call" and (callee(r_) or "").endswith("::Some") and r_.get("args") and is_id(r_["args"][0])
        def search(node, chain):
            """yield (call, chain of (block, index of the statement containing the call))"""
            if isinstance(node, dict):
                if node.get("k") == "Call" and (callee(node) or "") in role:
                    yield node, list(chain)
                if node.get("k") == "Block" and isinstance(node.get("b"), dict):
                    sts = node["b"].get("stmts") or []
                    for i, st in enumerate(sts):
                        yield from search(st, chain + [(sts, i)])
                    if node["b"].get("expr") is not None:
                        yield from search(node["b"]["expr"], chain + [(sts, len(sts))])
                    return
                for k_, v in node.items():
                    if k_ != "b" and isinstance(v, (dict, list)):
                        yield from search(v, chain)
            elif isinstance(node, list):
                for x in node:
                    yield from search(x, chain)
        for m in walk(lp):
            if m.get("k") != "Match" or m.get("src") not in (None, "Normal") or len(m.get("arms", [])) < 8:
                continue
            for arm in m["arms"]:
                for c, chain in search(arm["body"], []):
                    args = call_args(c)
                    ri = role[callee(c)]
                    if ri >= len(args) or not waits_for_right(args[ri]):
                        continue
                    n += 1
                    ok = any(records_id(st) for sts, i in chain for st in sts[:i])
                    if not ok:
                        fnd.append(("operator-without-next-parent:%s" % last(callee(c)), loc(c), last(callee(c))))
    return fnd, n


def rule_T19(ctx):
    F = ctx.F
    r = RuleResult("T19", "an operator waiting for its right operand becomes the next parent: every arm of parse() that places the current token with an assumed right operand first records the token's id in the loop-carried state")
    total = 0
    for f in sorted(F.fns.values(), key=lambda f: f["path"]):
        if f["crate"] != "garnish_lang_compiler" or "::parse::" not in f["path"] or f["kind"] == "Closure":
            continue
        fnd, n = t19_analyse(F, f)
        if n:
            total += n
            r.examine((f["path"],), True, {"fn": f["path"], "placements_with_assumed_right": n, "violations": len(fnd)})
            r.examined += max(n - 1, 0)
        for k, (inst, where, nm) in enumerate(fnd):
            r.finding(f["path"], inst + ("#%d" % (k + 1) if k else ""), where, "the token is placed at %s (`%s`) with the next node assumed as its right operand, but unlike its sibling arms this one does not record the token's id as the next parent first: a prefix operator or bracket that follows is parented to whatever operator came before" % (where, nm))
    r.floor("placements with an assumed right operand", total, 4)
    for f in F.fns_in("gfixture::round3::t19::"):
        if f["kind"] == "Closure" or not f.get("name", "").startswith(("ctl_", "ok_")):
            continue
        fnd, n = t19_analyse(F, f)
        if f["name"].startswith("ctl_"):
            r.control(f["name"], bool(fnd))
        else:
            r.neg_control(f["name"], n >= 1 and not fnd)
    return r


# ---------------------------------------------------------------------------------------------------------------------
# D11  slot / node agreement in the builder: the build node stored at slot i of the node list is the build node OF parse
#      node i (its constructor's first argument is the index it will re-schedule).  `nodes[left] = BuildNode::new(right, ..)`
#      makes an operand re-schedule its sibling: the operand itself never emits its instruction.
def d11_sites(f):
    body = Body(f)
    out = []
    def key(e):
        e = peel(e)
        while e.get("k") == "MethodCall" and e.get("m") in ("clone", "to_owned"):
            e = peel(e["recv"])
        if e.get("k") == "Path" and e.get("res") == "local":
            return ("l", e["lid"])
        if e.get("k") == "Field":
            return ("f", e.get("name"), key(e["e"]))
        if e.get("k") == "Unary":
            return key(e["e"])
        return ("?", id(e))
    def ctor(e):
        e = peel(e)
        if e.get("k") == "Call" and (callee(e) or "").endswith("::Some") and e.get("args"):
            e = peel(e["args"][0])
        if e.get("k") == "Call" and "BuildNode" in (callee(e) or "") and e.get("args"):
            return e
        return None
    for n in walk(f["hir"]):
        if n.get("k") == "Assign" and peel(n["l"]).get("k") == "Index" and "BuildNode" in (peel(n["l"]).get("base_ty") or ""):
            c = ctor(n["r"])
            if c is not None:
                out.append((loc(n), key(peel(n["l"])["idx"]) == key(c["args"][0]), last(callee(c))))
        if n.get("k") == "Tup" and len(n.get("es", [])) == 2:
            c = ctor(n["es"][1])
            if c is not None:
                out.append((loc(n), key(n["es"][0]) == key(c["args"][0]), last(callee(c))))
    return out


def rule_D11(ctx):
    F = ctx.F
    r = RuleResult("D11", "slot / node agreement: the build node the builder stores at slot i is constructed for parse node i (the index it re-schedules is its own)")
    n = 0
    for f in sorted(F.fns.values(), key=lambda f: f["path"]):
        if f["crate"] != "garnish_lang_compiler" or "::build::" not in f["path"] or f["kind"] == "Closure":
            continue
        k = 0
        for where, ok, cn in d11_sites(f):
            n += 1
            r.examine((f["path"], where), True, {"fn": last(f["path"]), "where": where, "constructor": cn, "agrees": ok} if n % 9 == 1 else None)
            if not ok:
                k += 1
                r.finding(f["path"], "slot-node-mismatch:%s#%d" % (last(f["path"]), k), where, "at %s a build node constructed for one parse node (`%s(<index>, ..)`) is stored at another node's slot: the operand whose slot it is re-schedules its sibling instead of itself, never emits its own instruction and no instruction is attributed to it - parse and build still return Ok" % (where, cn))
    r.floor("build nodes stored by index", n, 20)
    for f in F.fns_in("gfixture::round3::d11::"):
        if f["kind"] == "Closure" or not f.get("name", "").startswith(("ctl_", "ok_")):
            continue
        ss = d11_sites(f)
        bad = any(not ok for _w, ok, _c in ss)
        if f["name"].startswith("ctl_"):
            r.control(f["name"], bad)
        else:
            r.neg_control(f["name"], bool(ss) and not bad)
    return r


# ---------------------------------------------------------------------------------------------------------------------
# A13  list construction is not re-entered.  start_list .. add_to_list .. end_list build ONE list at a time (SimpleGarnishData
#      keeps a single buffer for the list under construction): between start_list and end_list nothing is called that may
#      itself start a list on a data object - an item that needs building (a nested list being cloned) is built before.
def _is_data_call(t, name):
    d = (t.get("def") or "")
    r_ = (t.get("resolved") or "")
    return t["k"] == "Call" and (last(d) == name and "GarnishData" in d or last(r_) == name and "GarnishData" in r_)


def a13_analyse(ctx):
    from . import cg as cgm
    F = ctx.F
    g = cgm.get(ctx)
    direct = set()
    for p, f in F.fns.items():
        if f["crate"] not in cgm.SHIPPED and f["crate"] != "gfixture":
            continue
        if (f.get("trait_item") or "").endswith("GarnishData::start_list"):
            continue
        if any(not b["cleanup"] and _is_data_call(b["term"], "start_list") for b in f["mir"]["blocks"]):
            direct.add(p)
    rev = {}
    for a, bs in g.edges.items():
        for b in bs:
            rev.setdefault(b, set()).add(a)
    may = set(direct)
    work = list(direct)
    while work:
        x = work.pop()
        for y in rev.get(x, ()):
            if y not in may:
                may.add(y)
                work.append(y)
    out = []
    n = 0
    for p in sorted(direct):
        f = F.fns[p]
        mir = f["mir"]
        bl = mir["blocks"]
        for bi, b in enumerate(bl):
            if b["cleanup"] or not _is_data_call(b["term"], "start_list"):
                continue
            n += 1
            seen, work = set(), [b["term"].get("target")]
            while work:
                x = work.pop()
                if x is None or x in seen or bl[x]["cleanup"]:
                    continue
                seen.add(x)
                t = bl[x]["term"]
                if _is_data_call(t, "end_list"):
                    continue
                if t["k"] == "Call":
                    d = t.get("resolved") or t.get("def") or ""
                    tg = set([d]) | set(g._targets(t.get("def") or "", t.get("resolved"), None))
                    hit = sorted(q for q in tg if q in may and not (q == p and False))
                    if _is_data_call(t, "start_list"):
                        hit = ["start_list"]
                    if hit:
                        out.append((p, "list-construction-re-entered:%s" % last(hit[0]), loc(t), last(hit[0]), loc(b["term"])))
                        continue
                work.extend(mirq.succs(t))
    return out, n, len(may)


def rule_A13(ctx):
    F = ctx.F
    r = RuleResult("A13", "list construction is not re-entered: between start_list and end_list nothing is called that may itself start a list (one list is under construction at a time)")
    fnd, n, nmay = a13_analyse(ctx)
    r.analysed["functions_that_may_start_a_list"] = nmay
    seen = set()
    for k in range(n):
        r.examine(("construction", k), True, None)
    for p, inst, where, callee_, started in fnd:
        if p.startswith("gfixture::"):
            continue
        if (p, inst) in seen:
            continue
        seen.add((p, inst))
        r.finding(p, inst, where, "`%s` is called at %s while the list opened at %s is still under construction, and it may start a list itself: SimpleGarnishData keeps one buffer for the list being built, so the inner list's items replace the outer list's - (10, (1, 2), 20) is copied as (1, 2, (1, 2), 20)" % (callee_, where, started))
    r.floor("list constructions (start_list call sites)", n, 10)
    bad = set(p for p, _i, _w, _c, _s in fnd)
    for f in F.fns_in("gfixture::round3::a13::"):
        if f["kind"] == "Closure" or not f.get("name", "").startswith(("ctl_", "ok_")):
            continue
        if f["name"].startswith("ctl_"):
            r.control(f["name"], f["path"] in bad)
        else:
            r.neg_control(f["name"], f["path"] not in bad)
    return r


# ---------------------------------------------------------------------------------------------------------------------
# W9  constants are interned: the value-adding methods of SimpleGarnishData that spec/simple_interned.json lists return the
#     address the interning function returned - on every path, also through the helpers they delegate to.  A path that
#     appends the value itself (address = data.len() - 1) hands out a fresh address for an equal constant.
_W9_NOISE = {"must_use", "to_string", "into", "clone", "from"}


def interned_return(F, f, depth=0, seen=None):
    """set of origin kinds of the returned address with SimpleGarnishData helpers expanded: 'intern' or a description"""
    seen = seen if seen is not None else set()
    if f["path"] in seen or depth > 4:
        return set()
    seen.add(f["path"])
    res = set()
    for k, what, where in returned_address_origins(F, f):
        if k == "call":
            if what == "cache_add":
                res.add("intern")
            elif what in _W9_NOISE:
                continue
            else:
                g = [x for x in F.fns.values() if x["crate"] == f["crate"] and x.get("name") == what and x["kind"] != "Closure" and (
                    (x.get("impl_self") or "").split("<")[0] == (f.get("impl_self") or "").split("<")[0])]
                if g:
                    res |= interned_return(F, g[0], depth + 1, seen)
                else:
                    res.add("call:%s" % what)
        elif k == "param":
            res.add("param")
        else:
            res.add("%s:%s" % (k, what))
    return res


def rule_W9(ctx):
    import json, os
    from .facts import VERIF
    F = ctx.F
    r = RuleResult("W9", "constants are interned: the SimpleGarnishData methods that add a constant (spec/simple_interned.json) return the address the interning function returned, on every path and through every helper they delegate to")
    with open(os.path.join(VERIF, "spec", "simple_interned.json")) as fh:
        want = set(json.load(fh)["interned"])
    found = 0
    for f in sorted(F.fns.values(), key=lambda f: f["path"]):
        ti = f.get("trait_item") or ""
        nm = last(ti)
        if f["crate"] != "garnish_lang_simple_data" or "GarnishData::" not in ti or "SimpleGarnishData" not in (f.get("impl_self") or "") or nm not in want:
            continue
        found += 1
        res = interned_return(F, f)
        other = sorted(x for x in res if x != "intern")
        r.examine((f["path"],), True, {"method": nm, "returned_address_from": sorted(res)})
        if "intern" not in res or other:
            r.finding(f["path"], "not-interned:%s" % nm, loc(f["hir"]), "`%s` returns an address that does not (only) come from the interning function (%s): an equal constant added again gets a different address - and a constant region holding the same value twice shifts what a later clone of the constants copies" % (nm, ", ".join(other) or "no interning call found"))
    r.floor("interning methods of SimpleGarnishData found", found, len(want))
    for f in F.fns_in("gfixture::round3::w9::"):
        if f["kind"] == "Closure" or not f.get("name", "").startswith(("ctl_", "ok_")):
            continue
        res = interned_return(F, f)
        bad = "intern" not in res or bool([x for x in res if x != "intern"])
        if f["name"].startswith("ctl_"):
            r.control(f["name"], bad)
        else:
            r.neg_control(f["name"], not bad)
    return r


# ---------------------------------------------------------------------------------------------------------------------
# D12  token text reaches the data object unrewritten.  What the builder hands to parse_add_number / _char_list / _byte_list /
#      _symbol is the token's own text, at most cut at its ends (a delimiter trimmed, a leading marker sliced off) - never
#      filtered, replaced, re-cased or rebuilt character by character: "a symbol keeps the name it was written with".
_TEXT_OK = {"text", "trim_matches", "trim_start_matches", "trim_end_matches", "strip_prefix", "strip_suffix", "as_str", "as_ref", "borrow", "deref",
            "get_lex_token", "get_text", "to_string", "clone", "to_owned", "unwrap_or", "unwrap_or_default", "trim_start", "trim_end", "index"}


def d12_sites(f):
    body = Body(f)
    out = []
    def chain(e, depth=0, seen=None):
        """None when the expression is the token text cut at its ends; else a description of the rewriting step"""
        seen = seen if seen is not None else set()
        if e is None or depth > 25:
            return None
        e = peel(e)
        k = e.get("k")
        if k in ("AddrOf", "Unary", "Field", "Cast"):
            return chain(e.get("e"), depth + 1, seen)
        if k == "Index":
            return chain(e.get("e"), depth + 1, seen)
        if k == "Lit":
            return None
        if k == "Path":
            if e.get("res") == "local":
                if e["lid"] in seen:
                    return None
                seen.add(e["lid"])
                for d_ in body.defs.get(e["lid"], []):
                    if d_.get("k") in ("Param", "ClosureParam"):
                        continue
                    if d_.get("k") == "Destructure":
                        w = chain(d_["of"], depth + 1, seen)
                    else:
                        w = chain(d_, depth + 1, seen)
                    if w:
                        return w
            return None
        if k == "MethodCall":
            if e.get("m") in _TEXT_OK:
                return chain(e["recv"], depth + 1, seen)
            return "%s() at %s" % (e.get("m"), loc(e))
        if k == "Call":
            d = callee(e) or ""
            if last(d) in ("from", "into", "Some", "Ok", "deref", "index", "borrow", "as_ref") and e.get("args"):
                return chain(e["args"][0], depth + 1, seen)
            return "%s(..) at %s" % (last(d) or "call", loc(e))
        if k == "Match":
            for arm in e.get("arms", []):
                w = chain(arm["body"], depth + 1, seen)
                if w:
                    return w
            return None
        if k == "If":
            return chain(e.get("then"), depth + 1, seen) or chain(e.get("else"), depth + 1, seen)
        if k == "Block":
            b = e.get("b") or {}
            return chain(b.get("expr"), depth + 1, seen) if isinstance(b, dict) else None
        return "%s at %s" % (k, loc(e) if e.get("sp") else "?")
    for n in walk(f["hir"]):
        if n.get("k") == "MethodCall" and str(n.get("m", "")).startswith("parse_add_") and n.get("args"):
            out.append((loc(n), n["m"], chain(n["args"][0])))
    return out


def rule_D12(ctx):
    F = ctx.F
    r = RuleResult("D12", "token text reaches the data object unrewritten: the builder hands parse_add_* the token's own text, at most cut at its ends - never filtered, replaced or rebuilt")
    n = 0
    for f in sorted(F.fns.values(), key=lambda f: f["path"]):
        if f["crate"] != "garnish_lang_compiler" or "::build::" not in f["path"]:
            continue
        k = 0
        for where, m, why in d12_sites(f):
            n += 1
            r.examine((f["path"], where), True, {"fn": last(f["path"]), "call": m, "where": where, "text_unrewritten": why is None})
            if why:
                k += 1
                r.finding(f["path"], "token-text-rewritten:%s#%d" % (m, k), where, "the text handed to `%s` at %s is not the token's own text cut at its ends: it goes through %s - characters the lexer accepts inside the token (the `:` of a namespaced name) are lost or changed, so the value denotes something else than was written" % (m, where, why))
    r.floor("parse_add_* calls in the builder", n, 6)
    for f in F.fns_in("gfixture::round3::d12::"):
        if f["kind"] == "Closure" or not f.get("name", "").startswith(("ctl_", "ok_")):
            continue
        ss = d12_sites(f)
        bad = any(w for _l, _m, w in ss)
        if f["name"].startswith("ctl_"):
            r.control(f["name"], bad)
        else:
            r.neg_control(f["name"], bool(ss) and not bad)
    return r


# ---------------------------------------------------------------------------------------------------------------------
# T20  no peephole on the emitted stream.  The builder emits roots one after another; where control re-joins (after an else
#      chain, after the out-of-line operand of && / ||) the instruction that happens to be last in the linear stream is not the
#      instruction that ran last.  So a handler may not decide what to emit from the instruction it reads back: the only reader
#      of the stream is the code that closes a root with its end-instruction list (T11 decides when that may skip).
def t20_readers(F, fns=None):
    from .rules_build import builder_fns, _end_loops, emit_helpers
    emit_helpers(F)
    out = []
    closers = set()
    fns = list(builder_fns(F)) if fns is None else fns
    for f in fns:
        if f["kind"] != "Closure" and _end_loops(f):
            closers.add(f["path"])
    # private helpers called only from the closers count as part of them
    callers = {}
    for f in fns:
        for d, _c in hirq.calls_in(f["hir"]):
            callers.setdefault(d, set()).add(f["path"].split("::{closure")[0])
    for f in fns:
        owner = f["path"].split("::{closure")[0]
        reads = [n for n in walk(f["hir"]) if n.get("k") == "MethodCall" and n.get("m") in ("get_instruction", "get_instruction_iter")]
        if not reads:
            continue
        ok = owner in closers or (bool(callers.get(owner)) and callers[owner] <= closers)
        out.append((f, reads, ok))
    return out, closers


def rule_T20(ctx):
    F = ctx.F
    r = RuleResult("T20", "no peephole on the emitted stream: only the code that closes a root with its end-instruction list reads instructions back; no handler decides what to emit from the instruction that is last in the linear stream")
    readers, closers = t20_readers(F)
    r.floor("functions that close a root (end-instruction loop)", len(closers), 1)
    seen = set()
    for f, reads, ok in readers:
        r.examine((f["path"],), True, {"fn": f["path"], "stream_reads": len(reads), "is_root_closer": ok})
        if not ok and f["path"] not in seen:
            seen.add(f["path"])
            r.finding(f["path"].split("::{closure")[0], "reads-back-emitted-stream", loc(reads[0]), "%s reads the emitted instruction stream back (%s at %s) outside the code that closes a root: what is emitted is decided from the instruction that is last in the LINEAR stream, which is not the instruction that ran last where control re-joins (after an else chain, after the right operand of && / ||) - `??(t ?> n |> !!f)` then leaves the arm's raw value unclassified" % (last(f["path"].split("::{closure")[0]), reads[0].get("m"), loc(reads[0])))
    cf = [f for f in F.fns_in("gfixture::round3::t20::")] + [f for f in F.fns_in("gfixture::t11::") if f.get("name") == "ok_stream_last_guarded"]
    creaders, _cc = t20_readers(F, cf)
    verdict = {f["path"]: ok for f, _r, ok in creaders}
    for f in cf:
        if f["kind"] == "Closure" or not f.get("name", "").startswith(("ctl_", "ok_")) or f["path"] not in verdict:
            continue
        if f["name"].startswith("ctl_"):
            r.control(f["name"], not verdict[f["path"]])
        else:
            r.neg_control(f["name"], verdict[f["path"]])
    return r


# ---------------------------------------------------------------------------------------------------------------------
# G8  a concatenation is flat ONE level deep: its walk re-enters for nested concatenations only.  The items of a list that is
#     part of a concatenation are its items; a list that is an ITEM of such a list is a single value.  In a work-list walk whose
#     dispatch has a Concatenation arm that queues the two operands, no other arm may queue onto the same work list.
def g8_sites(f):
    out = []
    for lp in walk(f["hir"]):
        if lp.get("k") != "Loop":
            continue
        for m in walk(lp):
            if m.get("k") != "Match" or m.get("src") not in (None, "Normal"):
                continue
            arms = []
            for arm in m["arms"]:
                names = set()
                for alt in hirq.norm_pat(arm["pat"]):
                    if alt[0] == "V" and alt[1]:
                        names.add(last(alt[1]))
                    elif alt[0] == "T":
                        for p_ in alt[1]:
                            if p_[0] == "V" and p_[1]:
                                names.add(last(p_[1]))
                arms.append((names, arm))
            conc = [a for ns, a in arms if "Concatenation" in ns]
            if not conc:
                continue
            def queues(body):
                qs = set()
                for n in walk(body):
                    if n.get("k") == "MethodCall" and n.get("m") in ("push", "extend", "push_back", "append", "extend_from_slice") and "Vec" in (n.get("recv_ty") or ""):
                        l = hirq.local_of(n["recv"])
                        if l is not None:
                            qs.add(("vec", l))
                    if n.get("k") == "MethodCall" and n.get("m") == "push_register":
                        qs.add(("registers", 0))
                return qs
            work = set()
            for a in conc:
                work |= queues(a["body"])
            # the work list is one that the loop also pops
            popped = set()
            for n in walk(lp):
                if n.get("k") == "MethodCall" and n.get("m") in ("pop", "pop_front") and "Vec" in (n.get("recv_ty") or ""):
                    l = hirq.local_of(n["recv"])
                    if l is not None:
                        popped.add(("vec", l))
                if n.get("k") == "MethodCall" and n.get("m") == "pop_register":
                    popped.add(("registers", 0))
            work &= popped
            if not work:
                continue
            for ns, a in arms:
                if "Concatenation" in ns:
                    continue
                q = queues(a["body"]) & work
                out.append((loc(a["pat"]), sorted(ns), bool(q)))
    return out


def rule_G8(ctx):
    F = ctx.F
    r = RuleResult("G8", "a concatenation is flat one level deep: in a work-list walk over a concatenation only the Concatenation arm queues onto the work list; the items of a list are taken as they are, a list among them stays one value")
    n = 0
    for f in sorted(F.fns.values(), key=lambda f: f["path"]):
        if f["crate"] not in ("garnish_lang_runtime", "garnish_lang_traits", "garnish_lang_simple_data") or f["kind"] == "Closure":
            continue
        sites = g8_sites(f)
        if sites:
            n += 1
            r.examine((f["path"],), True, {"fn": f["path"], "other_arms": len(sites), "arms_queueing_onto_the_work_list": [ns for _w, ns, q in sites if q]})
        seen = set()
        for where, ns, q in sites:
            key = "/".join(ns) or "catch-all"
            if q and key not in seen:
                seen.add(key)
                r.finding(f["path"], "walk-re-entered-for:%s" % key, where, "the %s arm of the concatenation walk in %s queues onto the work list (at %s): the walk then takes apart whatever those values are - a list that is an ITEM of a list inside the concatenation is flattened too, so ((1, (2, 3)) <> 4) compares equal to (1, 2, 3, 4)" % (key, last(f["path"]), where))
    r.floor("work-list walks over concatenations", n, 2)
    for f in F.fns_in("gfixture::round3::g8::"):
        if f["kind"] == "Closure" or not f.get("name", "").startswith(("ctl_", "ok_")):
            continue
        sites = g8_sites(f)
        bad = any(q for _w, _ns, q in sites)
        if f["name"].startswith("ctl_"):
            r.control(f["name"], bad)
        else:
            r.neg_control(f["name"], bool(sites) and not bad)
    return r


# ---------------------------------------------------------------------------------------------------------------------
# D13  the two data factories agree.  SimpleDataFactory and BasicDataFactory implement one interface over the same number /
#      text types; a literal must denote the same value on both data implementations.  Per method, the value each returns
#      comes from the same sources (the shared parser it delegates to, its parameter, ...) in both.
_D13_NOISE = {"new", "must_use", "from", "into", "to_string", "clone", "to_owned"}


def rule_D13(ctx):
    F = ctx.F
    r = RuleResult("D13", "the two data factories agree: per GarnishDataFactory method, SimpleDataFactory and BasicDataFactory derive what they return from the same sources (the same shared parser, the parameter)")
    by = {}
    for f in F.fns.values():
        ti = f.get("trait_item") or ""
        if "GarnishDataFactory::" in ti and f["crate"] == "garnish_lang_simple_data" and f["kind"] != "Closure":
            ks = frozenset((k, w) for k, w, _l in returned_address_origins(F, f) if not (k == "call" and w in _D13_NOISE))
            by.setdefault(last(ti), []).append((f, ks))
    n = 0
    for m, impls in sorted(by.items()):
        if len(impls) < 2:
            continue
        n += 1
        sets = set(ks for _f, ks in impls)
        r.examine((m,), True, {"method": m, "implementations": len(impls), "agree": len(sets) == 1})
        if len(sets) > 1:
            desc = "; ".join("%s: %s" % (last((f.get("impl_self") or "?").split("<")[0]), sorted("%s %s" % (k, w) for k, w in ks)) for f, ks in sorted(impls, key=lambda x: x[0]["path"]))
            odd = sorted(impls, key=lambda x: x[0]["path"])[0][0]
            r.finding(odd["path"], "factories-disagree:%s" % m, loc(odd["hir"]), "the data factories derive the result of `%s` from different sources (%s): the same literal then denotes different values on the two data implementations (a fast path in one of them that skips the shared parser's radix / separator handling)" % (m, desc))
    r.floor("GarnishDataFactory methods implemented by both factories", n, 12)
    return r


# ---------------------------------------------------------------------------------------------------------------------
# A15  a sub-expression step always hands its value on.  UpdateValue replaces the current input value (`$`) with the value of the
#      step that just ended - whatever that value is (unit included): identifiers of the next step are looked up in it first.
#      On every path of the handler that returns Ok, the cell obtained from get_current_value_mut is stored to.
def _always_err(F, d):
    """a workspace function all of whose returns are Err(..) (an error constructor like state_error)"""
    g = F.fns.get(d) if F is not None and d else None
    if g is None:
        return False
    vals = [s["rv"].get("variant") for b in g["mir"]["blocks"] if not b["cleanup"] for s in b["stmts"]
            if s["k"] == "Assign" and s["place"]["l"] == 0 and not s["place"]["p"] and s["rv"]["k"] == "Aggregate"]
    calls0 = [b for b in g["mir"]["blocks"] if not b["cleanup"] and b["term"]["k"] == "Call" and b["term"].get("dest", {}).get("l") == 0]
    return bool(vals) and all(v == "Err" for v in vals) and not calls0


def a15_analyse(f, F=None):
    mir = f["mir"]
    bl = mir["blocks"]
    asg = mirq.assignments(mir)
    def store_block(bi, b):
        for s in b["stmts"]:
            if s["k"] == "Assign" and s["place"]["p"] and s["place"]["p"][0] == "*":
                for og in mirq.origins(mir, s["place"]["l"], asg):
                    if og[1] == "term" and last(og[2].get("def") or "") == "get_current_value_mut":
                        return True
                    if og[1] != "term" and og[2].get("k") == "Use":
                        pl = mirq.op_place(og[2]["op"])
                        if pl is not None:
                            for o2 in mirq.origins(mir, pl["l"], asg):
                                if o2[1] == "term" and last(o2[2].get("def") or "") == "get_current_value_mut":
                                    return True
        return False
    def ok_block(bi, b):
        return any(s["k"] == "Assign" and s["place"]["l"] == 0 and not s["place"]["p"] and s["rv"]["k"] == "Aggregate" and s["rv"].get("variant") == "Ok" for s in b["stmts"])
    n_store = sum(1 for bi, b in enumerate(bl) if not b["cleanup"] and store_block(bi, b))
    def stop(bi, b):
        # a store, or a call that can only produce an error (the `?` after it has no way on)
        t = b["term"]
        return store_block(bi, b) or (t["k"] == "Call" and _always_err(F, t.get("resolved") or t.get("def")))
    w = mirq.path_avoiding_to(mir, [0], stop, lambda bi, b: ok_block(bi, b) and not stop(bi, b))
    return n_store, w


def rule_A15(ctx):
    F = ctx.F
    r = RuleResult("A15", "a sub-expression step always hands its value on: every Ok path of the UpdateValue handler stores the step's value into the current input value")
    fs = [f for f in F.fns.values() if f["crate"] == "garnish_lang_runtime" and f.get("name") == "update_value" and f["kind"] != "Closure"]
    if not fs:
        r.anchor_missing("update_value", "runtime fn update_value not found")
        return r
    f = fs[0]
    n_store, w = a15_analyse(f, F)
    r.examine((f["path"],), True, {"fn": f["path"], "stores_to_the_current_value": n_store, "ok_path_without_store": w is not None})
    r.floor("stores through get_current_value_mut in update_value", n_store, 1)
    if w is not None:
        r.finding(f["path"], "value-not-handed-on", loc(f["mir"]["blocks"][w[-1]]["term"]), "update_value can return Ok without storing the step's value into the current input value (for some values - unit - the store is skipped): the next step still sees the previous `$`, its identifiers are looked up in that stale input and the host's resolve is never asked about a name that happens to be a key of it")
    for g in F.fns_in("gfixture::round3::a15::"):
        if g["kind"] == "Closure" or not g.get("name", "").startswith(("ctl_", "ok_")):
            continue
        ns, w2 = a15_analyse(g, F)
        if g["name"].startswith("ctl_"):
            r.control(g["name"], w2 is not None)
        else:
            r.neg_control(g["name"], ns >= 1 and w2 is None)
    return r


# ---------------------------------------------------------------------------------------------------------------------
# G9  compaction fails only for the reviewed reasons.  optimize / clone_data must preserve every reachable value; the passes
#     behind them may refuse (return an error they construct themselves) only where a reviewed entry says why - a corrupt
#     cell, the iteration limit.  A new refusal (a 'cycle check' by address order, ...) turns legal data into a failure.
def rule_G9(ctx):
    import json, os
    from .facts import VERIF
    from .rules_store import _err_constructions
    F = ctx.F
    r = RuleResult("G9", "compaction refuses only for reviewed reasons: the errors the reachability / copy passes of BasicGarnishData construct themselves are the reviewed ones (corrupt cell, iteration limit, unmapped address), each at most as often as reviewed")
    with open(os.path.join(VERIF, "allow", "compaction_errors.json")) as fh:
        al = json.load(fh)
    names = ("create_index_stack", "clone_index_stack", "optimize_data_block_and_retain", "lookup_in_data_slice", "lookup_in_data_slice_optional", "clone_data")
    scope = [f for f in F.fns.values() if f["crate"] == "garnish_lang_simple_data" and "::basic::" in f["path"] and f.get("name") in names and f["kind"] != "Closure"]
    # private helpers of the passes (one hop) belong to them
    seen = set(f["path"] for f in scope)
    for f in list(scope):
        for d, _c in hirq.calls_in(f["hir"]):
            g = F.fns.get(d)
            if g is not None and g["crate"] == f["crate"] and "::basic::" in g["path"] and g["path"] not in seen and g["kind"] != "Closure" and g.get("vis") != "Public" and (
                    g["span"].split(":")[0] == f["span"].split(":")[0]) and not (g.get("name") or "").startswith(("get_from_", "push_to_")):
                seen.add(g["path"])
                scope.append(dict(g, _owner=f.get("name")))
    r.floor("compaction / clone pass functions", len([f for f in scope if "_owner" not in f]), 4)
    totals = {}
    where_of = {}
    for f in scope:
        owner = f.get("_owner") or f.get("name")
        for label, where in _err_constructions(F, f):
            totals.setdefault(owner, {}).setdefault(label, 0)
            totals[owner][label] += 1
            where_of.setdefault((owner, label), []).append(where)
    for owner in sorted(set(f.get("_owner") or f.get("name") for f in scope)):
        r.examine((owner,), True, {"pass": owner, "constructed_errors": totals.get(owner, {})})
        for label, n_ in sorted(totals.get(owner, {}).items()):
            allowed = al.get(owner, {}).get(label, {}).get("count", 0)
            if n_ > allowed:
                fpath = next(f["path"] for f in scope if (f.get("_owner") or f.get("name")) == owner)
                r.finding(fpath, "refusal:%s:%s|n=%d" % (owner, label, n_), where_of[(owner, label)][0], "the %s pass constructs the error %s at %d site(s) (%s); %d reviewed%s: a further reason to refuse makes optimize / clone_data fail on data they must preserve (e.g. a 'cycle check' by address order rejects a list whose items were created after start_list)" % (
                    owner, label, n_, ", ".join(where_of[(owner, label)]), allowed, (" (" + al[owner][label]["reason"] + ")") if label in al.get(owner, {}) else ""))
    return r


# ---------------------------------------------------------------------------------------------------------------------
# G10  a caller that pre-filters by type before calling a look-up accessor lets through every type the accessor supports.
#      access_with_symbol / access_with_integer dispatch on the container's type themselves; a caller that matches on the type
#      first and answers "absent" for the rest duplicates that table - and a type missing from the duplicate (Concatenation) is
#      answered absent without looking.
def _accessor_types(f):
    """type names for which the accessor's own dispatch does something else than return the unsupported-types error"""
    best = None
    for m in walk(f["hir"]):
        if m.get("k") == "Match" and m.get("src") in (None, "Normal"):
            names = [last(a[1]) for arm in m["arms"] for a in hirq.norm_pat(arm["pat"]) if a[0] == "V" and a[1] and "GarnishDataType" in a[1]]
            if names and (best is None or len(names) > len(best[1])):
                best = (m, names)
    if best is None:
        return set()
    sup = set()
    for arm in best[0]["arms"]:
        unsupported = any(x.get("k") in ("Call", "MethodCall") and last(callee(x) or x.get("m") or "") == "unsupported_types" for x in walk(arm["body"]))
        for a in hirq.norm_pat(arm["pat"]):
            if a[0] == "V" and a[1] and "GarnishDataType" in a[1] and not unsupported:
                sup.add(last(a[1]))
    return sup


def g10_sites(F, f, accessors):
    body = Body(f)
    out = []
    def typed_local(e):
        """the local whose type `e` is: `this.get_data_type(x.clone())?` -> lid of x"""
        for o in [peel(e)] + [o_ for o_ in body.origins(e) if isinstance(o_, dict)]:
            if o.get("k") == "MethodCall" and o.get("m") == "get_data_type" and o.get("args"):
                a = peel(o["args"][0])
                while a.get("k") == "MethodCall" and a.get("m") in ("clone", "to_owned"):
                    a = peel(a["recv"])
                if a.get("k") == "Path" and a.get("res") == "local":
                    return a["lid"]
        return None
    def arg_local(a):
        a = peel(a)
        while a.get("k") == "MethodCall" and a.get("m") in ("clone", "to_owned"):
            a = peel(a["recv"])
        return a.get("lid") if a.get("k") == "Path" and a.get("res") == "local" else None
    for m in walk(f["hir"]):
        if m.get("k") != "Match" or m.get("src") not in (None, "Normal"):
            continue
        sc = peel(m.get("scrut") or {})
        comps = sc.get("es") if sc.get("k") == "Tup" else [sc]
        if sc.get("k") == "Path" and sc.get("res") == "local":
            ds = [d_ for d_ in body.defs.get(sc["lid"], []) if isinstance(d_, dict) and d_.get("k") == "Tup"]
            if len(ds) == 1:
                comps = ds[0]["es"]
        lids = [typed_local(c) for c in comps]
        if not any(l is not None for l in lids):
            continue
        per = {}
        for arm in m["arms"]:
            names = [set() for _ in comps]
            for alt in hirq.norm_pat(arm["pat"]):
                parts = alt[1] if alt[0] == "T" else [alt]
                if len(parts) != len(comps):
                    continue
                for k_, q in enumerate(parts):
                    if q[0] == "V" and q[1] and "GarnishDataType" in q[1]:
                        names[k_].add(last(q[1]))
            for d, c in hirq.calls_in(arm["body"]):
                if d not in accessors:
                    continue
                cont = arg_local(call_args(c)[-1]) if call_args(c) else None
                for k_, l in enumerate(lids):
                    if l is not None and l == cont and names[k_]:
                        per.setdefault(d, set()).update(names[k_])
        for d, guard in per.items():
            # it is a FILTER when the catch-all arm answers by itself: no offer to the host, no other look-up - just "nothing"
            silent_rest = False
            for arm in m["arms"]:
                if any(dd == d for dd, _c in hirq.calls_in(arm["body"])):
                    continue
                catch_all = any(alt == ("_",) or (alt[0] == "T" and any(q == ("_",) for k_, q in enumerate(alt[1]) if lids[k_] is not None)) for alt in hirq.norm_pat(arm["pat"]))
                calls = [last(dd) for dd, _c in hirq.calls_in(arm["body"])]
                if catch_all and not any(n_.startswith("defer") or n_ in ("unsupported_types",) or n_.startswith(("access_", "index_", "get_")) for n_ in calls):
                    silent_rest = True
            if silent_rest:
                out.append((loc(m), d, guard))
    return out


def rule_G10(ctx):
    F = ctx.F
    r = RuleResult("G10", "type pre-filters cover the accessor: a caller that matches on the container's type before calling access_with_symbol / access_with_integer lets through every type the accessor itself supports")
    acc = {}
    for f in F.fns.values():
        if f["crate"] == "garnish_lang_runtime" and f.get("name") in ("access_with_symbol", "access_with_integer") and f["kind"] != "Closure":
            acc[f["path"]] = _accessor_types(f)
    r.floor("look-up accessors with a type dispatch", len([1 for v in acc.values() if v]), 2)
    n = 0
    for f in sorted(F.fns.values(), key=lambda f: f["path"]):
        if f["crate"] != "garnish_lang_runtime" or f["kind"] == "Closure" or f["path"] in acc:
            continue
        for where, d, guard in g10_sites(F, f, acc):
            n += 1
            missing = sorted(acc[d] - guard)
            # the caller's own other arms may handle a type differently on purpose (symbol-list merging for Symbol / Number / SymbolList)
            r.examine((f["path"], where, last(d)), True, {"fn": last(f["path"]), "accessor": last(d), "filter": sorted(guard), "accessor_supports": sorted(acc[d]), "missing": missing})
            if missing:
                r.finding(f["path"], "filter-misses:%s:%s" % (last(d), ",".join(missing)), where, "%s matches on the container's type before calling `%s` and lets through %s, but the accessor itself supports %s: for %s the caller answers without looking - a key inside a concatenation of lists is reported absent" % (last(f["path"]), last(d), sorted(guard), sorted(acc[d]), missing))
    r.analysed["pre_filtered_accessor_calls"] = n
    return r


# ---------------------------------------------------------------------------------------------------------------------
# T14b  the sort that a look-up relies on is unconditional.  BasicGarnishData keeps association cells sorted by key (binary
#       search) with the keyed cells in front of the holes left by un-keyed items; the functions that finish such a table sort
#       it on EVERY path that returns Ok - a sort skipped "because there is only one key" leaves that key behind a hole.
def rule_T14b(ctx):
    F = ctx.F
    r = RuleResult("T14b", "the ordering sort is unconditional: a BasicGarnishData function that sorts association cells does so on every path that returns Ok")
    n = 0
    for f in sorted(F.fns.values(), key=lambda f: f["path"]):
        if f["crate"] != "garnish_lang_simple_data" or "::basic::" not in f["path"] or f["kind"] == "Closure":
            continue
        mir = f["mir"]
        bl = mir["blocks"]
        def is_sort(bi, b):
            t = b["term"]
            return t["k"] == "Call" and last(t.get("def") or "") in ("sort_by", "sort_unstable_by", "sort_by_key", "sort", "sort_unstable")
        if not any(not b["cleanup"] and is_sort(bi, b) for bi, b in enumerate(bl)):
            continue
        n += 1
        def ok_block(bi, b):
            return any(s["k"] == "Assign" and s["place"]["l"] == 0 and not s["place"]["p"] and s["rv"]["k"] == "Aggregate" and s["rv"].get("variant") == "Ok" for s in b["stmts"])
        def stop(bi, b):
            t = b["term"]
            return is_sort(bi, b) or (t["k"] == "Call" and _always_err(F, t.get("resolved") or t.get("def")))
        w = mirq.path_avoiding_to(mir, [0], stop, lambda bi, b: ok_block(bi, b) and not stop(bi, b))
        r.examine((f["path"],), True, {"fn": f["path"], "ok_path_without_sort": w is not None})
        if w is not None:
            r.finding(f["path"], "conditional-sort", loc(bl[w[-1]]["term"]), "%s sorts the association cells only on some of its paths that return Ok: the sort also moves the keyed cells in front of the holes left by un-keyed items, so on the path that skips it (a single key that is not the first item) the header promises a key the binary search meets a hole for - the look-up fails for good" % last(f["path"]))
    r.floor("BasicGarnishData functions that sort association cells", n, 1)
    return r


# ---------------------------------------------------------------------------------------------------------------------
# T21  both children are scheduled.  A builder handler that dispatches on the pair of child links `(get_left(), get_right())`
#      may not hide a link behind a wildcard in an arm that schedules the other one: when both are present the hidden subtree
#      is never scheduled - it gets no instruction and no metadata record although parse and build return Ok.
def t21_sites(f):
    body = Body(f)
    out = []
    def link_kind(e):
        for o in [peel(e)] + [o_ for o_ in body.origins(e) if isinstance(o_, dict)]:
            if o.get("k") == "MethodCall" and o.get("m") in ("get_left", "get_right"):
                return o["m"]
        return None
    for m in walk(f["hir"]):
        if m.get("k") != "Match" or m.get("src") not in (None, "Normal"):
            continue
        sc = peel(m.get("scrut") or {})
        if sc.get("k") != "Tup" or len(sc.get("es", [])) != 2:
            continue
        kinds = [link_kind(e) for e in sc["es"]]
        if set(kinds) != {"get_left", "get_right"}:
            continue
        hidden = []
        for arm in m["arms"]:
            p = arm["pat"]
            while p.get("k") in ("Ref", "Deref"):
                p = p["pat"]
            if p.get("k") != "Tuple" or len(p.get("pats", [])) != 2:
                continue
            comps = []
            for q in p["pats"]:
                while q.get("k") in ("Ref", "Deref"):
                    q = q["pat"]
                if q.get("k") == "Wild" or (q.get("k") == "Binding" and not q.get("sub")):
                    comps.append("any")
                elif q.get("k") == "TupleStruct" and last(q.get("def") or "") == "Some":
                    comps.append("some")
                else:
                    comps.append("other")
            if "some" in comps and "any" in comps:
                # a plain binding that is then matched / scheduled in the body is fine; a wildcard or an unused binding hides the link
                k_ = comps.index("any")
                q = p["pats"][k_]
                while q.get("k") in ("Ref", "Deref"):
                    q = q["pat"]
                used = q.get("k") == "Binding" and any(x.get("k") == "Path" and x.get("lid") == q.get("lid") for x in walk(arm["body"]))
                if not used:
                    hidden.append((loc(arm["pat"]), kinds[k_]))
        out.append((loc(m), hidden))
    return out


def rule_T21(ctx):
    F = ctx.F
    r = RuleResult("T21", "both children are scheduled: a builder handler that dispatches on the pair of child links never hides one link behind a wildcard in an arm that schedules the other")
    n = 0
    for f in sorted(F.fns.values(), key=lambda f: f["path"]):
        if f["crate"] != "garnish_lang_compiler" or "::build::" not in f["path"]:
            continue
        for where, hidden in t21_sites(f):
            n += 1
            r.examine((f["path"], where), True, {"fn": last(f["path"].split("::{closure")[0]), "where": where, "hidden_links": [h[1] for h in hidden]})
            for k_, (w, kind) in enumerate(hidden):
                r.finding(f["path"].split("::{closure")[0], "child-link-hidden:%s#%d" % (kind, k_ + 1), w, "the arm at %s schedules one child and matches the other link (%s) with a wildcard: when both children are present that subtree is never scheduled - it gets no instruction and no metadata record (`[a]5[b]` loses `[b]`)" % (w, kind))
    r.analysed["pair_dispatches_on_child_links"] = n
    for f in F.fns_in("gfixture::round3::t21::"):
        if f["kind"] == "Closure" or not f.get("name", "").startswith(("ctl_", "ok_")):
            continue
        ss = t21_sites(f)
        bad = any(h for _w, h in ss)
        if f["name"].startswith("ctl_"):
            r.control(f["name"], bad)
        else:
            r.neg_control(f["name"], bool(ss) and not bad)
    return r
