#!/usr/bin/env python3
"""tools/showmir.py <fn-path-suffix>: pretty-print the extracted MIR of a function (debug aid)."""
import sys, os, json
sys.path.insert(0, os.path.dirname(os.path.dirname(os.path.abspath(__file__))))
from gcheck import facts
from gcheck.mirq import fmt_stmt, fmt_term
F, _ = facts.load()
for p, f in F.fns.items():
    if p.endswith(sys.argv[1]):
        print("==", p, f["span"])
        m = f["mir"]
        for i, l in enumerate(m["locals"]):
            print("  _%d: %s %s" % (i, l["ty"], l.get("name", "")))
        for i, b in enumerate(m["blocks"]):
            print(" bb%d%s:" % (i, " (cleanup)" if b["cleanup"] else ""))
            for s in b["stmts"]:
                print("    " + fmt_stmt(s))
            print("    -> " + fmt_term(b["term"]))
