#!/bin/sh
# tools/try_benign.sh <benign-id> <PROP>... : apply one benign patch to a scratch copy and run the given properties' checks on it
ID="$1"; shift
for p in "$@"; do
  sh /verif/tools/scratch.sh /verif/benign/$ID/patch.diff /verif/check $p 2>&1 | grep "^finding\|^BROKEN\|quick:" | cut -c1-400
done
