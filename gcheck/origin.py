"""ORIGIN: backward, flow-insensitive origin sets of HIR expressions inside one function body.

origins(expr) follows: wrappers (`?`, refs, blocks, casts between integer types), locals (-> every
initialiser / assignment / pattern-binding scrutinee of that local in the body), `clone`/`into`/`min`/
`max`/`unwrap_or`..., Ok/Some/tuple constructors, arithmetic (both operands), `if`/`match` values (all
arms).  It stops at calls and literals, which are returned as origin nodes for the rule to classify.
"""
from .facts import walk
from . import hirq
from .hirq import peel, callee

PASS_THROUGH_METHODS = {"clone", "into", "min", "max", "unwrap_or", "unwrap_or_default", "to_owned", "borrow", "as_ref",
                        "saturating_sub", "saturating_add", "checked_sub", "checked_add", "wrapping_add", "wrapping_sub",
                        "try_into", "unwrap", "expect", "ok", "ok_or", "cloned", "copied", "iter", "iter_mut", "enumerate", "rev", "into_iter"}


class Body:
    def __init__(self, fn):
        self.fn = fn
        self.defs = {}  # lid -> list of defining expressions (or ("param", i) / ("pat", scrutinee expr))
        self._index(fn)

    def _bind_pat(self, pat, src):
        # position-sensitive for tuple patterns over tuple expressions
        if pat.get("k") == "Tuple" and isinstance(src, dict) and src.get("k") == "Destructure":
            of = peel(src["of"])
            if of.get("k") == "Tup" and len(of["es"]) == len(pat["pats"]) and pat.get("dd") is None:
                for q, e in zip(pat["pats"], of["es"]):
                    if q.get("k") == "Binding" and not q.get("sub"):
                        self.defs.setdefault(q["lid"], []).append(e)
                    else:
                        self._bind_pat(q, {"k": "Destructure", "of": e, "pat": q})
                return
        for n in walk(pat):
            if n.get("k") == "Binding":
                self.defs.setdefault(n["lid"], []).append(src)

    def _index(self, fn):
        for i, p in enumerate(fn.get("params", [])):
            for n in walk(p):
                if n.get("k") == "Binding":
                    self.defs.setdefault(n["lid"], []).append({"k": "Param", "index": i, "ty": n.get("ty")})
        for n in walk(fn["hir"]):
            k = n.get("k")
            if k == "Let" and "pat" in n:
                init = n.get("init")
                if init is not None:
                    pat = n["pat"]
                    if pat.get("k") == "Binding" and not pat.get("sub"):
                        self.defs.setdefault(pat["lid"], []).append(init)
                    else:
                        self._bind_pat(pat, {"k": "Destructure", "of": init, "pat": pat})
            elif k == "LetExpr":
                self._bind_pat(n["pat"], {"k": "Destructure", "of": n["init"], "pat": n["pat"]})
            elif k == "Match":
                for arm in n["arms"]:
                    self._bind_pat(arm["pat"], {"k": "Destructure", "of": n["scrut"], "pat": arm["pat"]})
            elif k == "Assign":
                l = hirq.local_of(n["l"])
                if l is not None and peel(n["l"]).get("k") == "Path":
                    self.defs.setdefault(l, []).append(n["r"])
            elif k == "AssignOp":
                l = hirq.local_of(n["l"])
                if l is not None:
                    self.defs.setdefault(l, []).append(n["r"])
            elif k == "Closure":
                for p in n.get("params", []):
                    for m in walk(p):
                        if m.get("k") == "Binding":
                            self.defs.setdefault(m["lid"], []).append({"k": "ClosureParam", "ty": m.get("ty")})
            elif k == "Loop" and n.get("src", "").startswith("ForLoop"):
                pass

    def origins(self, e, seen=None, depth=0):
        """Set of origin nodes (dict nodes) for expression e."""
        if seen is None:
            seen = set()
        out = []
        if e is None or depth > 40:
            return out
        e = peel(e)
        k = e.get("k")
        if k == "Path" and e.get("res") == "local":
            lid = e["lid"]
            if lid in seen:
                return out
            seen.add(lid)
            for d in self.defs.get(lid, []):
                if d.get("k") in ("Param", "ClosureParam"):
                    out.append(d)
                elif d.get("k") == "Destructure":
                    out.extend(self.origins(d["of"], seen, depth + 1))
                else:
                    out.extend(self.origins(d, seen, depth + 1))
            if not self.defs.get(lid):
                out.append({"k": "UnknownLocal", "name": e.get("name")})
            return out
        if k == "MethodCall":
            if e.get("m") in PASS_THROUGH_METHODS:
                out.extend(self.origins(e["recv"], seen, depth + 1))
                for a in e["args"]:
                    out.extend(self.origins(a, seen, depth + 1))
                return out
            return [e]
        if k == "Call":
            d = callee(e)
            if d and d.endswith(("::Ok", "::Some", "::Err")) and e["args"]:
                return self.origins(e["args"][0], seen, depth + 1)
            if d in ("core::convert::From::from", "core::convert::Into::into", "core::iter::traits::iterator::Iterator::next",
                     "core::iter::traits::collect::IntoIterator::into_iter") and e["args"]:
                # for-loop desugaring: the loop variable derives from the iterated expression (e.g. range bounds)
                return self.origins(e["args"][0], seen, depth + 1)
            return [e]
        if k in ("Binary", "AssignOp"):
            return self.origins(e["l"], seen, depth + 1) + self.origins(e["r"], seen, depth + 1)
        if k == "Unary":
            return self.origins(e["e"], seen, depth + 1)
        if k == "Cast":
            return self.origins(e["e"], seen, depth + 1)
        if k == "If":
            return self.origins(e["then"], seen, depth + 1) + self.origins(e.get("else"), seen, depth + 1)
        if k == "Match":
            for arm in e["arms"]:
                out.extend(self.origins(arm["body"], seen, depth + 1))
            return out
        if k == "Block":
            return self.origins(e["b"].get("expr"), seen, depth + 1)
        if k in ("Tup", "Array"):
            for x in e["es"]:
                out.extend(self.origins(x, seen, depth + 1))
            return out
        if k == "Field":
            return [e]
        if k == "Index":
            return [e]
        return [e]
