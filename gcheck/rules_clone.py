"""T8 clone-ordering-agreement and T8b roots traced == roots rewritten (BasicGarnishData compaction)."""
from .facts import walk, loc
from . import hirq
from .hirq import peel, callee, call_args, last, norm_pat
from .origin import Body
from .report import RuleResult
from .rules_tables import spec, variants

BASICDATA = "garnish_lang_simple_data::basic::data::BasicData"


def _arm_bindings(pat, variant=None):
    """lid -> field position for the bindings of a tuple-struct arm pattern (top level only).  In an or-pattern every
    alternative binds the same names, each at its own positions, and the body refers to one canonical binding per name: for
    `variant` the positions are those of ITS alternative, applied to every binding of that name in the arm."""
    out = {}
    p = pat
    while p.get("k") in ("Ref", "Deref") or (p.get("k") == "Binding" and p.get("sub")):
        p = p["pat"] if p.get("k") in ("Ref", "Deref") else p["sub"]
    if p.get("k") == "Or":
        alts = p["pats"]
        if variant is not None:
            def alt_variant(q):
                while q.get("k") in ("Ref", "Deref"):
                    q = q["pat"]
                return last(q.get("def") or "") if q.get("k") in ("TupleStruct", "Struct", "Path") else None
            mine = [q for q in alts if alt_variant(q) == variant]
            if mine:
                name2pos = {}
                q = mine[0]
                while q.get("k") in ("Ref", "Deref"):
                    q = q["pat"]
                if q.get("k") == "TupleStruct":
                    for i, sub in enumerate(q["pats"]):
                        for n in walk(sub):
                            if n.get("k") == "Binding":
                                name2pos[n.get("name")] = i
                for n in walk(p):
                    if n.get("k") == "Binding" and n.get("name") in name2pos:
                        out[n["lid"]] = name2pos[n["name"]]
                return out
        for q in alts:
            out.update(_arm_bindings(q))
        return out
    if p.get("k") == "TupleStruct":
        for i, q in enumerate(p["pats"]):
            for n in walk(q):
                if n.get("k") == "Binding":
                    out[n["lid"]] = i
    return out


def _reach(body, e, lid2pos, seen=None, depth=0):
    """Set of arm-binding positions that flow into expression e (through lets, tuples, clones, lookups)."""
    if seen is None:
        seen = set()
    out = set()
    if e is None or depth > 30:
        return out
    e = peel(e)
    k = e.get("k")
    if k == "Path" and e.get("res") == "local":
        lid = e["lid"]
        if lid in lid2pos:
            out.add(lid2pos[lid])
            return out
        if lid in seen:
            return out
        seen.add(lid)
        for d in body.defs.get(lid, []):
            if d.get("k") == "Destructure":
                out |= _reach(body, d["of"], lid2pos, seen, depth + 1)
            elif d.get("k") in ("Param", "ClosureParam"):
                pass
            else:
                out |= _reach(body, d, lid2pos, seen, depth + 1)
        return out
    if k == "MethodCall":
        out |= _reach(body, e["recv"], lid2pos, seen, depth + 1)
        for a in e["args"]:
            out |= _reach(body, a, lid2pos, seen, depth + 1)
        return out
    if k == "Call":
        for a in e["args"]:
            out |= _reach(body, a, lid2pos, seen, depth + 1)
        return out
    if k in ("Tup", "Array"):
        for x in e["es"]:
            out |= _reach(body, x, lid2pos, seen, depth + 1)
        return out
    if k in ("Binary",):
        return _reach(body, e["l"], lid2pos, seen, depth + 1) | _reach(body, e["r"], lid2pos, seen, depth + 1)
    if k in ("Cast", "Unary", "Field"):
        return _reach(body, e["e"], lid2pos, seen, depth + 1)
    return out


def _variant_arms(F, f):
    """For the big match over BasicData in f: variant name -> arm."""
    best = None
    for m in hirq.matches_in(f["hir"], lambda t: t.lstrip("&").replace("mut ", "").startswith(BASICDATA + "<")):
        if best is None or len(m["arms"]) > len(best["arms"]):
            best = m
    arms = {}
    if best is None:
        return arms, None
    for arm in best["arms"]:
        for alt in norm_pat(arm["pat"]):
            if alt[0] == "V" and alt[1] and alt[1].startswith(BASICDATA + "::"):
                arms[last(alt[1])] = arm
    return arms, best


def _local_helpers(F, node, owner, depth=0):
    """Workspace functions of the data crate called under `node` (helpers the arm's work may have been extracted into),
    two hops, excluding the passes themselves."""
    out = []
    if depth > 1:
        return out
    for d, c in hirq.calls_in(node):
        g = F.fns.get(d)
        if g is None or g["crate"] != "garnish_lang_simple_data" or g["kind"] == "Closure" or not g.get("hir"):
            continue
        if g.get("name") in ("create_index_stack", "clone_index_stack", "lookup_in_data_slice", "lookup_in_data_slice_optional", "push_to_data_block",
                             "get_from_data_block_ensure_index") or g["path"] == owner:
            continue
        out.append((g, c))
        out.extend(_local_helpers(F, g["hir"], owner, depth + 1))
    return out


def _sink_params(F, g, is_sink, depth=0):
    """Parameter positions of helper g whose value reaches the address argument of a sink call inside g."""
    body = Body(g)
    lid2pos = {}
    for i, prm in enumerate(g.get("params", [])):
        for n in walk(prm):
            if n.get("k") == "Binding":
                lid2pos[n["lid"]] = i
    out = set()
    for d, c in hirq.calls_in(g["hir"]):
        if is_sink(d):
            args = call_args(c)
            if args:
                out |= _reach(body, args[-1], lid2pos)
    return out


def _items_traced(arm, sink_name, F=None, owner=None):
    """Does the arm hand list-cell targets (ListItem / as_list_item / AssociativeItem payloads) to the sink?  The loop over
    the cells may live in a helper the arm calls."""
    if F is not None:
        for g, _c in _local_helpers(F, arm["body"], owner):
            if _items_traced({"body": g["hir"]}, sink_name):
                return True
    for n in walk(arm["body"]):
        if n.get("k") == "MethodCall" and n.get("m") == "as_list_item":
            return True
        if n.get("k") == "Match":
            for a in n["arms"]:
                for alt in norm_pat(a["pat"]):
                    if alt[0] == "V" and alt[1] and alt[1].endswith(("::ListItem", "::AssociativeItem")):
                        for d, c in hirq.calls_in(a["body"]):
                            if last(d) == sink_name or (sink_name == "CloneItem" and d.endswith("::CloneItem")):
                                return True
                            # the hand-over may sit in a one-line helper (`push_clone_item(item)`)
                            g = F.fns.get(d) if F is not None else None
                            if g is not None and g["crate"] == "garnish_lang_simple_data" and g["kind"] != "Closure" and g.get("hir") and _sink_params(
                                    F, g, lambda dd: last(dd) == sink_name or (sink_name == "CloneItem" and dd.endswith("::CloneItem"))):
                                return True
    return False


def trace_sets(F, f):
    """create_index_stack: variant -> set of traced positions (+ 'items', 'delegate')."""
    body = Body(f)
    arms, m = _variant_arms(F, f)
    out = {}
    for v, arm in arms.items():
        lid2pos = _arm_bindings(arm["pat"], v)
        s = set()
        for d, c in hirq.calls_in(arm["body"]):
            if d.endswith("BasicData::CloneItem") and c["args"]:
                s |= _reach(body, c["args"][0], lid2pos)
            if "push_clone_items_for_custom_data" in d:
                s.add("delegate")
        for g, c in _local_helpers(F, arm["body"], f["path"]):
            ps = _sink_params(F, g, lambda d: d.endswith("BasicData::CloneItem"))
            args = call_args(c)
            for k_ in ps:
                if isinstance(k_, int) and k_ < len(args):
                    s |= _reach(body, args[k_], lid2pos)
        if _items_traced(arm, "CloneItem", F, f["path"]):
            s.add("items")
        out[v] = (s, loc(arm))
    return out, m


def remap_sets(F, f):
    """clone_index_stack: variant -> (set of remapped positions, rebuilt-constructor position map, where)."""
    body = Body(f)
    arms, m = _variant_arms(F, f)
    out = {}
    for v, arm in arms.items():
        lid2pos = _arm_bindings(arm["pat"], v)
        s = set()
        rebuilt = None
        for d, c in hirq.calls_in(arm["body"]):
            if last(d) in ("lookup_in_data_slice", "lookup_in_data_slice_optional"):
                args = call_args(c)
                if args:
                    s |= _reach(body, args[-1], lid2pos)
            if "create_cloned_custom_data" in d:
                s.add("delegate")
            if d == BASICDATA + "::" + v and c.get("args") is not None:
                # the rebuilt value: position i must come from binding position i
                pos = []
                for a in c["args"]:
                    pos.append(_reach(body, a, lid2pos))
                rebuilt = pos
        for g, c in _local_helpers(F, arm["body"], f["path"]):
            ps = _sink_params(F, g, lambda d: last(d) in ("lookup_in_data_slice", "lookup_in_data_slice_optional"))
            args = call_args(c)
            for k_ in ps:
                if isinstance(k_, int) and k_ < len(args):
                    s |= _reach(body, args[k_], lid2pos)
        if _items_traced(arm, "lookup_in_data_slice", F, f["path"]):
            s.add("items")
        cannot = any(hirq.path_def(n) and str(hirq.path_def(n)).endswith("DataErrorType::CannotClone") for n in walk(arm["body"]) if n.get("k") == "Path")
        # which BasicData variants the arm constructs (helpers it calls included): the copy of a V cell must be a V cell
        built = set(last(d) for d, _c in hirq.calls_in(arm["body"]) if d.startswith(BASICDATA + "::"))
        built |= set(last(hirq.path_def(n)) for n in walk(arm["body"]) if n.get("k") == "Path" and (hirq.path_def(n) or "").startswith(BASICDATA + "::"))
        for g, _c in _local_helpers(F, arm["body"], f["path"]):
            built |= set(last(d) for d, _c2 in hirq.calls_in(g["hir"]) if d.startswith(BASICDATA + "::"))
        out[v] = (s, rebuilt, loc(arm), cannot, built)
    return out, m


def rule_T8(ctx):
    F = ctx.F
    r = RuleResult("T8", "clone-ordering-agreement: per BasicData variant the reference fields followed by create_index_stack = those remapped by clone_index_stack = spec/basicdata_refs.json; roots traced = roots rewritten")
    sp = spec("basicdata_refs.json")
    vs = [last(v) for v in variants(F, BASICDATA)]
    r.floor("BasicData variants", len(vs), 37)
    tf = [f for f in F.find_fns(crate="garnish_lang_simple_data", name="create_index_stack")]
    cf = [f for f in F.find_fns(crate="garnish_lang_simple_data", name="clone_index_stack")]
    if not tf or not cf:
        r.anchor_missing("create_index_stack / clone_index_stack", "functions not found")
        return r
    tr, tm = trace_sets(F, tf[0])
    rm, cm = remap_sets(F, cf[0])
    r.floor("arms in the reachability match", len(tr), 37)
    r.floor("arms in the copy match", len(rm), 37)
    for m, f in ((tm, tf[0]), (cm, cf[0])):
        if m is not None:
            from .rules_tables import check_no_catch_all

            for arm in check_no_catch_all(m):
                r.finding(f["path"], "catch-all", loc(arm), "the per-variant match has a catch-all arm: a new BasicData variant would be silently skipped")
    for v in vs:
        want = set(sp["refs"].get(v, ["<unknown variant>"]))
        if v not in sp["refs"]:
            r.info.append("variant %s is not in spec/basicdata_refs.json; only trace==remap agreement is checked" % v)
        t = tr.get(v)
        c = rm.get(v)
        r.examine(("variant", v), bool(want), {"variant": v, "spec": sorted(map(str, want)), "traced": sorted(map(str, t[0])) if t else None, "remapped": sorted(map(str, c[0])) if c else None})
        if t is None or c is None:
            r.finding((tf[0] if t is None else cf[0])["path"], "arm-missing:" + v, "-", "no arm for BasicData::%s" % v)
            continue
        ts, tw = t
        cs, rebuilt, cw, cannot, built = c
        if v in sp["refs"] and ts != want:
            r.finding(tf[0]["path"], "trace:" + v, tw, "reachability pass follows fields %s of %s, the reference fields are %s: %s" % (
                sorted(map(str, ts)), v, sorted(map(str, want)), "a referenced value would not be kept alive" if want - ts else "a non-reference is followed as an address"))
        if cannot:
            # scratch / list-cell variants are never cloned on their own
            if want:
                r.finding(cf[0]["path"], "remap:" + v, cw, "%s has reference fields %s but the copy pass refuses to clone it" % (v, sorted(map(str, want))))
            continue
        if v in sp["refs"] and cs != want:
            r.finding(cf[0]["path"], "remap:" + v, cw, "copy pass remaps fields %s of %s, the reference fields are %s: %s" % (
                sorted(map(str, cs)), v, sorted(map(str, want)), "a stale pre-compaction address would be kept" if want - cs else "a payload is rewritten as an address"))
        built = built & set(vs)
        if built and v not in built:
            r.finding(cf[0]["path"], "rebuilt-as:%s->%s" % (v, "/".join(sorted(built - {"JumpPoint"})) or "?"), cw,
                      "the copy pass rebuilds a %s cell as %s: the cell keeps its payload but changes its meaning (e.g. a frame record read back as a different kind of link)" % (v, sorted(built - {"JumpPoint"})))
        if ts != cs:
            r.finding(cf[0]["path"], "agree:" + v, cw, "the two passes disagree on %s: traced %s, remapped %s" % (v, sorted(map(str, ts)), sorted(map(str, cs))))
        if rebuilt is not None:
            for i, ps in enumerate(rebuilt):
                r.examine(("rebuilt", v, i), True)
                if ps and ps != {i}:
                    r.finding(cf[0]["path"], "rebuilt:%s.%d" % (v, i), cw, "field %d of the rebuilt %s comes from field(s) %s of the original" % (i, v, sorted(ps)))
    # ---------------------------------------------------------------- T8c unconditional trace
    # the copy pass resolves every occurrence of a record through the scratch stack the reachability pass built, and relies on
    # a record's children being queued after EVERY occurrence of it.  So an arm queues its reference fields whenever it is
    # taken - never depending on what the object (or the scratch stack so far) holds.
    f0 = tf[0]
    body0 = Body(f0)
    self_lids = set(b["lid"] for prm in f0.get("params", [])[:1] for b in walk(prm) if b.get("k") == "Binding")
    def state_dependent(e, depth=0, seen=None):
        seen = seen if seen is not None else set()
        for x in walk(e):
            if x.get("k") == "Path" and x.get("res") == "local":
                if x["lid"] in self_lids:
                    return True
                if x["lid"] in seen or depth > 6:
                    continue
                seen.add(x["lid"])
                for d_ in body0.defs.get(x["lid"], []):
                    if isinstance(d_, dict) and d_.get("k") not in ("Param", "ClosureParam", "Destructure", "Field", "Binding") and state_dependent(d_, depth + 1, seen):
                        return True
        return False
    arms0, _m0 = _variant_arms(F, f0)
    n_cond = 0
    for v, arm in sorted(arms0.items()):
        def is_queue(n):
            return n.get("k") in ("Call", "MethodCall") and any(d.endswith("BasicData::CloneItem") for d, _c in hirq.calls_in(n))
        for n in walk(arm["body"]):
            if n.get("k") != "If" or (n.get("src") not in (None, "Normal") and "Desugar" in str(n.get("src"))):
                continue
            t_, e_ = n.get("then"), n.get("else")
            q_t = any(is_queue(x) for x in walk(t_ or {}))
            q_e = any(is_queue(x) for x in walk(e_ or {}))
            skips = any(x.get("k") in ("Continue", "Break") and not any("ForLoop" in z for z in (x.get("exp") or [])) for br in (t_, e_) for x in walk(br or {}))
            if (q_t != q_e or skips) and (q_t or q_e or any(is_queue(x) for x in walk(arm["body"]))):
                n_cond += 1
                if state_dependent(n["cond"]):
                    r.finding(f0["path"], "conditional-trace:" + v, loc(n), "the %s arm of the reachability pass queues the record's reference fields only under a condition that looks at the object's state (%s): the copy pass resolves every occurrence of a record through the scratch stack and needs the children queued after each of them - a value reachable twice then fails to clone (NoMappedIndexFoundDuringClone) or is left behind by optimize" % (v, loc(n)))
    r.analysed["conditional_trace_sites"] = n_cond
    # ---------------------------------------------------------------- T8d no way around the trace
    # the compactor frees what the reachability pass did not reach, so it may not finish (or free anything) on a path that
    # skipped the pass: an explicit `return` reached before any root was handed to create_index_stack is a shortcut that
    # decides liveness by some other argument (e.g. "the newest symbol-table entry tells").
    of0 = F.find_fns(crate="garnish_lang_simple_data", name="optimize_data_block_and_retain")
    if of0:
        from .rules_round3 import _d10_eval
        def is_trace(n):
            return n.get("k") in ("Call", "MethodCall") and last(callee(n) or n.get("m") or "") == "create_index_stack"
        is_trace.rets = []
        fall = _d10_eval(of0[0]["hir"], {False}, [], 0, is_trace)
        r.examine((of0[0]["path"], "shortcuts"), True, {"fn": of0[0]["path"], "returns_before_tracing": len(is_trace.rets), "falls_through_untraced": False in fall})
        for k_, n_ in enumerate(is_trace.rets):
            r.finding(of0[0]["path"], "returns-before-tracing#%d" % (k_ + 1), loc(n_), "optimize returns at %s on a path on which no root was handed to the reachability pass: what is freed (or kept) on that path was decided without tracing - a symbol name, stack cell or frame the shortcut's argument overlooks is wiped while still referenced" % loc(n_))
    # ---------------------------------------------------------------- T8b roots
    of = F.find_fns(crate="garnish_lang_simple_data", name="optimize_data_block_and_retain")
    if not of:
        r.anchor_missing("optimize_data_block_and_retain", "function not found")
        return r
    f = of[0]
    body = Body(f)

    def root_kind(e):
        kinds = set()
        orgs = list(body.origins(e))
        for o in list(orgs):
            # a literal collection of roots (`for root in [register, value, frame].into_iter().flatten()`): every element
            if o.get("k") in ("Array", "Tup"):
                for x in o.get("es", []):
                    orgs.extend(body.origins(x))
        for o in orgs:
            d = callee(o) or ""
            n = last(d)
            if n.startswith("get_from_symbol_table_block_ensure_index"):
                kinds.add("symbol_table")
            elif n == "current_register":
                kinds.add("register")
            elif n == "current_value":
                kinds.add("value")
            elif n == "current_frame":
                kinds.add("frame")
            elif o.get("k") == "Param":
                kinds.add("extra")
        return kinds

    traced, rewritten = {}, {}
    for d, c in hirq.calls_in(f["hir"]):
        if last(d) == "create_index_stack":
            for kd in root_kind(call_args(c)[-1]):
                traced.setdefault(kd, []).append(loc(c))
        if last(d) == "lookup_in_data_slice":
            for kd in root_kind(call_args(c)[-1]):
                rewritten.setdefault(kd, []).append(loc(c))
    # write-backs: set_current_* calls and the assignment through the symbol table &mut / the result vector
    setters = set(last(d) for d, _c in hirq.calls_in(f["hir"]) if last(d).startswith("set_current_"))
    wb = {"register": "set_current_register" in setters, "value": "set_current_value" in setters, "frame": "set_current_frame" in setters}
    wb["symbol_table"] = any(last(d) == "get_from_symbol_table_block_ensure_index_mut" for d, _c in hirq.calls_in(f["hir"]))
    wb["extra"] = any(n.get("k") == "Assign" and peel(n["l"]).get("k") == "Index" for n in walk(f["hir"]))
    for kd in sp["roots"]:
        r.examine(("root", kd), True, {"root": kd, "traced_at": traced.get(kd), "remapped_at": rewritten.get(kd), "written_back": wb.get(kd)})
        if kd not in traced:
            r.finding(f["path"], "root-traced:" + kd, "-", "root kind %s is not handed to the reachability pass: its values would be collected" % kd)
        if kd not in rewritten:
            r.finding(f["path"], "root-remapped:" + kd, "-", "root kind %s is traced but never looked up in the old->new map after compaction" % kd)
        elif not wb.get(kd):
            r.finding(f["path"], "root-written:" + kd, rewritten[kd][0], "root kind %s is remapped but the new address is not written back" % kd)
    return r
