//! T14 controls: a comparator that answers Less in both directions / an antisymmetric one.
use std::cmp::Ordering;

pub enum Cell {
    Item(u64),
    Empty,
}

pub fn ctl_asymmetric(v: &mut Vec<Cell>) {
    v.sort_by(|a, b| match (a, b) {
        (Cell::Item(x), Cell::Item(y)) => x.cmp(y),
        (Cell::Item(_), _) => Ordering::Less,
        (_, Cell::Item(_)) => Ordering::Less,
        _ => Ordering::Equal,
    });
}

pub fn ok_antisymmetric(v: &mut Vec<Cell>) {
    v.sort_by(|a, b| match (a, b) {
        (Cell::Item(x), Cell::Item(y)) => x.cmp(y),
        (Cell::Item(_), _) => Ordering::Less,
        (_, Cell::Item(_)) => Ordering::Greater,
        _ => Ordering::Equal,
    });
}
