//! G5 controls: walking a linked structure whose links may not form a tree.
pub struct N {
    pub left: Option<usize>,
    pub right: Option<usize>,
}
impl N {
    pub fn get_left(&self) -> Option<usize> {
        self.left
    }
    pub fn get_right(&self) -> Option<usize> {
        self.right
    }
}

/// follows the links with a work stack and never notices a node it has already seen
pub fn ctl_walk_without_marks(nodes: &[N], root: usize) -> Result<usize, String> {
    let mut count = 0;
    let mut pending = vec![root];
    while let Some(i) = pending.pop() {
        count += 1;
        if let Some(n) = nodes.get(i) {
            pending.extend(n.get_left());
            pending.extend(n.get_right());
        }
    }
    Ok(count)
}

pub fn ok_walk_with_marks(nodes: &[N], root: usize) -> Result<usize, String> {
    let mut seen = vec![false; nodes.len()];
    let mut count = 0;
    let mut pending = vec![root];
    while let Some(i) = pending.pop() {
        match seen.get(i).copied() {
            Some(false) => {}
            _ => return Err(format!("node {} is linked more than once", i)),
        }
        seen[i] = true;
        count += 1;
        if let Some(n) = nodes.get(i) {
            pending.extend(n.get_left());
            pending.extend(n.get_right());
        }
    }
    Ok(count)
}
