//! A2 controls: instruction pushed without its metadata record on one branch, and a paired twin.
use garnish_lang_traits::{GarnishData, Instruction};

pub struct InstructionMetadata(pub Option<usize>);

pub fn ctl_unpaired_branch<D: GarnishData>(data: &mut D, meta: &mut Vec<InstructionMetadata>, flag: bool) -> Result<(), D::Error> {
    data.push_instruction(Instruction::MakeList, None)?;
    if flag {
        meta.push(InstructionMetadata(None));
    }
    data.push_instruction(Instruction::Apply, None)?;
    meta.push(InstructionMetadata(Some(1)));
    Ok(())
}

pub fn ctl_pending_return<D: GarnishData>(data: &mut D, _meta: &mut Vec<InstructionMetadata>) -> Result<(), D::Error> {
    data.push_instruction(Instruction::Put, None)?;
    Ok(())
}

pub fn ctl_extra_metadata<D: GarnishData>(_data: &mut D, meta: &mut Vec<InstructionMetadata>) -> Result<(), D::Error> {
    meta.push(InstructionMetadata(None));
    Ok(())
}

pub fn ok_paired<D: GarnishData>(data: &mut D, meta: &mut Vec<InstructionMetadata>, flag: bool) -> Result<(), D::Error> {
    if flag {
        data.push_instruction(Instruction::MakeList, None)?;
        meta.push(InstructionMetadata(None));
    }
    data.push_instruction(Instruction::Apply, None)?;
    meta.push(InstructionMetadata(Some(1)));
    Ok(())
}
