//! A8 controls: a table-driven classifier whose current classification must follow the table node it has reached.
#[derive(Clone, Copy, PartialEq, Debug)]
pub enum Kind {
    A,
    B,
}

pub struct Node {
    pub kind: Option<Kind>,
    pub next: Option<Box<Node>>,
}

pub struct CtlWalker {
    pub root: Node,
    pub current_kind: Option<Kind>,
    pub depth: usize,
}

impl CtlWalker {
    fn reached(&self) -> Option<&Node> {
        let mut n = &self.root;
        for _ in 0..self.depth {
            match &n.next {
                Some(x) => n = x,
                None => return None,
            }
        }
        Some(n)
    }

    /// keeps the stale classification when the node reached has none of its own
    pub fn ctl_step_keeps_stale(&mut self) -> bool {
        self.depth += 1;
        match self.reached() {
            Some(node) => {
                if let Some(k) = node.kind {
                    self.current_kind = Some(k);
                }
                true
            }
            None => false,
        }
    }

    pub fn ok_step_follows_node(&mut self) -> bool {
        self.depth += 1;
        match self.reached() {
            Some(node) => {
                self.current_kind = node.kind;
                true
            }
            None => false,
        }
    }
}
