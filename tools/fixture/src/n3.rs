//! N3 controls: finiteness filter on float arithmetic results.
pub enum Num {
    Integer(i32),
    Float(f64),
}

pub fn ctl_infinite_only(a: f64, b: f64) -> Option<Num> {
    let f = a * b;
    if f.is_infinite() {
        return None;
    }
    Some(Num::Float(f))
}

pub fn ctl_unfiltered(a: f64, b: f64) -> Option<Num> {
    Some(Num::Float(a.powf(b)))
}

pub fn ok_is_finite(a: f64, b: f64) -> Option<Num> {
    let f = a * b;
    if !f.is_finite() {
        return None;
    }
    Some(Num::Float(f))
}

pub fn ok_both_tests(a: f64, b: f64) -> Option<Num> {
    let f = a / b;
    if f.is_infinite() || f.is_nan() {
        return None;
    }
    Some(Num::Float(f))
}

pub fn ok_not_arithmetic(a: f64) -> Option<Num> {
    Some(Num::Float(a.abs()))
}
