"""./check <PROPERTY> [--tier quick|thorough] [--explain <replay.json>]"""
import argparse
import json
import os
import sys
import time

from . import facts, report
from .props import PROPS, RULES


class Ctx:
    def __init__(self, F, repo, tier):
        self.F = F
        self.repo = repo
        self.tier = tier
        self.memo = {}


def run_rules(ctx, rule_ids):
    results = []
    for rid in rule_ids:
        fn = RULES[rid]
        t0 = time.time()
        res = fn(ctx)
        res.analysed["wall_s"] = round(time.time() - t0, 3)
        results.append(res)
    return results


def check_property(prop, tier, seed, explain=None, quiet=False):
    t0 = time.time()
    if prop not in PROPS:
        print("unknown or not-applicable property %s" % prop)
        return 2
    pdef = PROPS[prop]
    try:
        F, fdir = facts.load()
    except facts.ExtractionError as e:
        print("BROKEN: fact extraction failed: %s" % e)
        return 2
    ctx = Ctx(F, facts.REPO, tier)
    results = run_rules(ctx, pdef["rules"])
    extra = {
        "extraction": dict(F.stats(), cache=fdir, config="default features; lib + bin targets; cfg(test) modules not analysed",
                           wall_s=float(open(os.path.join(fdir, "DONE")).read() or 0)),
        "trusted_base": pdef.get("trusted_base", []) + [
            "rustc (nightly) HIR/MIR construction and name resolution",
            "gfacts extractor faithfully serialises HIR/MIR",
        ],
        "assumptions": pdef.get("assumptions", []),
    }
    broken = []
    for r in results:
        for name, ok in r.controls.items():
            if not ok:
                broken.append("rule %s did not report its positive control %s" % (r.id, name))
        for name, ok in r.neg_controls.items():
            if not ok:
                broken.append("rule %s fired on its negative control %s" % (r.id, name))
    if tier == "thorough":
        from . import thorough

        thorough.run(ctx, prop, pdef, results, extra, broken)
    known = report.known_for(prop)
    new, old = [], []
    seen = set()
    for r in results:
        for f in r.findings:
            if f.key in seen:
                continue
            seen.add(f.key)
            (old if f.key in known else new).append(f)
    wall = time.time() - t0
    ev = report.write_evidence(prop, tier, seed, results, new, old, wall, extra, pdef["claim"])
    if explain:
        want = json.load(open(explain))
        hits = [f for f in new + old if f.key == want.get("key")]
        if hits:
            for f in hits:
                print("REPRODUCED %s\n  at %s\n  %s" % (f.key, f.where, f.msg))
                for p in f.path:
                    print("    " + str(p))
            return 1
        print("not reproduced on the current tree: %s" % want.get("key"))
        return 0
    if not quiet:
        for r in results:
            print("[%s] %s: %d instances examined (%d distinct non-trivial), %d finding(s)%s" % (
                r.id, r.title, r.examined, len(r.nontrivial), len(r.findings),
                ("; controls " + ",".join("%s=%s" % (k, "ok" if v else "MISSED") for k, v in sorted(r.controls.items()))) if r.controls else ""))
    if broken:
        for b in broken:
            print("BROKEN: " + b)
        return 2
    for f in old:
        print("KNOWN-FINDING: property=%s %s %s" % (prop, f.key, known[f.key].get("what", f.msg)))
    # stale known entries are reported as info (a fixed defect should be moved to "fixed")
    present = set(f.key for f in old)
    for k in known:
        if k not in present:
            print("note: known finding %s no longer reproduces" % k)
    n = 0
    for f in new:
        n += 1
        p = report.write_replay(prop, n, f)
        print("finding: %s @ %s: %s" % (f.key, f.where, f.msg))
        print("VIOLATION property=%s replay=%s" % (prop, p))
    print("%s %s: %d rule(s), %d new violation(s), %d known finding(s), evidence %s (%.1fs)" % (prop, tier, len(results), len(new), len(old), ev, wall))
    return 1 if new else 0


def selftest():
    try:
        F, fdir = facts.load()
    except facts.ExtractionError as e:
        print("BROKEN: fact extraction failed: %s" % e)
        return 2
    ctx = Ctx(F, facts.REPO, "quick")
    bad = 0
    for rid in sorted(RULES):
        r = RULES[rid](ctx)
        for name, ok in sorted(r.controls.items()):
            print("control %s/%s: %s" % (rid, name, "detected" if ok else "MISSED"))
            bad += 0 if ok else 1
        for name, ok in sorted(r.neg_controls.items()):
            print("negative control %s/%s: %s" % (rid, name, "silent" if ok else "FIRED"))
            bad += 0 if ok else 1
    print("selftest: %d bodies extracted, %d control failure(s)" % (len(F.fns), bad))
    return 2 if bad else 0


def main(argv=None):
    ap = argparse.ArgumentParser()
    ap.add_argument("prop", nargs="?")
    ap.add_argument("--selftest", action="store_true", help="extract facts and verify every rule's positive/negative controls")
    ap.add_argument("--tier", default=os.environ.get("VERIF_TIER", "quick"))
    ap.add_argument("--explain")
    a = ap.parse_args(argv)
    tier = a.tier if a.tier in ("quick", "thorough") else "quick"
    if a.selftest or not a.prop:
        sys.exit(selftest())
    try:
        seed = int(os.environ.get("VERIF_SEED", "0"))
    except ValueError:
        seed = 0
    sys.exit(check_property(a.prop, tier, seed, a.explain))


if __name__ == "__main__":
    main()
