//! N1 controls: raw / unchecked integer arithmetic vs. checked.
pub fn ctl_raw_add(a: i32, b: i32) -> Option<i32> {
    Some(a + b)
}

pub fn ctl_raw_shift(a: i32, b: i32) -> Option<i32> {
    Some(a << b)
}

pub fn ctl_wrapping(a: i32, b: i32) -> Option<i32> {
    Some(a.wrapping_mul(b))
}

pub fn ctl_flag_ignored(a: i32, b: i32) -> Option<i32> {
    let (v, _o) = a.overflowing_sub(b);
    Some(v)
}

pub fn ok_checked(a: i32, b: i32) -> Option<i32> {
    let (v, o) = a.overflowing_add(b);
    if o {
        return None;
    }
    Some(v & b)
}
