#!/usr/bin/env python3
"""Materialise allow/panic_sites.json from the site-by-site review below.

Run ONLY after re-reviewing: it freezes the *current* count of every (function, kind) the review table
covers, with the reviewer's reason.  A (function, kind) that no row covers is left out and stays a
finding.  The check itself never calls this script and never edits the allow-list.

Row = (function-path substring, kind regex, reason).  First matching row wins.
"""
import json, os, re, sys
sys.path.insert(0, os.path.dirname(os.path.dirname(os.path.abspath(__file__))))
from gcheck import facts, main, cg, rules_cg

CLASSES = {
    "K2:Overflow(Add:usize)": "sum of in-memory element counts / heap indices: bounded by the heap length, cannot reach 2^64 (adds with an operand cast from a signed or float value are NOT in this class: they are tagged <-signed and reviewed per site)",
    "K2:Overflow(Mul:usize)": "product of an element count and a small configured factor (len * 2 cells per list item, growth multiplier): bounded by the heap length",
    "K6:add:usize": "usize + &usize through the std operator impl: same bound as the plain usize additions",
}

BLOCK_INV = "block invariant: for each of the six blocks start + size <= data.len() and cursor <= size, (re)established by reallocate_heap for all blocks at once (D3 checks the six stanzas agree); the index is tested against cursor first"

ROWS = [
    # ---------------- compile set: builder
    ("compiler::build::build::handle_parse_node::{closure#6}", r"K3:index:str", "the text of a Symbol token starts with the one-byte ':' (the lexer classifies text as Symbol only then), so [1..] is in range and on a char boundary"),
    ("compiler::build::build::", r"K3:index:Vec\[usize\]", "dominated by the validation at the top of build(): parse_root and every left/right link are < parse_tree.len() == nodes.len(); ConditionItem.node_index is such a right link", ["build-links-validated"]),
    # ---------------- lexer
    ("lex::lexer::Lexer::<'a>::start_token", r"K1:macro:unreachable", "inside `if self.current_operator().is_some()`: the second call on the same unchanged buffer cannot be None"),
    ("lex::lexer::Lexer::<'a>::start_token", r"K2:Overflow\(Add", "row counter, bounded by the input length"),
    ("lex::lexer::Lexer::<'a>::process_char", r"K2:Overflow\(Add", "character / row / column / quote counters, bounded by the input length"),
    ("lex::lexer::Lexer::<'a>::process_char", r"K2:Overflow\(Sub:usize\)", "text_column - 1 in the Float state: the token holds a digit and a '.' of this line, so column >= 2; the two len() - 2 are inside `if len > 2`"),
    ("lex::lexer::Lexer::<'a>::process_char", r"K3:index:String", "inside `if len > 2`; in the Spaces/Subexpression states the buffer holds only one-byte ASCII whitespace, so len - 2 is a char boundary", ["lexer-whitespace-ascii"]),
    ("lex::lexer::create_operator_tree", r"K1:macro:unreachable", "get_mut of a key that was inserted / found by contains_key two lines above"),
    ("lex::lexer::create_operator_tree", r"K2:Overflow\(Sub:usize\)", "len - 1 is evaluated inside the loop over the spelling's characters, so len >= 1"),
    # ---------------- parser
    ("parse::parser::parse_token", r"K2:Overflow\(Add", "iteration guard counter, bounded by nodes.len()"),
    ("parse::parser::parse_value_like", r"K2:Overflow\(Add", "node id + 1, bounded by the token count"),
    ("parse::parser::trim_tokens", r"K2:Overflow\((Add|Sub)", "start is incremented and end (initially len) decremented at most len times"),
    ("parse::parser::trim_tokens", r"K3:index:Vec\[Range\]", "guarded by the `start > end` early return; end <= len"),
    ("parse::parser::parse", r"K1:macro:unreachable", "inside `while !node.parent.is_none()`"),
    ("parse::parser::parse", r"K2:Overflow\(Add", "node ids / iteration counters, bounded by the token count"),
    ("parse::parser::parse", r"K2:Overflow\(Sub:usize\)", "group_stack.len() - 1 in the `false` arm of `group_stack.is_empty()`"),
    # ---------------- data::parsing (build path)
    ("data::parsing::parse_number_internal", r"K3:index:str", "i is the byte index of an ASCII '_' returned by find: 0..i and i+1.. are in range and on char boundaries"),
    ("data::parsing::parse_number_internal", r"K4:i32::from_str_radix", "radix is 10, 16 or a parsed value checked to be within 2..=36 three lines above"),
    ("data::parsing::parse_char_list", r"K4:char::to_digit", "constant radix 16"),
    ("data::parsing::parse_char_list", r"K2:Overflow\(Add", "quote counter, bounded by the input length"),
    ("data::parsing::parse_byte_list", r"K2:Overflow\(Add", "quote counter, bounded by the input length"),
    # ---------------- Basic store primitives
    ("BasicGarnishData::<T, Companion>::push_to_symbol_table_block", r"K3:index:Vec\[Range\]", BLOCK_INV),
    ("::reallocate_heap", r"K3:index:Vec\[usize\]", "new_heap has new_size = sum of the six new block sizes cells; each stanza writes current_block_start + i with i < old cursor <= old size <= new size of that block, and reads old start + i inside the old heap (" + BLOCK_INV + ")"),
    ("_ensure_index", r"K3:index:Vec\[usize\]", BLOCK_INV),
    ("::push_to_block", r"K3:index:Vec\[usize\]", "every push_to_*_block caller grows the block when cursor >= size before calling (D3 checks the six siblings); needs a growth policy that makes progress, which the property assumes"),
    ("storage::StorageBlock::next_size", r"K2", "element counts"),
    # ---------------- iterators
    ("data::iterators::SizeIterator as core::iter::traits::iterator::Iterator>::next", r"K2:Overflow\(Sub:usize\)", "current_front was incremented on the line above"),
    ("data::iterators::", r"K3:index:Vec\[usize\]", "guarded by `self.current >= self.items.len()` returning None just above"),
    # ---------------- Simple store
    ("SimpleGarnishData<T, A>>::push_instruction", r"K2:Overflow\(Sub:usize\)", "len() - 1 right after a push"),
    ("SimpleGarnishData<T, A>>::add_", r"K2:Overflow\(Sub:usize\)", "len() - 1 right after a push"),
    ("SimpleGarnishData<T, A>>::merge_to_symbol_list", r"K2:Overflow\(Sub:usize\)", "len() - 1 right after a push on every non-error arm"),
    ("SimpleGarnishData<T, A>>::merge_to_symbol_list", r"K4:.*insert", "insert at index 0 is always in range"),
    ("SimpleGarnishData<T, A>>::end_list", r"K2:Overflow\(Sub:usize\)", "len() - 1 right after a push"),
    ("SimpleGarnishData<T, A>>::end_list", r"K2:RemainderByZero", "inside `for index in 0..associations.len()`, so the length is non-zero"),
    ("SimpleGarnishData<T, A>>::end_list", r"K3:index:Vec\[usize\]", "index < associations.len(); i is reduced modulo that length and wrapped to 0 when it reaches it; ordered has the same length"),
    ("SimpleGarnishData<T, A>>::get_list_item_with_symbol", r"K2:RemainderByZero", "guarded by the `associations_len == 0` early return"),
    ("SimpleGarnishData::<T, A>::add_stack_frame", r"K2:Overflow\(Sub:usize\)", "len() - 1 right after a push"),
    ("SimpleGarnishData::<T, A>::add_to_current_char_list", r"K2:Overflow\(Sub:usize\)", "len - 1 inside `for i in 0..len`"),
    ("SimpleGarnishData::<T, A>::add_to_current_char_list", r"K1:macro:todo", "operand of type Custom/Invalid: stack-frame cells are the only Custom values a program can own and pop_register refuses to hand them out ('Popped StackFrame from registers', witnessed with `({ ;; } ~~) ~# \"\"`); Invalid is never the type of a stored value. Host-registered custom data is outside the programs the property quantifies over"),
    # ---------------- Basic garnish impl
    ("BasicGarnishData::<T, Companion>::get_symbol_string::{closure#0}", r"K1:.*unwrap", "cells after a CharList(n) header are Char cells by construction of add_string / parse_add_symbol (header = chars().count() since the fix)", ["charlist-header-counts-chars"]),
    ("BasicGarnishData::<T, Companion>::get_symbol_string", r"K3:index:Vec\[Range\]", "symbol-table block extent (" + BLOCK_INV + "); the char cells of a name follow its CharList(n) header inside the data block"),
    ("::get_char_list_iter::{closure#0}", r"K1:.*unwrap", "cells after a CharList(n) header are Char cells by construction (parse_add_char_list, add_string, conversions write n cells after writing n)", ["charlist-header-counts-chars"]),
    ("::get_byte_list_iter::{closure#0}", r"K1:.*unwrap", "cells after a ByteList(n) header are Byte cells by construction"),
    ("::get_char_list_iter", r"K3:index:Vec\[Range\]", "start/end come from extents_to_start_end: both clamped to base+1+len and end >= start since the fix; the n cells of the list lie inside the data block", ["range-end-clamped"]),
    ("::get_byte_list_iter", r"K3:index:Vec\[Range\]", "as get_char_list_iter", ["range-end-clamped"]),
    ("::get_list_item_iter", r"K3:index:Vec\[Range\]", "as get_char_list_iter; a List(len, _) header is followed by 2*len cells (start_list)", ["range-end-clamped"]),
    ("::get_symbol_list_iter", r"K3:index:Vec\[Range\]", "start/end clamped to the list's len cells and end >= start since the fix", ["range-end-clamped"]),
    ("::get_concatenation_iter", r"K3:index:Vec\[Range\]", "start/end clamped to items.len() and end >= start since the fix", ["range-end-clamped"]),
    ("::get_list_item_with_symbol", r"K3:index:Vec\[Range\]", "the association cells are the second len cells of the 2*len cells start_list reserved after the header"),
    ("BasicGarnishData<T, Companion>>::end_list", r"K3:index:Vec\[Range\]", "same 2*len cells reserved by start_list"),
    ("BasicGarnishData<T, Companion>>::pop_frame", r"K2:Overflow\(Sub:usize\)", "push_frame writes the JumpPoint cell immediately before the frame cell, so a frame index is >= 1"),
    ("basic::search::search_for_associative_item", r"K2:(BoundsCheck|Overflow\(Sub:usize\))", "classic binary search: size >= 1 after the empty check, half < size, base + half < len; the returned index is < len"),
    ("conversions::bytes::", r"K3:index:Vec\[Range\]", "as a panic site only: a block-relative index is <= the absolute one, so from+1..from+1+length stays inside the heap (that it reads the wrong cells is D2's finding, not a panic)"),
    ("conversions::number::", r"K2:BoundsCheck", "guarded by the `bytes.len() > 4` early return; conversion_bytes has 4 slots"),
    ("conversions::number::", r"K4:char::to_digit", "constant radix 10"),
    ("conversions::string::convert_with_delegate", r"K2:Overflow\(Sub:usize\)", "end = from + 1 + length >= 1"),
    # ---------------- runtime
    ("runtime::equality::perform_equality_check", r"K5:sub", "guarded by the `get_register_len() < two` state error above"),
    ("runtime::list::make_list", r"K5:sub", "guarded by the `len > get_register_len()` state error above"),
    ("helpers::concatenation::iterate_concatenation_mut_with_method", r"K1:macro:unimplemented", "get_list_item(list, i) with i < get_list_len(list): both shipped impls return Some for every index below the length (Simple: Vec::get; Basic: ListItem cell), so the None arm is dead for them"),
]


def main_():
    F, d = facts.load()
    ctx = main.Ctx(F, facts.REPO, "quick")
    comp, run = cg.entry_sets(F)
    out = {"_format": "function path -> kind:detail -> {count, reason}; _classes: kinds allowed wherever they occur",
           "_classes": CLASSES}
    uncovered = []
    for tag, roots in (("compile", comp), ("run", run)):
        reach, inv, parent = rules_cg.inventory(ctx, roots, tag)
        for p, kds in inv.items():
            for kd, sites in kds.items():
                if kd in CLASSES:
                    continue
                hit = None
                req = None
                for row in ROWS:
                    sub, kre, reason = row[0], row[1], row[2]
                    if sub in p and re.match(kre, kd):
                        hit = reason
                        req = row[3] if len(row) > 3 else None
                        break
                if hit is None:
                    uncovered.append((tag, p, kd, [w for w, _t in sites]))
                    continue
                e = out.setdefault(p, {})
                n = len(sites)
                if kd in e:
                    n = max(n, e[kd]["count"])
                e[kd] = {"count": n, "reason": hit}
                if req:
                    e[kd]["requires"] = req
    json.dump(out, open(os.path.join(facts.VERIF, "allow", "panic_sites.json"), "w"), indent=1, sort_keys=True)
    print("allow-list: %d functions" % (len(out) - 2))
    print("NOT covered by the review (stay findings):")
    for u in uncovered:
        print("  ", u)


if __name__ == "__main__":
    main_()
