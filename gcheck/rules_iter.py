"""T15 lockstep-walk fidelity: an iterator that is looked at again after a lossy adaptor ran over a *borrow* of it.

`a.by_ref().zip(b.by_ref())` draws from `a` first and, when `b` is exhausted, drops the item it drew; `by_ref().take_while(p)`
/ `map_while` drop the first item that fails the predicate.  Code that afterwards asks the same iterator what is left
(`a.next()` to decide which sequence is longer, or continues to consume it) silently misses that item: two sequences that
differ by exactly one trailing element compare equal.  The rule is a necessary condition of every element-wise comparison
of two sequences (C11 equality, C12 ordering): nothing drawn from an operand is discarded before it is compared."""
from .facts import walk, loc
from . import hirq
from .hirq import peel, callee, last
from .origin import Body
from .report import RuleResult

LOSSY = {"zip": "drops an item of the receiver when the other iterator is exhausted first",
         "take_while": "drops the first item that fails the predicate",
         "map_while": "drops the first item for which the closure returns None",
         "skip_while": None}
ITER = "core::iter::traits::iterator::Iterator::"


def _borrowed_local(e):
    """local id when e is `x.by_ref()` or `&mut x` for a local x, else None"""
    e0 = e
    while isinstance(e0, dict) and e0.get("k") in ("DropTemps", "Use"):
        e0 = e0["e"]
    if not isinstance(e0, dict):
        return None
    if e0.get("k") == "MethodCall" and e0.get("def") == ITER + "by_ref":
        p = peel(e0["recv"])
        if p.get("k") == "Path" and p.get("res") == "local":
            return p["lid"], p.get("name")
    if e0.get("k") == "AddrOf" and "mut" in (e0.get("ty") or ""):
        p = peel(e0["e"])
        if p.get("k") == "Path" and p.get("res") == "local":
            return p["lid"], p.get("name")
    return None


def lossy_sites(f):
    """(instance, where, msg) for each lossy adaptor applied to a borrow of a local iterator that is used again elsewhere."""
    out = []
    n_adapt = 0
    hir = f["hir"]
    for n in walk(hir):
        if n.get("k") != "MethodCall":
            continue
        d = n.get("def") or ""
        if not d.startswith(ITER) or last(d) not in LOSSY or LOSSY[last(d)] is None:
            continue
        n_adapt += 1
        borrowed = []
        b = _borrowed_local(n["recv"])
        if b:
            borrowed.append(b)
        if last(d) == "zip" and n["args"]:
            # the argument side of zip loses nothing (it is asked second), only the receiver does
            pass
        for lid, name in borrowed:
            # any other mention of the local outside this adaptor expression
            inside = set(id(x) for x in walk(n))
            uses = [x for x in walk(hir) if x.get("k") == "Path" and x.get("res") == "local" and x.get("lid") == lid and id(x) not in inside]
            # a plain `let mut x = ..` binding is not a Path; parameters neither: every hit is a real later/earlier use
            later = [x for x in uses]
            if later:
                out.append(("lossy-adaptor:%s:%s" % (last(d), name), loc(n),
                            "`%s` runs over a borrow of `%s` (%s) and `%s` is used again at %s: the item it dropped is never seen, so an operand exactly one element longer than the other is taken for equal" % (
                                last(d), name, LOSSY[last(d)], name, ", ".join(sorted(set(loc(x) for x in later)))[:120])))
    return out, n_adapt


def rule_T15(ctx):
    F = ctx.F
    r = RuleResult("T15", "lockstep-walk fidelity: no iterator is consulted again after a lossy adaptor (zip / take_while / map_while) ran over a borrow of it")
    scope = [f for f in F.fns.values() if f["crate"] in ("garnish_lang_runtime", "garnish_lang_simple_data", "garnish_lang_traits", "garnish_lang_compiler")]
    n_fns = 0
    n_iter_fns = 0
    for f in sorted(scope, key=lambda f: f["path"]):
        n_fns += 1
        fnd, n_adapt = lossy_sites(f)
        uses_next = any(n.get("k") == "MethodCall" and n.get("def") == ITER + "next" for n in walk(f["hir"]))
        if uses_next or n_adapt:
            n_iter_fns += 1
            r.examine(f["path"], True, {"fn": f["path"], "lossy_adaptors": n_adapt, "findings": len(fnd)} if (n_adapt or len(r.samples) < 3) else None)
        else:
            r.examined += 1
        for inst, where, msg in fnd:
            r.finding(f["path"], inst, where, msg)
    r.analysed["functions_scanned"] = n_fns
    r.analysed["functions_drawing_from_iterators"] = n_iter_fns
    r.floor("functions that draw from iterators by hand (next())", n_iter_fns, 5)
    for f in F.fns_in("gfixture::t15::"):
        if f["kind"] == "Closure":
            continue
        fnd, _n = lossy_sites(f)
        if f["name"].startswith("ctl_"):
            r.control(f["name"], bool(fnd))
        elif f["name"].startswith("ok_"):
            r.neg_control(f["name"], not fnd)
    return r
