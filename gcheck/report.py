"""Findings, rule results, known-findings handling and evidence writing."""
import json
import os
import time

from .facts import VERIF

KNOWN_PATH = os.path.join(VERIF, "known_findings.json")
EVIDENCE_DIR = os.path.join(VERIF, "evidence")
REPLAY_DIR = os.path.join(EVIDENCE_DIR, "replay")


class Finding:
    def __init__(self, rule, fn, instance, where, msg, path=None):
        self.rule = rule
        self.fn = fn
        self.instance = instance
        self.where = where
        self.msg = msg
        self.path = path or []

    @property
    def key(self):
        return "%s|%s|%s" % (self.rule, self.fn, self.instance)

    def to_json(self):
        return {
            "key": self.key,
            "rule": self.rule,
            "function": self.fn,
            "instance": self.instance,
            "where": self.where,
            "message": self.msg,
            "path": self.path,
        }

    def __repr__(self):
        return "%s @ %s: %s" % (self.key, self.where, self.msg)


class RuleResult:
    def __init__(self, rid, title):
        self.id = rid
        self.title = title
        self.examined = 0
        self.nontrivial = set()
        self.samples = []
        self.findings = []
        self.info = []
        self.floors = []  # (name, got, floor)
        self.controls = {}  # name -> detected?
        self.neg_controls = {}  # name -> stayed silent?
        self.analysed = {}
        self.trusted = []

    def examine(self, key, nontrivial=True, sample=None):
        self.examined += 1
        if nontrivial:
            self.nontrivial.add(key)
        if sample is not None and len(self.samples) < 6:
            self.samples.append(sample)

    def finding(self, fn, instance, where, msg, path=None):
        f = Finding(self.id, fn, instance, where, msg, path)
        self.findings.append(f)
        return f

    def floor(self, name, got, floor):
        self.floors.append((name, got, floor))
        if got < floor:
            self.finding(
                "<anchor>",
                "floor:" + name,
                "-",
                "anchor/floor failed: %s = %d, expected at least %d (kind=anchor-missing: unverifiable is not held)"
                % (name, got, floor),
            )

    def anchor_missing(self, name, why):
        self.finding("<anchor>", "missing:" + name, "-", "anchor missing: %s (%s); kind=anchor-missing" % (name, why))

    def control(self, name, detected):
        self.controls[name] = bool(detected)

    def neg_control(self, name, silent):
        self.neg_controls[name] = bool(silent)


def load_known():
    if not os.path.exists(KNOWN_PATH):
        return {"findings": [], "fixed": []}
    with open(KNOWN_PATH) as f:
        return json.load(f)


def all_known():
    """Keys of every recorded known finding (all properties)."""
    return [e["key"] for e in load_known().get("findings", [])]


def known_for(prop):
    k = load_known()
    return {e["key"]: e for e in k.get("findings", []) if e["property"] == prop}


def write_evidence(prop, tier, seed, results, new, known, wall, extra, claim):
    os.makedirs(EVIDENCE_DIR, exist_ok=True)
    obligations = sum(r.examined for r in results)
    distinct = sum(len(r.nontrivial) for r in results)
    viol = len(new) + len(known)
    samples = []
    for r in results:
        for s in r.samples[:3]:
            samples.append({"rule": r.id, "instance": s})
    if not samples:
        samples = [{"note": "no instances"}]
    cov = {
        "explanation": claim,
        "obligations": obligations,
        "discharged": obligations - viol if obligations >= viol else 0,
        "evaluations": max(obligations, 1),
        "distinct_nontrivial": distinct,
        "rule": "one evaluation = one rule instance (arm / call site / path / table row / function) examined on the "
        "current /repo tree; non-trivial = the instance is a concrete construct the rule constrains "
        "(wildcards, empty arms and duplicates are not counted)",
        "samples": samples,
        "exhaustive": True,
        "checker_cmd": "./check %s --tier %s" % (prop, tier),
        "trusted_base": extra.get("trusted_base", []),
        "rules": [
            {
                "id": r.id,
                "title": r.title,
                "instances_examined": r.examined,
                "distinct_nontrivial": len(r.nontrivial),
                "floors": [{"name": n, "got": g, "floor": f} for (n, g, f) in r.floors],
                "analysed": r.analysed,
                "info": r.info[:40],
                "trusted_summaries": r.trusted,
                "positive_controls": r.controls,
                "negative_controls": r.neg_controls,
                "findings": [f.to_json() for f in r.findings],
            }
            for r in results
        ],
        "extraction": extra.get("extraction", {}),
        "new_violations": [f.to_json() for f in new],
        "known_findings": [f.to_json() for f in known],
    }
    for k in ("mutants", "cross_reference", "configs"):
        if k in extra:
            cov[k] = extra[k]
    ev = {
        "property_id": prop,
        "tier": tier,
        "seed": seed,
        "level": "other",
        "coverage": cov,
        "assumptions": extra.get("assumptions", []),
        "wall_s": round(wall, 3),
        "violations": len(new),
    }
    p = os.path.join(EVIDENCE_DIR, prop + ".json")
    tmp = p + ".tmp"
    with open(tmp, "w") as f:
        json.dump(ev, f, indent=1)
    os.replace(tmp, p)
    return p


def write_replay(prop, n, finding, extra=None):
    os.makedirs(REPLAY_DIR, exist_ok=True)
    p = os.path.join(REPLAY_DIR, "%s-%d.json" % (prop, n))
    d = finding.to_json()
    d["property"] = prop
    if extra:
        d.update(extra)
    with open(p, "w") as f:
        json.dump(d, f, indent=1)
    return p
