"""HIR query helpers: peeling wrappers, pattern normalisation, arm tables, call finding."""
from .facts import walk, loc


def peel(e):
    """Strip wrappers that do not change which value an expression denotes:
    `?`, DropTemps, Use, single-expression blocks, references, type ascription, parens."""
    while isinstance(e, dict):
        k = e.get("k")
        if k in ("DropTemps", "Use", "Type"):
            e = e["e"]
        elif k == "AddrOf":
            e = e["e"]
        elif k == "Block" and not e["b"]["stmts"] and e["b"]["expr"]:
            e = e["b"]["expr"]
        elif k == "Match" and e.get("src") == "TryDesugar":
            sc = e["scrut"]
            if sc.get("k") == "Call" and sc["args"]:
                e = sc["args"][0]
            else:
                break
        elif k == "Unary" and e.get("op") == "*":
            e = e["e"]
        else:
            break
    return e


def is_try(e):
    return isinstance(e, dict) and e.get("k") == "Match" and e.get("src") == "TryDesugar"


def callee(e):
    """Resolved def path of a call / method call expression (after peeling), else None."""
    e = peel(e)
    if not isinstance(e, dict):
        return None
    if e.get("k") == "MethodCall":
        return e.get("def")
    if e.get("k") == "Call":
        f = peel(e["f"])
        if f.get("k") == "Path" and f.get("res") in ("def", "self"):
            return f.get("def")
    return None


def call_args(e):
    """Arguments of a call including the receiver for method calls."""
    e = peel(e)
    if e.get("k") == "MethodCall":
        return [e["recv"]] + e["args"]
    if e.get("k") == "Call":
        return e["args"]
    return []


def path_def(e):
    e = peel(e)
    if isinstance(e, dict) and e.get("k") == "Path" and e.get("res") in ("def", "self"):
        return e.get("def")
    if isinstance(e, dict) and e.get("k") == "Struct":
        return e.get("def")
    return None


def local_of(e):
    e = peel(e)
    if isinstance(e, dict) and e.get("k") == "Path" and e.get("res") == "local":
        return e["lid"]
    if isinstance(e, dict) and e.get("k") == "MethodCall" and e.get("def", "").endswith("::clone"):
        return local_of(e["recv"])
    return None


def last(path):
    return path.rsplit("::", 1)[-1] if path else path


def calls_in(node, pred=None):
    """All call / method-call nodes under node, optionally filtered by pred(def_path, node)."""
    out = []
    for n in walk(node):
        k = n.get("k")
        if k == "MethodCall" or k == "Call":
            d = callee(n)
            if d is None:
                continue
            if pred is None or pred(d, n):
                out.append((d, n))
    return out


def matches_in(node, scrut_ty_pred):
    out = []
    for n in walk(node):
        if n.get("k") == "Match" and n.get("src") in ("Normal",):
            if scrut_ty_pred(n["scrut"].get("ty", "")):
                out.append(n)
    return out


# ---------------------------------------------------------------- patterns


def norm_pat(p):
    """Normalise a pattern to a list of alternatives.  Each alternative is one of
    ('V', variant_path)   unit-like path / tuple-struct / struct variant (payload ignored)
    ('_',)                wildcard or plain binding (covers everything)
    ('T', (alts...))      tuple: a tuple of per-position alternatives (cartesian expanded)
    ('L', value)          literal
    ('R',)                range / slice / other refutable
    """
    k = p.get("k")
    if k == "Wild":
        return [("_",)]
    if k == "Binding":
        if p.get("sub"):
            return norm_pat(p["sub"])
        return [("_",)]
    if k == "Or":
        out = []
        for q in p["pats"]:
            out.extend(norm_pat(q))
        return out
    if k in ("Ref", "Deref"):
        return norm_pat(p["pat"])
    if k == "Guard":
        return [("G",) + a for a in norm_pat(p["pat"])]
    if k == "Expr":
        e = p["e"]
        if e.get("k") == "Path":
            return [("V", e.get("def"))]
        if e.get("k") == "Lit":
            return [("L", e["lit"].get("v"))]
        return [("R",)]
    if k in ("TupleStruct", "Struct"):
        return [("V", p.get("def"))]
    if k == "Tuple":
        pos = [norm_pat(q) for q in p["pats"]]
        outs = [()]
        for alts in pos:
            outs = [o + (a,) for o in outs for a in alts]
        return [("T", o) for o in outs]
    return [("R",)]


def arm_table(match):
    """[(alternatives, guard_present, arm)] for every arm of a match node."""
    rows = []
    for arm in match["arms"]:
        rows.append((norm_pat(arm["pat"]), arm.get("guard") is not None, arm))
    return rows


def is_catch_all(alt):
    if alt == ("_",):
        return True
    if alt[0] == "T":
        return all(is_catch_all(a) for a in alt[1])
    return False


def bindings_in(p, out=None):
    """Map binding name -> lid for every binding inside a pattern."""
    if out is None:
        out = {}
    for n in walk(p):
        if n.get("k") == "Binding":
            out[n["name"]] = n["lid"]
    return out


def lit_value(e):
    e = peel(e)
    if isinstance(e, dict) and e.get("k") == "Lit":
        return e["lit"].get("v")
    return None


def expanded_from(n, macro):
    ex = n.get("exp")
    return bool(ex) and macro in ex
