"""Numeric discipline over MIR: N1 checked-int, N2 float->int cast, N3 finiteness filter."""
import json
import os

from .facts import VERIF, loc
from . import mirq
from .hirq import last
from .report import RuleResult

GNUM = "garnish_lang_traits::data::GarnishNumber::"
INT_TYS = {"i8", "i16", "i32", "i64", "i128", "isize", "u8", "u16", "u32", "u64", "u128", "usize"}
ARITH = {"Add", "Sub", "Mul", "Div", "Rem", "Shl", "Shr", "AddWithOverflow", "SubWithOverflow", "MulWithOverflow",
         "AddUnchecked", "SubUnchecked", "MulUnchecked", "ShlUnchecked", "ShrUnchecked"}
FLOAT_SAFE_METHODS = {"abs", "max", "min", "floor", "ceil", "trunc", "round", "from", "clone", "signum", "copysign",
                      "is_finite", "is_infinite", "is_nan", "partial_cmp", "eq", "lt", "le", "gt", "ge", "ne", "to_bits", "fract"}


def allow(name):
    p = os.path.join(VERIF, "allow", name)
    if not os.path.exists(p):
        return {}
    with open(p) as f:
        return json.load(f)


def number_scope(F, impl_self_suffix="::SimpleNumber", fixture_prefix=None):
    """GarnishNumber methods of SimpleNumber plus the workspace functions they (transitively) call."""
    roots = []
    for f in F.fns.values():
        if fixture_prefix:
            if f["path"].startswith(fixture_prefix) and f["kind"] != "Closure":
                roots.append(f)
        elif f.get("trait_item", "").startswith(GNUM) and f.get("impl_self", "").endswith(impl_self_suffix):
            roots.append(f)
    files = set(r["span"].split(":")[0] for r in roots)
    scope = {}
    st = list(roots)
    while st:
        f = st.pop()
        if f["path"] in scope:
            continue
        scope[f["path"]] = f
        for b in f["mir"]["blocks"]:
            t = b["term"]
            if t["k"] == "Call":
                for d in (t.get("resolved"), t.get("def")):
                    g = F.fns.get(d) if d else None
                    if g is not None and g["span"].split(":")[0] in files:
                        st.append(g)
            for s in b["stmts"]:
                if s["k"] == "Assign" and s["rv"]["k"] == "Aggregate" and s["rv"].get("agg") == "Closure":
                    d = s["rv"]["closure"]
                    if d in F.fns:
                        st.append(F.fns[d])
    return roots, scope


def _flag_reaches_switch(mir, dest_local, F=None, depth=0):
    """Does field .1 of tuple local `dest_local` reach a SwitchInt discriminant (through copies)?  The (value, flag) tuple may
    also be handed whole to a workspace function (`checked_integer(v.overflowing_abs())`); then the question is asked of that
    function's parameter (3 hops)."""
    if F is not None and depth < 3:
        whole = {dest_local}
        changed = True
        while changed:
            changed = False
            for b in mir["blocks"]:
                for s in b["stmts"]:
                    if s["k"] == "Assign" and s["rv"]["k"] == "Use" and not s["place"]["p"]:
                        pl = mirq.op_place(s["rv"]["op"])
                        if pl and not pl["p"] and pl["l"] in whole and s["place"]["l"] not in whole:
                            whole.add(s["place"]["l"])
                            changed = True
        for b in mir["blocks"]:
            t = b["term"]
            if t["k"] != "Call":
                continue
            for ai, a in enumerate(t["args"]):
                pl = mirq.op_place(a)
                if pl and not pl["p"] and pl["l"] in whole:
                    g = F.fns.get(t.get("resolved") or "") or F.fns.get(t.get("def") or "")
                    if g is not None and g.get("mir") and ai + 1 <= g["mir"]["argc"] and _flag_reaches_switch(g["mir"], ai + 1, F, depth + 1):
                        return True
    flags = set()
    for b in mir["blocks"]:
        for s in b["stmts"]:
            if s["k"] == "Assign" and s["rv"]["k"] == "Use":
                pl = mirq.op_place(s["rv"]["op"])
                if pl and pl["l"] == dest_local and len(pl["p"]) == 1 and isinstance(pl["p"][0], dict) and pl["p"][0].get("f") == 1:
                    if not s["place"]["p"]:
                        flags.add(s["place"]["l"])
    changed = True
    while changed:
        changed = False
        for b in mir["blocks"]:
            for s in b["stmts"]:
                if s["k"] == "Assign" and s["rv"]["k"] == "Use" and not s["place"]["p"]:
                    l = mirq.op_local(s["rv"]["op"])
                    if l in flags and s["place"]["l"] not in flags:
                        flags.add(s["place"]["l"])
                        changed = True
    for b in mir["blocks"]:
        t = b["term"]
        if t["k"] == "SwitchInt":
            l = mirq.op_local(t["discr"])
            if l in flags:
                return True
    return False


def n1_sites(F, f):
    """Yield (instance, where, msg) N1 violations in one function."""
    mir = f["mir"]
    counts = {}
    reach = mirq.reachable_blocks(mir)
    for bi, b in enumerate(mir["blocks"]):
        if bi not in reach or b["cleanup"]:
            continue
        for s in b["stmts"]:
            if s["k"] != "Assign":
                continue
            rv = s["rv"]
            if rv["k"] == "BinaryOp" and rv["op"] in ARITH and rv.get("lty") in INT_TYS:
                if s.get("exp"):
                    continue
                op = rv["op"].replace("WithOverflow", "").replace("Unchecked", "")
                counts[op] = counts.get(op, 0) + 1
                yield ("raw:%s#%d" % (op, counts[op]), loc(s), "raw integer `%s` on %s: traps in debug builds / wraps in release instead of yielding None" % (op, rv["lty"]))
            if rv["k"] == "UnaryOp" and rv["op"] == "Neg" and rv.get("ety") in INT_TYS and not s.get("exp"):
                counts["Neg"] = counts.get("Neg", 0) + 1
                yield ("raw:Neg#%d" % counts["Neg"], loc(s), "raw integer negation: overflows for MIN")
        t = b["term"]
        if t["k"] == "Call" and t.get("def") and not t.get("exp"):
            d = t["def"]
            name = last(d)
            if d.startswith("core::num::<impl ") and d.split("<impl ")[1].split(">")[0] in INT_TYS:
                if name.startswith("overflowing_"):
                    if not t["dest"]["p"] and not _flag_reaches_switch(mir, t["dest"]["l"], F):
                        counts["flag"] = counts.get("flag", 0) + 1
                        yield ("flag-ignored:%s#%d" % (name, counts["flag"]), loc(t), "overflow flag of `%s` is never branched on: the wrapped value would be returned" % name)
                elif name.startswith(("wrapping_", "saturating_", "unchecked_")) or name in ("pow", "abs", "isqrt", "ilog", "ilog2", "ilog10", "div_euclid", "rem_euclid", "rotate_left", "rotate_right", "shl", "shr"):
                    counts[name] = counts.get(name, 0) + 1
                    yield ("unchecked-call:%s#%d" % (name, counts[name]), loc(t), "integer `%s` either wraps/saturates or panics on overflow; the result must be None instead" % name)
            # generic closure parameter returning (int, bool): flag must be honoured
            if name in ("call", "call_once", "call_mut") and d.startswith("core::ops::function::Fn"):
                dty = mir["locals"][t["dest"]["l"]]["ty"] if not t["dest"]["p"] else ""
                if dty.replace(" ", "") in ("(i32,bool)", "(i64,bool)"):
                    if not _flag_reaches_switch(mir, t["dest"]["l"], F):
                        counts["flag"] = counts.get("flag", 0) + 1
                        yield ("flag-ignored:closure#%d" % counts["flag"], loc(t), "overflow flag returned by the integer operation closure is never branched on")
            # integer fn items handed to helpers must be overflow-reporting ones
            for ga in t.get("gargs", []):
                fnp = ga.get("fn")
                if fnp and fnp.startswith("core::num::<impl ") and fnp.split("<impl ")[1].split(">")[0] in INT_TYS:
                    nm = last(fnp)
                    if not nm.startswith(("overflowing_", "checked_")):
                        counts["fnitem"] = counts.get("fnitem", 0) + 1
                        yield ("fn-item:%s#%d" % (nm, counts["fnitem"]), loc(t), "integer operation `%s` passed as the int op does not report overflow" % nm)
        if t["k"] == "Assert" and t["assert"] in ("Overflow", "OverflowNeg", "DivisionByZero", "RemainderByZero") and not t.get("exp"):
            # already reported through its BinaryOp; nothing more
            pass


def rule_N1(ctx):
    F = ctx.F
    r = RuleResult("N1", "checked-int: no raw integer arithmetic / unchecked std integer call / ignored overflow flag in impl GarnishNumber for SimpleNumber")
    roots, scope = number_scope(F)
    r.floor("GarnishNumber methods of SimpleNumber", len(roots), 17)
    r.analysed["functions"] = sorted(scope)
    for p, f in sorted(scope.items()):
        n = 0
        for inst, where, msg in n1_sites(F, f):
            n += 1
            r.finding(p, inst, where, msg)
        # instances examined: integer operations and calls in this function
        ops = 0
        for b in f["mir"]["blocks"]:
            for s in b["stmts"]:
                if s["k"] == "Assign" and s["rv"]["k"] in ("BinaryOp", "UnaryOp"):
                    ops += 1
            if b["term"]["k"] == "Call":
                ops += 1
        r.examine(p, True, {"fn": p, "operations_and_calls": ops, "violations": n})
        r.examined += max(ops - 1, 0)
    # controls
    _r2, fscope = number_scope(F, fixture_prefix="gfixture::n1::")
    for p, f in fscope.items():
        if f["kind"] == "Closure":
            continue
        hit = any(True for _ in n1_sites(F, f))
        if f["name"].startswith("ctl_"):
            r.control(f["name"], hit)
        elif f["name"].startswith("ok_"):
            r.neg_control(f["name"], not hit)
    return r


def n2_sites(f):
    mir = f["mir"]
    reach = mirq.reachable_blocks(mir)
    n = 0
    for bi, b in enumerate(mir["blocks"]):
        if bi not in reach or b["cleanup"]:
            continue
        for s in b["stmts"]:
            if s["k"] == "Assign" and s["rv"]["k"] == "Cast" and s["rv"]["cast"] == "FloatToInt":
                n += 1
                yield ("cast:%s->%s#%d" % (s["rv"]["from"], s["rv"]["to"], n), loc(s),
                       "`as` cast from %s to %s saturates (and maps NaN to 0) instead of yielding None for an unrepresentable result" % (s["rv"]["from"], s["rv"]["to"]))


def rule_N2(ctx):
    F = ctx.F
    r = RuleResult("N2", "float->int: no saturating `as` cast from a float to an integer in the number implementation")
    roots, scope = number_scope(F)
    r.floor("GarnishNumber methods of SimpleNumber", len(roots), 17)
    for p, f in sorted(scope.items()):
        casts = 0
        for b in f["mir"]["blocks"]:
            for s in b["stmts"]:
                if s["k"] == "Assign" and s["rv"]["k"] == "Cast":
                    casts += 1
        r.examine(p, casts > 0, {"fn": p, "casts": casts} if casts else None)
        for inst, where, msg in n2_sites(f):
            r.finding(p, inst, where, msg)
    _r2, fscope = number_scope(F, fixture_prefix="gfixture::n2::")
    for p, f in fscope.items():
        if f["kind"] == "Closure":
            continue
        hit = any(True for _ in n2_sites(f))
        if f["name"].startswith("ctl_"):
            r.control(f["name"], hit)
        elif f["name"].startswith("ok_"):
            r.neg_control(f["name"], not hit)
    return r


def _is_float_arith(node):
    k = node["k"]
    if k == "BinaryOp":
        return node["op"] in ("Add", "Sub", "Mul", "Div", "Rem") and node.get("lty") in ("f64", "f32")
    if k == "Call":
        d = node.get("def") or ""
        nm = last(d)
        if d.startswith("core::ops::arith::") and nm in ("add", "sub", "mul", "div", "rem"):
            return True
        if "<impl f64>" in d or "<impl f32>" in d:
            return nm not in FLOAT_SAFE_METHODS
        if d.startswith("core::ops::function::Fn") and nm in ("call", "call_once", "call_mut"):
            return True
        return False
    return False


def n3_sites(f, allowed, helper=False):
    """helper=True: f is a plain helper of the number implementation (not a GarnishNumber method, not a closure); the float
    parameters of such a function receive whatever its callers computed, so they count as arithmetic results."""
    mir = f["mir"]
    asg = mirq.assignments(mir)
    dom = None
    reach = mirq.reachable_blocks(mir)
    n = 0
    examined = 0
    for bi, b in enumerate(mir["blocks"]):
        if bi not in reach or b["cleanup"]:
            continue
        for s in b["stmts"]:
            if s["k"] != "Assign":
                continue
            rv = s["rv"]
            if not (rv["k"] == "Aggregate" and rv.get("agg") == "Adt" and rv.get("variant") == "Float" and rv["ops"]):
                continue
            x = mirq.op_local(rv["ops"][0])
            if x is None:
                continue
            orgs = mirq.origins(mir, x, asg)
            arith = [o for o in orgs if _is_float_arith(o[2]) or (helper and o[2].get("k") == "Param" and mir["locals"][o[2]["index"]]["ty"] in ("f64", "f32"))]
            examined += 1
            if not arith:
                continue
            n += 1
            src = arith[0]
            val_local = src[3]
            # find tests on the same value
            tests = {}
            for ci, cb in enumerate(mir["blocks"]):
                t = cb["term"]
                if t["k"] == "Call" and last(t.get("def") or "") in ("is_finite", "is_infinite", "is_nan") and t["args"]:
                    al = mirq.op_local(t["args"][0])
                    if al is None:
                        continue
                    ao = mirq.origins(mir, al, asg)
                    if any(o[3] == val_local for o in ao):
                        tests.setdefault(last(t["def"]), []).append(ci)
            if dom is None:
                dom = mirq.dominators(mir)
            doms = dom.get(bi, set())
            have = set(k for k, blocks in tests.items() if any(c in doms for c in blocks))
            ok = "is_finite" in have or ("is_infinite" in have and "is_nan" in have)
            inst = "float-result#%d" % n
            if ok:
                yield (inst, loc(s), None, examined)
            elif f["path"] in allowed:
                yield (inst, loc(s), None, examined)
            elif "is_infinite" in have:
                yield (inst, loc(s), "float arithmetic result is filtered with is_infinite only: NaN is returned as a number (must test is_finite, or is_infinite and is_nan)", examined)
            else:
                yield (inst, loc(s), "float arithmetic result is returned without a finiteness test", examined)


def rule_N3(ctx):
    F = ctx.F
    r = RuleResult("N3", "finiteness: every Float built from an arithmetic result is dominated by a test excluding NaN and +-inf")
    al = allow("numeric.json").get("N3_finite_by_construction", {})
    roots, scope = number_scope(F)
    r.floor("GarnishNumber methods of SimpleNumber", len(roots), 17)
    total = 0
    root_paths = set(x["path"] for x in roots)
    for p, f in sorted(scope.items()):
        for inst, where, msg, _ex in n3_sites(f, al, helper=(p not in root_paths and f["kind"] != "Closure")):
            total += 1
            r.examine(p + "|" + inst, True, {"fn": p, "site": where, "ok": msg is None})
            if msg:
                r.finding(p, inst, where, msg)
    for p in al:
        r.info.append("allow-listed (finite by construction): %s — %s" % (p, al[p]))
    r.floor("Float(arithmetic result) construction sites", total, 2)
    _r2, fscope = number_scope(F, fixture_prefix="gfixture::n3::")
    for p, f in fscope.items():
        if f["kind"] == "Closure":
            continue
        hit = any(msg for _i, _w, msg, _e in n3_sites(f, {}))
        if f["name"].startswith("ctl_"):
            r.control(f["name"], hit)
        elif f["name"].startswith("ok_"):
            r.neg_control(f["name"], not hit)
    return r


# --------------------------------------------------------------------------------------- N6
def n6_sites(f):
    """float inequalities that are tolerance tests: |x| compared with something, or a comparison with an EPSILON-like constant"""
    mir = f["mir"]
    asg = mirq.assignments(mir)
    out = []
    n = 0
    for b in mir["blocks"]:
        if b["cleanup"]:
            continue
        for s in b["stmts"]:
            if s["k"] != "Assign" or s["rv"]["k"] != "BinaryOp" or s["rv"].get("lty") not in ("f64", "f32") or s["rv"]["op"] not in ("Lt", "Le", "Gt", "Ge"):
                continue
            n += 1
            why = None
            for side in ("l", "r"):
                o = s["rv"][side]
                c = o.get("const")
                if c:
                    txt = c.get("txt") or ""
                    if "EPSILON" in txt or "MIN_POSITIVE" in txt:
                        why = "compares with %s" % txt
                    else:
                        try:
                            val = float(txt.replace("f64", "").replace("f32", "").replace("_", ""))
                            if 0.0 < abs(val) < 1e-3:
                                why = "compares with the small constant %s" % txt
                        except ValueError:
                            pass
                l = mirq.op_local(o)
                if l is not None:
                    for og in mirq.origins(mir, l, asg):
                        if og[1] == "term" and last(og[2].get("def") or "") == "abs" and "f64" in (og[2].get("def") or "") + (og[2].get("full") or ""):
                            why = "compares an absolute value (|x| %s ..)" % s["rv"]["op"]
                        if og[1] != "term" and og[2].get("k") == "Use" and "const" in og[2]["op"] and "EPSILON" in (og[2]["op"]["const"].get("txt") or ""):
                            why = "compares with %s" % og[2]["op"]["const"]["txt"]
            if why:
                out.append((loc(s), why))
    return out, n


def rule_N6(ctx):
    F = ctx.F
    r = RuleResult("N6", "exact guards: the number implementation decides 'no result' only on exact conditions - no tolerance test (|x| < eps, comparison with EPSILON) turns a representable result into None")
    roots, scope = number_scope(F)
    r.floor("GarnishNumber methods of SimpleNumber", len(roots), 17)
    # equality and ordering of numbers are part of the number implementation too
    extra = [g for g in F.fns.values() if g["crate"] == "garnish_lang_simple_data" and g["kind"] != "Closure" and (g.get("impl_self") or "").endswith("::SimpleNumber")
             and (g.get("impl_trait") or "").startswith(("core::cmp::PartialEq", "core::cmp::PartialOrd"))]
    work_ = list(extra)
    files_ = set(g["span"].split(":")[0] for g in extra)
    while work_:
        g = work_.pop()
        if g["path"] in scope:
            continue
        scope[g["path"]] = g
        for b_ in g["mir"]["blocks"]:
            t_ = b_["term"]
            if t_["k"] == "Call":
                h = F.fns.get(t_.get("resolved") or t_.get("def") or "")
                if h is not None and h["span"].split(":")[0] in files_:
                    work_.append(h)
    total = 0
    for p, f in sorted(scope.items()):
        sites, n = n6_sites(f)
        total += n
        r.examine(p, n > 0, {"fn": p, "float_inequalities": n, "tolerance_tests": len(sites)} if n else None)
        for k, (where, why) in enumerate(sites):
            r.finding(p, "tolerance-test#%d" % (k + 1), where, "a float is tested with a tolerance (%s at %s): operands that are small but not zero are treated as zero, so a division with a finite, representable result yields unit" % (why, where))
    r.analysed["float_inequalities_examined"] = total
    _r2, fscope = number_scope(F, fixture_prefix="gfixture::round3::n6::")
    for p, f in fscope.items():
        if f["kind"] == "Closure":
            continue
        sites, _n = n6_sites(f)
        if f["name"].startswith("ctl_"):
            r.control(f["name"], bool(sites))
        elif f["name"].startswith("ok_"):
            r.neg_control(f["name"], not sites)
    return r


# --------------------------------------------------------------------------------------- N7
# own-operation partiality: an arithmetic method answers None exactly when ITS result is not representable.  A method that
# routes through a fallible integer primitive of another operation (a - b computed as a + (-b) with a checked negation)
# inherits that step's failure domain: the intermediate overflows although the final result is representable.
# method (public GarnishNumber name) -> families of fallible integer primitives whose failure coincides with the method's own
N7_FAMILIES = {
    "plus": {"add"}, "subtract": {"sub"}, "multiply": {"mul"}, "divide": {"div"}, "integer_divide": {"div"},
    "remainder": {"rem"}, "power": {"pow", "mul"}, "absolute_value": {"abs", "neg"}, "opposite": {"neg", "sub"},
    "increment": {"add"}, "decrement": {"sub"}, "bitwise_shift_left": {"shl"}, "bitwise_shift_right": {"shr"},
    "bitwise_not": set(), "bitwise_and": set(), "bitwise_or": set(), "bitwise_xor": set(),
}
_N7_PREFIX = ("overflowing_", "checked_", "strict_")


def _n7_family(defpath):
    if not defpath or not defpath.startswith("core::num::<impl "):
        return None
    if defpath.split("<impl ")[1].split(">")[0] not in INT_TYS:
        return None
    nm = last(defpath)
    for p in _N7_PREFIX:
        if nm.startswith(p):
            fam = nm[len(p):]
            return {"div_euclid": "div", "rem_euclid": "rem", "next_power_of_two": "pow"}.get(fam, fam)
    return None


def n7_reach(F, root, same_file_only=True):
    """fallible integer primitives (family, where, via) reachable from one method through workspace functions of the same file,
    closures it builds and fn items it hands to helpers"""
    file0 = root["span"].split(":")[0]
    seen, st, out = set(), [(root, root["name"])], []
    while st:
        f, via = st.pop()
        if f["path"] in seen:
            continue
        seen.add(f["path"])
        for b in f["mir"]["blocks"]:
            if b["cleanup"]:
                continue
            t = b["term"]
            if t["k"] == "Call":
                fam = _n7_family(t.get("def"))
                if fam:
                    out.append((fam, loc(t), via))
                for ga in t.get("gargs", []):
                    fam = _n7_family(ga.get("fn"))
                    if fam:
                        out.append((fam, loc(t), via))
                    g = F.fns.get(ga.get("fn")) if ga.get("fn") else None
                    if g is not None and g["span"].split(":")[0] == file0:
                        st.append((g, via + " -> " + g["name"]))
                for d in (t.get("resolved"), t.get("def")):
                    g = F.fns.get(d) if d else None
                    if g is not None and g["span"].split(":")[0] == file0:
                        st.append((g, via + " -> " + g["name"]))
            for s in b["stmts"]:
                if s["k"] == "Assign" and s["rv"]["k"] == "Aggregate" and s["rv"].get("agg") == "Closure":
                    d = s["rv"]["closure"]
                    if d in F.fns:
                        st.append((F.fns[d], via))
    return out, seen


def rule_N7(ctx):
    F = ctx.F
    r = RuleResult("N7", "own-operation partiality: no arithmetic method of the number implementation routes through a fallible integer primitive of a different operation (whose overflow would turn a representable result into None)")
    roots, _scope = number_scope(F)
    r.floor("GarnishNumber methods of SimpleNumber", len(roots), 17)
    tabled = 0
    for f in sorted(roots, key=lambda x: x["path"]):
        allowed = N7_FAMILIES.get(f["name"])
        if allowed is None:
            r.info.append("method %s has no operation family (not an arithmetic method)" % f["name"])
            continue
        tabled += 1
        prims, seen = n7_reach(F, f)
        bad = sorted(set(fam for fam, _w, _v in prims if fam not in allowed))
        r.examine(f["path"], True, {"method": f["name"], "own": sorted(allowed), "fallible_primitives": sorted(set(p[0] for p in prims)), "functions": len(seen)})
        for fam in bad:
            w, via = next((w, v) for fm, w, v in prims if fm == fam)
            r.finding(f["path"], "foreign-partial-step:%s:%s" % (f["name"], fam), w,
                      "`%s` reaches the fallible integer `%s` primitive (at %s via %s): when that intermediate step overflows the method answers None although its own result may be representable (e.g. x - MIN computed as x + (-MIN))" % (f["name"], fam, w, via))
    r.floor("arithmetic methods with an operation family", tabled, 13)
    for f in F.fns_in("gfixture::round3::n7::"):
        if f["kind"] == "Closure" or "__" not in f["name"]:
            continue
        m = f["name"].split("_", 1)[1].split("__")[0]
        prims, _s = n7_reach(F, f)
        hit = any(fam not in N7_FAMILIES.get(m, set()) for fam, _w, _v in prims)
        if f["name"].startswith("ctl_"):
            r.control(f["name"], hit)
        elif f["name"].startswith("ok_"):
            r.neg_control(f["name"], not hit)
    return r


# --------------------------------------------------------------------------------------- N8
# no hand-made range prediction: whether an integer result is representable is decided by the checked primitive's own
# overflow flag.  A comparison of an integer operand with a constant other than the documented domain bounds of the
# operation (zero: divisor, negative exponent; 0/31/32: shift counts; -1: the MIN / -1 case) predicts overflow by hand -
# and the 32-bit range is asymmetric, so such predictions are off by one at the edges ((-2) ** 31 is representable).
N8_DOMAIN = {"bitwise_shift_left": {0, 31, 32}, "bitwise_shift_right": {0, 31, 32}, "divide": {0, -1}, "integer_divide": {0, -1}, "remainder": {0, -1}}
_MAGNITUDE = {"unsigned_abs", "abs", "leading_zeros", "trailing_zeros", "leading_ones", "count_ones", "ilog2", "ilog10", "ilog", "checked_ilog2", "signum", "wrapping_abs", "abs_diff"}


def n8_sites(F, root):
    _prims, seen = n7_reach(F, root)
    allowed = N8_DOMAIN.get(root["name"], {0})
    out, n = [], 0
    for p in sorted(seen):
        f = F.fns[p]
        mir = f["mir"]
        asg = mirq.assignments(mir)
        for b in mir["blocks"]:
            if b["cleanup"]:
                continue
            for s in b["stmts"]:
                if s["k"] != "Assign" or s["rv"]["k"] != "BinaryOp" or s["rv"]["op"] not in ("Lt", "Le", "Gt", "Ge", "Eq", "Ne") or s["rv"].get("lty") not in INT_TYS or s.get("exp"):
                    continue
                n += 1
                why = None
                for o in (s["rv"]["l"], s["rv"]["r"]):
                    if "const" in o:
                        c = o["const"].get("int")
                        if c is not None and c not in allowed and not (c > 2 ** 31 and (c - 2 ** 32) in allowed) and not (c > 2 ** 63 and (c - 2 ** 64) in allowed):
                            why = "compares with the constant %s" % (o["const"].get("txt") or c)
                    else:
                        l = mirq.op_local(o)
                        for og in (mirq.origins(mir, l, asg) if l is not None else []):
                            if og[1] == "term" and last(og[2].get("def") or "") in _MAGNITUDE:
                                why = "compares a magnitude (%s)" % last(og[2]["def"])
                if why:
                    out.append((loc(s), why, f["name"]))
    return out, n


def rule_N8(ctx):
    F = ctx.F
    r = RuleResult("N8", "no hand-made range prediction: the number implementation decides 'not representable' by the checked primitive's overflow flag - integer operands are compared only with the operation's documented domain bounds, never with thresholds or magnitudes that predict an overflow")
    roots, _scope = number_scope(F)
    r.floor("GarnishNumber methods of SimpleNumber", len(roots), 17)
    total = 0
    for f in sorted(roots, key=lambda x: x["path"]):
        sites, n = n8_sites(F, f)
        total += n
        r.examine(f["path"], True, {"method": f["name"], "integer_comparisons": n, "predictions": len(sites)} if n else None)
        for k, (where, why, fn) in enumerate(sites):
            r.finding(f["path"], "range-prediction:%s#%d" % (f["name"], k + 1), where, "`%s` %s at %s (in %s) to decide whether a result exists: overflow is predicted by hand instead of read from the checked operation's flag - the i32 range is asymmetric, so a threshold is wrong at an edge (e.g. (-2) ** 31 = i32::MIN is representable)" % (f["name"], why, where, fn))
    r.analysed["integer_comparisons_examined"] = total
    for f in F.fns_in("gfixture::round3::n8::"):
        if f["kind"] == "Closure" or not f.get("name", "").startswith(("ctl_", "ok_")):
            continue
        sites, _n = n8_sites(F, dict(f, name=f["name"].split("_", 1)[1].split("__")[0]))
        if f["name"].startswith("ctl_"):
            r.control(f["name"], bool(sites))
        else:
            r.neg_control(f["name"], not sites)
    return r
