//! controls for the rules of gcheck/rules_round3.py
pub mod n5 {
    pub struct Num(pub i32);
    impl From<i64> for Num {
        fn from(x: i64) -> Self {
            Num(x as i32)
        }
    }
    impl From<i32> for Num {
        fn from(x: i32) -> Self {
            Num(x)
        }
    }
    pub fn ctl_parse_wide(s: &str) -> Option<Num> {
        i64::from_str_radix(s, 10).ok().map(|v| v.into())
    }
    pub fn ok_parse_exact(s: &str) -> Option<Num> {
        i32::from_str_radix(s, 10).ok().map(|v| v.into())
    }
}
pub mod d8 {
    pub struct L {
        pub column: usize,
        pub start_column: usize,
        pub text: String,
    }
    impl L {
        pub fn ctl_column_from_bytes(&mut self) {
            self.start_column = self.column + self.text.len();
        }
        pub fn ok_column_from_chars(&mut self) {
            self.start_column = self.column + self.text.chars().count();
        }
    }
}
pub mod t16 {
    use std::cmp::Ordering;
    pub fn size_to_number(n: usize) -> i64 {
        n as i64
    }
    pub fn ctl_length_first(a: &[i64], b: &[i64]) -> Option<Ordering> {
        let (l1, l2) = (size_to_number(a.len()), size_to_number(b.len()));
        if l1 != l2 {
            return l1.partial_cmp(&l2);
        }
        let mut i = 0;
        while i < a.len() && i < b.len() {
            match a[i].partial_cmp(&b[i]) {
                Some(Ordering::Equal) => (),
                other => return other,
            }
            i += 1;
        }
        l1.partial_cmp(&l2)
    }
    pub fn ok_elements_first(a: &[i64], b: &[i64]) -> Option<Ordering> {
        let (l1, l2) = (size_to_number(a.len()), size_to_number(b.len()));
        let mut i = 0;
        while i < a.len() && i < b.len() {
            match a[i].partial_cmp(&b[i]) {
                Some(Ordering::Equal) => (),
                other => return other,
            }
            i += 1;
        }
        l1.partial_cmp(&l2)
    }
}
pub mod w4 {
    use std::collections::HashSet;
    pub enum V {
        Leaf(u32),
        Cat(usize, usize),
    }
    pub fn ctl_flatten_dedup(vals: &[V], root: usize) -> Vec<u32> {
        let mut out = vec![];
        let mut seen = HashSet::new();
        let mut stack = vec![root];
        while let Some(i) = stack.pop() {
            match vals.get(i) {
                Some(V::Cat(l, r)) => {
                    if seen.insert(i) {
                        stack.push(*r);
                        stack.push(*l);
                    }
                }
                Some(V::Leaf(x)) => out.push(*x),
                None => {}
            }
        }
        out
    }
    pub fn ok_flatten_all(vals: &[V], root: usize) -> Vec<u32> {
        let mut out = vec![];
        let mut stack = vec![root];
        while let Some(i) = stack.pop() {
            match vals.get(i) {
                Some(V::Cat(l, r)) => {
                    stack.push(*r);
                    stack.push(*l);
                }
                Some(V::Leaf(x)) => out.push(*x),
                None => {}
            }
        }
        out
    }
}
pub mod d9 {
    use garnish_lang_traits::Extents;
    pub fn ctl_last_index(len: i64) -> Extents<i64> {
        Extents::new(0, len - 1)
    }
    pub fn ok_length(len: i64) -> Extents<i64> {
        Extents::new(0, len)
    }
}
pub mod w5 {
    #[derive(Clone)]
    pub struct Store {
        pub items: Vec<u32>,
        pub on_resolve: fn(u32) -> bool,
        pub on_op: fn(u32) -> bool,
    }
    fn decline(_: u32) -> bool {
        false
    }
    impl Store {
        pub fn new() -> Self {
            Store { items: vec![], on_resolve: decline, on_op: decline }
        }
    }
    pub fn ctl_clone_drops_resolver(from: &Store) -> Store {
        Store { items: from.items.clone(), on_op: from.on_op, ..Store::new() }
    }
    pub fn ok_clone_keeps_both(from: &Store) -> Store {
        let mut s = Store::new();
        s.items = from.items.clone();
        s.on_resolve = from.on_resolve;
        s.on_op = from.on_op;
        s
    }
}
pub mod a11 {
    use garnish_lang_traits::GarnishData;
    pub fn ok_walk_drains<D: GarnishData>(this: &mut D, a: D::Size, b: D::Size) -> Result<Option<D::Size>, D::Error> {
        let start = this.get_register_len();
        this.push_register(a)?;
        this.push_register(b)?;
        let mut found = None;
        while this.get_register_len() > start {
            match this.pop_register()? {
                Some(x) => {
                    found = Some(x);
                    break;
                }
                None => {}
            }
        }
        while this.get_register_len() > start {
            this.pop_register()?;
        }
        Ok(found)
    }
    pub fn ctl_walk_pops_everything<D: GarnishData>(this: &mut D, a: D::Size, b: D::Size) -> Result<Option<D::Size>, D::Error> {
        let start = this.get_register_len();
        this.push_register(a)?;
        this.push_register(b)?;
        let mut found = None;
        while this.get_register_len() > start {
            match this.pop_register()? {
                Some(x) => {
                    found = Some(x);
                    break;
                }
                None => {}
            }
        }
        if found.is_some() {
            while this.pop_register()?.is_some() {}
        }
        Ok(found)
    }
}
pub mod n6 {
    pub fn ctl_epsilon_zero(v: f64) -> bool {
        v.abs() < f64::EPSILON
    }
    pub fn ok_exact_zero(v: f64) -> bool {
        v == 0.0 || v < 0.0
    }
}
pub mod g4c {
    use garnish_lang_traits::{GarnishData, TypeConstants};
    pub fn ctl_no_lower_bound<D: GarnishData>(this: &D, list: D::Size, index: D::Number) -> Result<Option<D::Size>, D::Error> {
        this.get_list_item(list, index)
    }
    pub fn ok_lower_bound<D: GarnishData>(this: &D, list: D::Size, index: D::Number) -> Result<Option<D::Size>, D::Error> {
        if index < D::Number::zero() {
            return Ok(None);
        }
        this.get_list_item(list, index)
    }
}
pub mod d1c {
    pub enum Cell {
        CharList(usize),
        Char(char),
    }
    pub fn ctl_header_counts_trimmed(out: &mut Vec<Cell>, from: &str) {
        let name = from.trim_matches(':');
        out.push(Cell::CharList(name.chars().count()));
        for c in from.chars() {
            out.push(Cell::Char(c));
        }
    }
    pub fn ok_header_counts_written(out: &mut Vec<Cell>, from: &str) {
        out.push(Cell::CharList(from.chars().count()));
        for c in from.chars() {
            out.push(Cell::Char(c));
        }
    }
}
pub mod w6 {
    pub struct S {
        pub cells: Vec<u32>,
        pub table: Vec<(u32, usize)>,
    }
    impl S {
        fn push(&mut self, v: u32) -> Result<usize, String> {
            self.cells.push(v);
            Ok(self.cells.len())
        }
        pub fn ctl_reuses_computed(&mut self, v: u32) -> Result<usize, String> {
            if let Some((_, text_index)) = self.table.iter().find(|e| e.0 == v).cloned() {
                return Ok(text_index - 1);
            }
            let i = self.push(v)?;
            Ok(i)
        }
        pub fn ok_returns_written(&mut self, v: u32) -> Result<usize, String> {
            let i = self.push(v)?;
            Ok(i)
        }
    }
}
