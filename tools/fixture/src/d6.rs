//! D6 controls: a (frame, register) state encoded into a cell and decoded again.
pub enum Cell {
    Both(usize, usize),
    OnlyFrame(usize),
    OnlyRegister(usize),
    Root,
}

pub struct Store {
    frame: Option<usize>,
    register: Option<usize>,
    cells: Vec<Cell>,
}

impl Store {
    fn current_frame(&self) -> Option<usize> {
        self.frame
    }
    fn current_register(&self) -> Option<usize> {
        self.register
    }
    fn set_current_frame(&mut self, v: Option<usize>) {
        self.frame = v
    }
    fn set_current_register(&mut self, v: Option<usize>) {
        self.register = v
    }

    pub fn push_ok_codec(&mut self) {
        let cell = match (self.current_frame(), self.current_register()) {
            (Some(frame), Some(register)) => Cell::Both(frame, register),
            (Some(frame), None) => Cell::OnlyFrame(frame),
            (None, Some(register)) => Cell::OnlyRegister(register),
            (None, None) => Cell::Root,
        };
        self.cells.push(cell);
    }
    pub fn pop_ok_codec(&mut self) {
        let (f, r) = match &self.cells[0] {
            Cell::Both(frame, register) => (Some(*frame), Some(*register)),
            Cell::OnlyFrame(frame) => (Some(*frame), None),
            Cell::OnlyRegister(register) => (None, Some(*register)),
            Cell::Root => (None, None),
        };
        self.set_current_frame(f);
        self.set_current_register(r);
    }

    pub fn push_ctl_writer_drops(&mut self) {
        let cell = match (self.current_frame(), self.current_register()) {
            (Some(frame), Some(register)) => Cell::Both(frame, register),
            (None, Some(register)) => Cell::OnlyRegister(register),
            (_, None) => Cell::Root,
        };
        self.cells.push(cell);
    }
    pub fn pop_ctl_writer_drops(&mut self) {
        let (f, r) = match &self.cells[0] {
            Cell::Both(frame, register) => (Some(*frame), Some(*register)),
            Cell::OnlyFrame(frame) => (Some(*frame), None),
            Cell::OnlyRegister(register) => (None, Some(*register)),
            Cell::Root => (None, None),
        };
        self.set_current_frame(f);
        self.set_current_register(r);
    }

    pub fn push_ctl_reader_swaps(&mut self) {
        let cell = match (self.current_frame(), self.current_register()) {
            (Some(frame), Some(register)) => Cell::Both(frame, register),
            (Some(frame), None) => Cell::OnlyFrame(frame),
            (None, Some(register)) => Cell::OnlyRegister(register),
            (None, None) => Cell::Root,
        };
        self.cells.push(cell);
    }
    pub fn pop_ctl_reader_swaps(&mut self) {
        let (f, r) = match &self.cells[0] {
            Cell::Both(frame, register) => (Some(*frame), Some(*register)),
            Cell::OnlyFrame(frame) => (None, Some(*frame)),
            Cell::OnlyRegister(register) => (None, Some(*register)),
            Cell::Root => (None, None),
        };
        self.set_current_frame(f);
        self.set_current_register(r);
    }
}
