//! T14 controls: a comparator that answers Less in both directions / an antisymmetric one.
use std::cmp::Ordering;

pub enum Cell {
    Item(u64),
    Empty,
}

pub fn ctl_asymmetric(v: &mut Vec<Cell>) {
    v.sort_by(|a, b| match (a, b) {
        (Cell::Item(x), Cell::Item(y)) => x.cmp(y),
        (Cell::Item(_), _) => Ordering::Less,
        (_, Cell::Item(_)) => Ordering::Less,
        _ => Ordering::Equal,
    });
}

pub fn ok_antisymmetric(v: &mut Vec<Cell>) {
    v.sort_by(|a, b| match (a, b) {
        (Cell::Item(x), Cell::Item(y)) => x.cmp(y),
        (Cell::Item(_), _) => Ordering::Less,
        (_, Cell::Item(_)) => Ordering::Greater,
        _ => Ordering::Equal,
    });
}

pub enum Keyed {
    Assoc(u64, usize),
    Empty,
}

pub fn ctl_descending(v: &mut Vec<Keyed>) {
    v.sort_by(|a, b| match (a, b) {
        (Keyed::Assoc(k1, _), Keyed::Assoc(k2, _)) => k2.cmp(k1),
        (Keyed::Assoc(_, _), _) => Ordering::Less,
        (_, Keyed::Assoc(_, _)) => Ordering::Greater,
        _ => Ordering::Equal,
    });
}

pub fn ctl_sorted_by_value(v: &mut Vec<Keyed>) {
    v.sort_by(|a, b| match (a, b) {
        (Keyed::Assoc(_, v1), Keyed::Assoc(_, v2)) => v1.cmp(v2),
        (Keyed::Assoc(_, _), _) => Ordering::Less,
        (_, Keyed::Assoc(_, _)) => Ordering::Greater,
        _ => Ordering::Equal,
    });
}

fn descending_keys(a: &Keyed, b: &Keyed) -> Ordering {
    match (a, b) {
        (Keyed::Assoc(k1, _), Keyed::Assoc(k2, _)) => k2.cmp(k1),
        (Keyed::Assoc(_, _), _) => Ordering::Less,
        (_, Keyed::Assoc(_, _)) => Ordering::Greater,
        _ => Ordering::Equal,
    }
}

fn ascending_keys(a: &Keyed, b: &Keyed) -> Ordering {
    match (a, b) {
        (Keyed::Assoc(k1, _), Keyed::Assoc(k2, _)) => k1.cmp(k2),
        (Keyed::Assoc(_, _), _) => Ordering::Less,
        (_, Keyed::Assoc(_, _)) => Ordering::Greater,
        _ => Ordering::Equal,
    }
}

/// the comparator is a named function, not a closure
pub fn ctl_named_descending(v: &mut Vec<Keyed>) {
    v.sort_by(descending_keys);
}

pub fn ok_named_ascending(v: &mut Vec<Keyed>) {
    v.sort_by(ascending_keys);
}
