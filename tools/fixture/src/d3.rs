//! D3 controls: a push sibling that grows its neighbour's block.
pub struct StorageBlock {
    pub start: usize,
    pub cursor: usize,
    pub size: usize,
}

impl StorageBlock {
    pub fn next_size(&self) -> usize {
        self.size + 1
    }
}

pub struct Store {
    data: Vec<u8>,
    a_block: StorageBlock,
    b_block: StorageBlock,
}

impl Store {
    fn reallocate_heap(&mut self, _new_a: usize, _new_b: usize) {}

    fn push_to_block(heap: &mut Vec<u8>, block: &mut StorageBlock, v: u8) -> usize {
        let i = block.cursor;
        heap[block.start + i] = v;
        block.cursor += 1;
        i
    }

    pub fn ok_push_to_a_block(&mut self, v: u8) -> usize {
        if self.a_block.cursor >= self.a_block.size {
            self.reallocate_heap(self.a_block.next_size(), self.b_block.size);
        }
        Self::push_to_block(&mut self.data, &mut self.a_block, v)
    }

    pub fn ctl_push_to_b_block(&mut self, v: u8) -> usize {
        if self.b_block.cursor >= self.b_block.size {
            // defect: grows with the neighbour's next size
            self.reallocate_heap(self.a_block.size, self.a_block.next_size());
        }
        Self::push_to_block(&mut self.data, &mut self.b_block, v)
    }
}
