//! W2 controls: hand-written Hash impls with and without loss.
use std::hash::{Hash, Hasher};

pub enum CtlCast {
    I(i32),
    F(f64),
}
impl Hash for CtlCast {
    fn hash<H: Hasher>(&self, state: &mut H) {
        match self {
            CtlCast::I(v) => v.hash(state),
            CtlCast::F(v) if v.fract() == 0.0 => (*v as i32).hash(state),
            CtlCast::F(v) => v.to_bits().hash(state),
        }
    }
}

pub enum CtlIgnored {
    I(i32),
    F(f64),
}
impl Hash for CtlIgnored {
    fn hash<H: Hasher>(&self, state: &mut H) {
        match self {
            CtlIgnored::I(v) => v.hash(state),
            CtlIgnored::F(_) => 0u8.hash(state),
        }
    }
}

pub enum CtlLet {
    F(f64),
}
impl Hash for CtlLet {
    fn hash<H: Hasher>(&self, state: &mut H) {
        match self {
            CtlLet::F(v) => {
                let t = v.trunc();
                t.to_bits().hash(state)
            }
        }
    }
}

pub enum OkBits {
    I(i32),
    F(f64),
}
impl Hash for OkBits {
    fn hash<H: Hasher>(&self, state: &mut H) {
        match self {
            OkBits::I(v) => {
                0u8.hash(state);
                (*v as i64).hash(state)
            }
            OkBits::F(v) => {
                1u8.hash(state);
                v.to_bits().hash(state)
            }
        }
    }
}

pub enum OkFormat {
    I(i32),
    F(f64),
}
impl Hash for OkFormat {
    fn hash<H: Hasher>(&self, state: &mut H) {
        match self {
            OkFormat::I(v) => v.hash(state),
            OkFormat::F(v) => format!("{}", v).hash(state),
        }
    }
}
