"""AI: a forward, path-partitioned abstract interpreter over MIR CFGs with finite domains.

Values
  ("c", n)                 integer / bool constant
  ("v", Variant, payload)  enum value of a known variant; payload = tuple of values
  ("t", items)             tuple / struct by position
  ("s", name)              opaque symbol with identity
  ("r", key)               reference to a place key
  None                     unknown (top)

A state is (env, ts): env maps place keys ("_5", "_5.0", ...) to values, ts is a hashable rule-specific
typestate.  Rules plug in through hooks:
  on_call(interp, state, block_index, term) -> list of (dest_value, new_ts) alternatives, or None for default
  on_assign(interp, state, block_index, stmt) -> new_ts or None
  on_return(interp, state, block_index)
The exploration keeps a set of distinct states per block; exceeding `cap` raises StateCapExceeded so the
calling rule fails closed.
"""
from . import mirq
from .hirq import last

TOP = None


class StateCapExceeded(Exception):
    pass


def const(n):
    return ("c", n)


def variant(name, *payload):
    return ("v", name, tuple(payload))


def is_variant(v, name=None):
    return isinstance(v, tuple) and v and v[0] == "v" and (name is None or v[1] == name)


def freeze(env):
    return tuple(sorted(env.items(), key=lambda kv: kv[0]))


class Interp:
    def __init__(self, fn, hooks=None, cap=20000, init_env=None, init_ts=None):
        self.fn = fn
        self.mir = fn["mir"]
        self.hooks = hooks or {}
        self.cap = cap
        self.init_env = init_env or {}
        self.init_ts = init_ts
        self.returns = []  # (env, ts, block)
        self.untracked = self._drop_flags()
        self.visited = 0
        self.paths_cut = 0

    def _drop_flags(self):
        """Compiler-introduced drop flags: unnamed bool locals only ever assigned constants.  They carry no
        program meaning, live across the whole body and would multiply the state space."""
        mir = self.mir
        cand = set(i for i, l in enumerate(mir["locals"]) if l["ty"] == "bool" and "name" not in l and i > mir["argc"])
        for b in mir["blocks"]:
            for s in b["stmts"]:
                if s["k"] == "Assign" and not s["place"]["p"] and s["place"]["l"] in cand:
                    rv = s["rv"]
                    if not (rv["k"] == "Use" and "const" in rv["op"]):
                        cand.discard(s["place"]["l"])
            t = b["term"]
            if t["k"] == "Call" and not t["dest"]["p"]:
                cand.discard(t["dest"]["l"])
        # a drop flag is only ever tested; a bool that is used as a value (stored, passed, returned) is program data
        used = set()
        for b in mir["blocks"]:
            for s in b["stmts"]:
                if s["k"] == "Assign":
                    mirq._rv_uses(s["rv"], used, set())
            t = b["term"]
            if t["k"] == "Call":
                for a in t["args"]:
                    mirq._operand_uses(a, used)
        cand -= used
        cand.discard(0)
        # a drop flag guards a drop: some switch on it leads straight to a Drop terminator.  A bool temporary that is
        # assigned constants in two arms and tested once (`matches!(..)`, `a && b` lowering) is program data.
        guards_drop = set()
        for b in mir["blocks"]:
            t = b["term"]
            if t["k"] == "SwitchInt":
                l = mirq.op_local(t["discr"])
                if l in cand:
                    for tb in [bb for _v, bb in t["targets"]] + [t["otherwise"]]:
                        if mir["blocks"][tb]["term"]["k"] == "Drop":
                            guards_drop.add(l)
        cand &= guards_drop
        return set("_%d" % i for i in cand)

    # ----------------------------------------------------------------- places
    def key(self, place, env):
        """Resolve a place to (key, remaining projections) following references."""
        k = "_%d" % place["l"]
        projs = list(place["p"])
        out = []
        i = 0
        while i < len(projs):
            e = projs[i]
            if e == "*":
                v = env.get(k)
                if isinstance(v, tuple) and v and v[0] == "r":
                    k = v[1]
                elif isinstance(v, tuple) and v and v[0] in ("v", "c", "t", "s", "strof"):
                    pass  # a promoted `&CONST` held by value / a symbolic reference: dereferencing it is the identity
                else:
                    k = k + ".*"
            elif isinstance(e, dict) and "f" in e:
                k = "%s.%d" % (k, e["f"])
            elif isinstance(e, dict) and "as" in e:
                pass  # downcast: same storage
            else:
                k = k + ".[]"
            i += 1
        return k

    def read_key(self, k, env):
        if k in env:
            return env[k]
        # reconstruct from a parent aggregate
        if "." in k:
            parent, fld = k.rsplit(".", 1)
            pv = self.read_key(parent, env)
            if isinstance(pv, tuple) and pv:
                try:
                    idx = int(fld)
                except ValueError:
                    return TOP
                if pv[0] == "t" and idx < len(pv[1]):
                    return pv[1][idx]
                if pv[0] == "v" and idx < len(pv[2]):
                    return pv[2][idx]
        return TOP

    def read(self, place, env):
        return self.read_key(self.key(place, env), env)

    def write_key(self, k, v, env):
        # kill children and parents' cached knowledge
        pre = k + "."
        for kk in [x for x in env if x.startswith(pre)]:
            del env[kk]
        parts = k.split(".")
        for i in range(1, len(parts)):
            parent = ".".join(parts[:i])
            if parent in env and not (isinstance(env[parent], tuple) and env[parent][0] == "r"):
                # keep parent only if it is a reference; otherwise it no longer describes the whole
                pv = env[parent]
                if isinstance(pv, tuple) and pv[0] in ("t", "v"):
                    # materialise siblings then drop the aggregate
                    items = pv[1] if pv[0] == "t" else pv[2]
                    for j, it in enumerate(items):
                        ck = "%s.%d" % (parent, j)
                        if ck not in env and it is not TOP and not (k == ck or k.startswith(ck + ".")):
                            env[ck] = it
                    if pv[0] == "v":
                        env[parent + ".#"] = ("vn", pv[1])
                del env[parent]
        tr = self.hooks.get("track")
        if v is TOP or k in self.untracked or (tr is not None and k[0] != "@" and not tr(k)):
            env.pop(k, None)
        else:
            env[k] = v

    def write(self, place, v, env):
        self.write_key(self.key(place, env), v, env)

    def _promoted(self, idx):
        """Value of promoted constant #idx of this function (e.g. `&ErrorType::X`), dereferenced."""
        cache = self.__dict__.setdefault("_prom_cache", {})
        if idx in cache:
            return cache[idx]
        cache[idx] = TOP
        proms = self.fn.get("promoted") or []
        if idx < len(proms):
            sub = Interp({"path": self.fn["path"] + "::promoted[%d]" % idx, "mir": proms[idx], "promoted": []}, hooks={"track": lambda k: True}, cap=2000)
            try:
                sub.run()
            except StateCapExceeded:
                return TOP
            vals = set()
            for env, _ts, _bi in sub.returns:
                v = sub.read_key("_0", env)
                if isinstance(v, tuple) and v and v[0] == "r":
                    v = sub.read_key(v[1], env)
                vals.add(v)
            if len(vals) == 1:
                cache[idx] = vals.pop()
        return cache[idx]

    def operand(self, o, env):
        if "const" in o:
            c = o["const"]
            if "int" in c:
                return const(c["int"])
            txt = c.get("txt") or ""
            if "::promoted[" in txt:
                try:
                    return self._promoted(int(txt.rsplit("::promoted[", 1)[1].split("]")[0]))
                except ValueError:
                    return TOP
            if c.get("fn"):
                return ("fn", c["fn"], c.get("fn_resolved"))
            if c.get("ty") == "()":
                return ("t", ())
            return TOP
        pl = o.get("copy") or o.get("move")
        if pl is None:
            return TOP
        return self.read(pl, env)

    # ----------------------------------------------------------------- rvalues
    def rvalue(self, rv, env):
        k = rv["k"]
        if k == "Use":
            return self.operand(rv["op"], env)
        if k in ("Ref", "RawPtr"):
            pl = rv["place"]
            if pl["p"] == ["*"]:
                v0 = env.get("_%d" % pl["l"])
                if isinstance(v0, tuple) and v0 and v0[0] in ("s", "strof"):
                    return v0  # reborrow of a symbolic reference is the same reference
            return ("r", self.key(rv["place"], env))
        if k == "CopyForDeref":
            return self.read(rv["place"], env)
        if k == "Aggregate":
            ops = tuple(self.operand(o, env) for o in rv["ops"])
            if rv["agg"] == "Tuple":
                return ("t", ops)
            if rv["agg"] == "Adt":
                return ("v", rv["variant"], ops)
            if rv["agg"] == "Closure":
                return ("closure", rv["closure"], ops)
            if rv["agg"] == "Array":
                return ("t", ops)
            return TOP
        if k == "Discriminant":
            v = self.read(rv["place"], env)
            vn = None
            if isinstance(v, tuple) and v and v[0] == "tag" and self.hooks.get("refine_tags"):
                kk = "@tag:%r" % (v[1],)
                known = env.get(kk)
                vs = [(dv, n) for dv, n in rv.get("variants", [])]
                if known and known[0] == "vn":
                    for dv, n in vs:
                        if n == known[1]:
                            return const(dv)
                if known and known[0] == "vs":
                    vs = [(dv, n) for dv, n in vs if n in known[1]]
                return ("disc", kk, tuple(vs), "tag")
            if is_variant(v):
                vn = v[1]
            else:
                tag = env.get(self.key(rv["place"], env) + ".#")
                if tag:
                    vn = tag[1]
            if vn is not None:
                for d, name in rv.get("variants", []):
                    if name == vn:
                        return const(d)
            return ("disc", self.key(rv["place"], env), tuple((d, n) for d, n in rv.get("variants", [])))
        if k == "BinaryOp":
            l = self.operand(rv["l"], env)
            r = self.operand(rv["r"], env)
            if isinstance(l, tuple) and isinstance(r, tuple) and l[0] == "c" and r[0] == "c":
                op = rv["op"]
                a, b = l[1], r[1]
                try:
                    if op == "Eq":
                        return const(1 if a == b else 0)
                    if op == "Ne":
                        return const(1 if a != b else 0)
                    if op == "Lt":
                        return const(1 if a < b else 0)
                    if op == "Le":
                        return const(1 if a <= b else 0)
                    if op == "Gt":
                        return const(1 if a > b else 0)
                    if op == "Ge":
                        return const(1 if a >= b else 0)
                    if op in ("BitAnd",):
                        return const(a & b)
                    if op in ("BitOr",):
                        return const(a | b)
                    if op in ("BitXor",):
                        return const(a ^ b)
                except TypeError:
                    return TOP
            return TOP
        if k == "UnaryOp":
            e = self.operand(rv["e"], env)
            if rv["op"] == "Not" and isinstance(e, tuple) and e[0] == "c" and rv.get("ety") == "bool":
                return const(0 if e[1] else 1)
            if rv["op"] == "Not" and isinstance(e, tuple) and e[0] == "pred":
                return ("pred", e[1], e[3], e[2])
            return TOP
        if k == "Cast":
            return self.operand(rv["op"], env) if rv["cast"] in ("IntToInt", "PointerCoercion", "Transmute") else TOP
        return TOP

    # ----------------------------------------------------------------- exploration
    def run(self):
        blocks = self.mir["blocks"]
        seen = {}
        work = [(0, dict(self.init_env), self.init_ts)]
        total = 0
        live = mirq.liveness(self.mir)
        while work:
            bi, env, ts = work.pop()
            lv = live[bi]
            env = {k: v for k, v in env.items() if k[0] == "@" or int(k[1:].split(".", 1)[0]) in lv}
            sig = (freeze(env), ts)
            s = seen.setdefault(bi, set())
            if sig in s:
                continue
            s.add(sig)
            total += 1
            if total > self.cap:
                raise StateCapExceeded("%s: more than %d abstract states" % (self.fn["path"], self.cap))
            b = blocks[bi]
            env = dict(env)
            dead = False
            for si, st in enumerate(b["stmts"]):
                if st["k"] == "Assign":
                    h = self.hooks.get("on_assign")
                    if h:
                        nts = h(self, env, ts, bi, st)
                        if nts is not None:
                            ts = nts[0]
                    v = self.rvalue(st["rv"], env)
                    self.write(st["place"], v, env)
                elif st["k"] == "SetDiscriminant":
                    self.write(st["place"], TOP, env)
                elif st["k"] == "StorageDead":
                    k0 = "_%d" % st["l"]
                    for kk in [x for x in env if x == k0 or x.startswith(k0 + ".")]:
                        del env[kk]
            t = b["term"]
            k = t["k"]
            if k == "Goto":
                work.append((t["target"], env, ts))
            elif k == "SwitchInt":
                d = self.operand(t["discr"], env)
                if isinstance(d, tuple) and d[0] == "c":
                    tgt = t["otherwise"]
                    for v, bb in t["targets"]:
                        if v == d[1]:
                            tgt = bb
                    work.append((tgt, env, ts))
                elif isinstance(d, tuple) and d[0] == "disc":
                    # refine the scrutinised place (or the tag knowledge of a symbol) on every edge
                    pk, variants = d[1], d[2]
                    is_tag = len(d) > 3 and d[3] == "tag"
                    names = dict(variants)
                    taken = set()
                    for v, bb in t["targets"]:
                        if is_tag and v not in names:
                            continue  # excluded by what is already known about this tag
                        e2 = dict(env)
                        if v in names:
                            if is_tag:
                                e2[pk] = ("vn", names[v])
                            else:
                                cur = self.read_key(pk, e2)
                                if not is_variant(cur, names[v]):
                                    e2[pk + ".#"] = ("vn", names[v])
                            taken.add(v)
                        work.append((bb, e2, ts))
                    rest = [n for dv, n in variants if dv not in taken]
                    if rest:
                        e2 = dict(env)
                        if is_tag:
                            e2[pk] = ("vn", rest[0]) if len(rest) == 1 else ("vs", frozenset(rest))
                        elif len(rest) == 1:
                            e2[pk + ".#"] = ("vn", rest[0])
                        work.append((t["otherwise"], e2, ts))
                elif isinstance(d, tuple) and d[0] == "pred":
                    _t, pk, pos, other = d
                    for v, bb in t["targets"]:
                        e2 = dict(env)
                        e2[pk + ".#"] = ("vn", other if v == 0 else pos)
                        work.append((bb, e2, ts))
                    e2 = dict(env)
                    if any(v == 0 for v, _bb in t["targets"]):
                        e2[pk + ".#"] = ("vn", pos)
                    work.append((t["otherwise"], e2, ts))
                else:
                    h = self.hooks.get("on_switch")
                    outs = h(self, env, ts, bi, t, d) if h else None
                    if outs is not None:
                        for bb, e2, ts2 in outs:
                            work.append((bb, e2, ts2))
                    else:
                        # an unknown integer / bool local that is branched on: on each edge it has the value of that edge
                        # (also the local it was copied from in this block: `_t = copy _flag; switchInt(move _t)`)
                        refine = []
                        dl = mirq.op_local(t["discr"])
                        if dl is not None and d is TOP:
                            refine.append("_%d" % dl)
                            for st in reversed(b["stmts"]):
                                if st["k"] == "Assign" and not st["place"]["p"] and st["place"]["l"] == dl:
                                    if st["rv"]["k"] == "Use":
                                        src = mirq.op_place(st["rv"]["op"])
                                        if src and not src["p"] and "copy" in st["rv"]["op"]:
                                            refine.append("_%d" % src["l"])
                                    break
                        taken = set()
                        for v, bb in t["targets"]:
                            e2 = dict(env)
                            for rk in refine:
                                if rk not in self.untracked:
                                    e2[rk] = const(v)
                            taken.add(v)
                            work.append((bb, e2, ts))
                        e2 = dict(env)
                        if t.get("dty") == "bool" and taken == {0}:
                            for rk in refine:
                                if rk not in self.untracked:
                                    e2[rk] = const(1)
                        work.append((t["otherwise"], e2, ts))
            elif k == "Call":
                h = self.hooks.get("on_call")
                outs = h(self, env, ts, bi, t) if h else None
                if outs is None:
                    outs = self.default_call(env, ts, t)
                for dv, ts2, env2 in outs:
                    e2 = dict(env2 if env2 is not None else env)
                    self.write(t["dest"], dv, e2)
                    if t["target"] is not None:
                        work.append((t["target"], e2, ts2))
            elif k in ("Drop", "Assert"):
                work.append((t["target"], env, ts))
            elif k == "Return":
                h = self.hooks.get("on_return")
                if h:
                    h(self, env, ts, bi)
                self.returns.append((env, ts, bi))
            else:
                pass  # Unreachable / Resume
        self.visited = total
        return self

    # ----------------------------------------------------------------- std models
    def default_call(self, env, ts, t):
        d = t.get("def") or ""
        args = [self.operand(a, env) for a in t["args"]]
        nm = last(d)
        a0 = args[0] if args else TOP
        if isinstance(a0, tuple) and a0 and a0[0] == "r":
            a0d = self.read_key(a0[1], env)
        else:
            a0d = a0
        if d == "core::ops::try_trait::Try::branch":
            if is_variant(a0, "Ok") or is_variant(a0, "Some"):
                return [(variant("Continue", a0[2][0] if a0[2] else TOP), ts, None)]
            if is_variant(a0, "Err"):
                return [(variant("Break", a0), ts, None)]
            if is_variant(a0, "None"):
                return [(variant("Break", a0), ts, None)]
            full = t.get("full", "")
            if "core::option::Option<" in full.split(" as ")[0]:
                return [(variant("Continue", TOP), ts, None), (variant("Break", variant("None")), ts, None)]
            return [(variant("Continue", TOP), ts, None), (variant("Break", variant("Err", TOP)), ts, None)]
        if d == "core::ops::try_trait::FromResidual::from_residual":
            if is_variant(a0):
                if a0[1] == "None":
                    return [(variant("None"), ts, None)]
                if a0[1] == "Err" and a0[2] and a0[2][0] == ("uns",):
                    return [(variant("Err", ("uns",)), ts, None)]  # error conversion keeps the error code
                return [(variant("Err", TOP), ts, None)]
            full = t.get("full", "")
            if "core::option::Option<" in full.split(" as ")[0]:
                return [(variant("None"), ts, None)]
            return [(variant("Err", TOP), ts, None)]
        if d == "core::clone::Clone::clone":
            return [(a0d, ts, None)]
        if d in ("core::convert::Into::into", "core::convert::From::from") and t.get("resolved") in (None, "<T as core::convert::From<T>>::from", "<T as core::convert::Into<U>>::into"):
            return [(a0, ts, None)]
        if d in ("core::result::Result::<T, E>::is_ok", "core::result::Result::<T, E>::is_err", "core::option::Option::<T>::is_some", "core::option::Option::<T>::is_none"):
            pos = {"is_ok": "Ok", "is_err": "Err", "is_some": "Some", "is_none": "None"}[nm]
            if is_variant(a0d):
                return [(const(1 if a0d[1] == pos else 0), ts, None)]
            rk = a0[1] if isinstance(a0, tuple) and a0 and a0[0] == "r" else None
            tag = env.get((rk or "?") + ".#")
            if tag:
                return [(const(1 if tag[1] == pos else 0), ts, None)]
            if rk:
                other = {"Ok": "Err", "Err": "Ok", "Some": "None", "None": "Some"}[pos]
                return [(("pred", rk, pos, other), ts, None)]
            return [(TOP, ts, None)]
        return [(TOP, ts, None)]
