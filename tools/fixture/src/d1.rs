//! D1 controls: a byte length used as a character count, and the correct twins.
pub fn ctl_take_bytes(input: &str, q: usize) -> String {
    let real_len = input.len() - q * 2;
    input.chars().skip(q).take(real_len).collect()
}

pub fn ctl_nth_bytes(input: &str) -> Option<char> {
    let n = input.len();
    input.chars().nth(n - 1)
}

pub fn ok_take_chars(input: &str, q: usize) -> String {
    let n = input.chars().count() - q * 2;
    input.chars().skip(q).take(n).collect()
}

pub fn ok_byte_slice(input: &str, q: usize) -> Option<&str> {
    input.get(q..input.len() - q)
}

pub struct CtlAccum {
    pub length: usize,
}
pub enum Cell {
    CharList(usize),
}
impl Cell {
    pub fn as_char_list_mut(&mut self) -> &mut usize {
        match self {
            Cell::CharList(n) => n,
        }
    }
}
impl CtlAccum {
    pub fn push_char(&mut self, c: char) {
        self.length += c.len_utf8();
    }
}
pub fn ctl_header_write_from_byte_accumulator(acc: CtlAccum, cell: &mut Cell) {
    let n = cell.as_char_list_mut();
    *n = acc.length;
}

pub struct OkAccum {
    pub count: usize,
}
impl OkAccum {
    pub fn push_char(&mut self, _c: char) {
        self.count += 1;
    }
}
pub fn ok_header_write_from_char_accumulator(acc: OkAccum, cell: &mut Cell) {
    let n = cell.as_char_list_mut();
    *n = acc.count;
}

/// D1b control: a character truncated to its low byte.
pub fn ctl_char_as_u8(c: char, out: &mut Vec<u8>) {
    out.push(c as u8);
}

/// D1b negative control: a constant ASCII escape and the UTF-8 encoding of a character.
pub fn ok_char_utf8(c: char, out: &mut Vec<u8>) {
    out.push('\n' as u8);
    let mut buf = [0u8; 4];
    out.extend_from_slice(c.encode_utf8(&mut buf).as_bytes());
}

/// the end of the content is computed from a character count and used as a byte offset
pub fn rev_ctl_count_as_offset(input: &str, quotes: usize) -> Option<&str> {
    let end = input.chars().count().checked_sub(quotes)?;
    input.get(quotes..end)
}

pub fn rev_ok_len_as_offset(input: &str, quotes: usize) -> Option<&str> {
    let end = input.len().checked_sub(quotes)?;
    input.get(quotes..end)
}
