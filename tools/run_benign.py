#!/usr/bin/env python3
"""tools/run_benign.py [ids...]: apply every behaviour-preserving refactor of benign/ to a scratch copy of /repo and run
every claimed property's rules on it.  A refactor keeps every property, so ANY finding the unchanged tree does not have is
a false alarm of the checker.  Exit 1 if there is one."""
import glob, json, os, sys, time
sys.path.insert(0, os.path.dirname(os.path.dirname(os.path.abspath(__file__))))
from concurrent.futures import ThreadPoolExecutor
from gcheck import facts, thorough
from gcheck.props import PROPS

only = set(sys.argv[1:])
root = os.path.join(os.path.dirname(os.path.dirname(os.path.abspath(__file__))), "benign")
dirs = [d for d in sorted(glob.glob(os.path.join(root, "*"))) if os.path.isfile(os.path.join(d, "patch.diff")) and (not only or os.path.basename(d) in only)]
F, _ = facts.load()
base_ctx = thorough.MiniCtx(F, facts.REPO)
claimed = [c["property_id"] for c in json.load(open(os.path.join(os.path.dirname(root), "MANIFEST.json")))["checks"]]
base = {p: set(thorough.finding_keys(base_ctx, PROPS[p]["rules"])) for p in claimed}

def one(d):
    return os.path.basename(d), thorough.run_patch_all(d, claimed, base)

bad = 0
t0 = time.time()
with ThreadPoolExecutor(max_workers=int(os.environ.get("JOBS", "4"))) as ex:
    for bid, res in ex.map(one, dirs):
        if res.get("error"):
            print("%-18s ERROR %s" % (bid, res["error"][:300])); bad += 1; continue
        n = sum(len(v) for v in res["new"].values())
        print("%-18s %s" % (bid, "silent" if not n else "FALSE ALARM(S): %d" % n))
        for p, ks in sorted(res["new"].items()):
            for k in ks:
                print("    %s %s" % (p, k[:230])); bad += 1
print("%.0fs" % (time.time() - t0))
sys.exit(1 if bad else 0)
