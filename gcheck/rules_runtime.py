"""Runtime rules over the abstract interpreter: A1 register-arity, A4 callback-once, A5 defer-arg-order,
G3 unsupported-escape, T4 truthiness-agreement."""
import json
import os

from .facts import VERIF, loc
from . import ai, rt, cg
from .ai import TOP, is_variant
from .hirq import last
from .report import RuleResult
from .rules_tables import spec, GDT, variants


def instruction_fns(F):
    _c, run = cg.entry_sets(F)
    return [p for p in run if not p.endswith("execute_current_instruction")]


def entry_args(n):
    """Symbolic arguments of an instruction function: `this`, then the instruction operand."""
    return [TOP] + [("s", "param", i) for i in range(2, n + 1)]


def _norm_d(d):
    return ["reset", d[1]] if isinstance(d, tuple) else d


def outcome_of(rv, ts):
    """(kind, d, v, f, jump) of a summary outcome."""
    d, v, f, ev, np = ts
    if is_variant(rv, "Err"):
        return ("err", d, v, f, None)
    jump = "any"
    if is_variant(rv, "Ok") and rv[2]:
        inner = rv[2][0]
        if is_variant(inner, "Some"):
            jump = "some"
        elif is_variant(inner, "None"):
            jump = "none"
    return ("ok", d, v, f, jump)


def get_model(ctx, refine_tags=False):
    key = "rtmodel:%s" % refine_tags
    if key not in ctx.memo:
        sp = spec("arity.json")
        ctx.memo[key] = rt.Model(ctx.F, trusted=sp["trusted"], refine_tags=refine_tags)
    return ctx.memo[key]


def rule_A1(ctx):
    F = ctx.F
    r = RuleResult("A1", "register-arity: on every Ok path of every instruction function the operand / value / frame stack deltas and the jump result are the constants of spec/arity.json")
    sp = spec("arity.json")
    model = get_model(ctx)
    fns = instruction_fns(F)
    r.floor("instruction functions", len(fns), 55)
    for p in sorted(fns):
        f = F.fns[p]
        name = f["name"]
        want = sp["functions"].get(name)
        if want is None:
            # an instruction function the spec does not know (a language extension): it must at least have ONE fixed effect
            try:
                outs = model.summary(p, entry_args(f["mir"]["argc"]), 0)
            except (ai.StateCapExceeded, rt.Unmodelled) as e:
                r.finding(p, "uninterpretable", loc(f["hir"]), "cannot interpret new instruction function `%s` (%s)" % (name, e))
                continue
            eff = set()
            for rv, ts in outs:
                kind, d, v, fd, jump = outcome_of(rv, ts)
                if kind == "ok":
                    eff.add((d, v, fd, jump))
            by_jump = {}
            for d, v, fd, jump in eff:
                by_jump.setdefault(jump, set()).add((d, v, fd))
            r.examine((p, "unspecified"), True, {"fn": name, "not_in_spec": True, "ok_effects": sorted(map(repr, eff))})
            if any(len(x) > 1 for x in by_jump.values()):
                r.finding(p, "arity:inconsistent", loc(f["hir"]), "`%s` (not in spec/arity.json) has Ok paths with different stack effects for the same jump result: %s" % (name, sorted(map(repr, eff))))
            else:
                r.info.append("`%s` is not in spec/arity.json (language extension): its Ok paths have one fixed effect per jump result %s" % (name, sorted(map(repr, eff))))
            continue
        if want == "n-ary":
            if p in sp["trusted"]:
                r.trusted.append("%s: %s" % (p, sp["trusted"][p]["reason"]))
                r.examine((p, "trusted"), False)
            continue
        nargs = f["mir"]["argc"]
        try:
            outs = model.summary(p, entry_args(nargs), 0)
        except ai.StateCapExceeded as e:
            r.finding(p, "state-cap", loc(f["hir"]), "abstract interpretation exceeded its state cap (%s): arity not shown, failing closed" % e)
            continue
        except rt.Unmodelled as e:
            r.finding(p, "unmodelled", loc(f["hir"]), "cannot interpret: %s (failing closed)" % e)
            continue
        allowed = [(o["d"] if not isinstance(o["d"], list) else ("reset", o["d"][1]), o["v"], o["f"], o["jump"]) for o in want]
        seen = set()
        for rv, ts in outs:
            kind, d, v, fdelta, jump = outcome_of(rv, ts)
            if kind == "err":
                continue
            key = (d, v, fdelta, jump)
            if key in seen:
                continue
            seen.add(key)
            ok = any(a[0] == d and a[1] == v and a[2] == fdelta and (a[3] == jump or a[3] == "any" or jump == "any") for a in allowed)
            r.examine((p, repr(key)), True, {"fn": name, "ok_outcome": {"d": _norm_d(d), "v": v, "f": fdelta, "jump": jump}, "allowed": ok})
            if not ok:
                r.finding(p, "arity:d=%s,v=%s,f=%s,jump=%s" % (_norm_d(d), v, fdelta, jump), loc(f["hir"]),
                          "`%s` can return Ok having changed the stacks by (operands %s, values %s, frames %s) with jump result %s; the instruction's fixed arity allows %s" % (
                              name, _norm_d(d), v, fdelta, jump, [{"d": _norm_d(a[0]), "v": a[1], "f": a[2], "jump": a[3]} for a in allowed]))
        if not seen:
            r.finding(p, "no-ok-path", loc(f["hir"]), "`%s` has no Ok-returning path" % name)
    for p in sorted(model.used_trusted):
        r.trusted.append("%s: %s" % (p, sp["trusted"][p]["reason"]))
    r.analysed["abstract_states"] = model.states
    r.analysed["summaries"] = len(model.memo)
    r.analysed["bounds"] = {"state_cap_per_function": model.cap}
    return r


# --------------------------------------------------------------------------------------- A4 / A5


def _events_of(ctx, model, p):
    F = ctx.F
    f = F.fns[p]
    outs = model.summary(p, entry_args(f["mir"]["argc"]), 0)
    return outs


def _sym(v):
    return isinstance(v, tuple) and len(v) == 3 and v[0] == "s" and v[1] == "pop"


def _fmt(v):
    if v is None:
        return "?"
    if _sym(v):
        return "pop%d" % v[2]
    if isinstance(v, tuple) and v and v[0] == "tag":
        return "type(%s)" % _fmt(v[1])
    if isinstance(v, tuple) and v and v[0] == "t":
        return "(" + ", ".join(_fmt(x) for x in v[1]) + ")"
    if isinstance(v, tuple) and v and v[0] == "v":
        return v[1]
    if isinstance(v, tuple) and v and v[0] == "get":
        return "%s(%s)" % (v[1], _fmt(v[2]))
    if isinstance(v, tuple) and v and v[0] == "s":
        return "%s%s" % (v[1], v[2])
    return str(v)


def rule_A4(ctx):
    F = ctx.F
    r = RuleResult("A4", "callback-once: on every path at most one host callback, with the documented arguments; resolve only after the input-value lookup produced nothing; apply exactly on the External arm")
    model = get_model(ctx)
    from .rules_tables import runtime_dispatch_table, INSTR

    rt_table = runtime_dispatch_table(F, r)
    al = _allow("callback_exceptions.json")
    n_defer_fns = 0
    n_paths = 0
    for p in sorted(instruction_fns(F)):
        f = F.fns[p]
        name = f["name"]
        if name == "make_list":
            continue
        try:
            outs = _events_of(ctx, model, p)
        except (ai.StateCapExceeded, rt.Unmodelled) as e:
            r.finding(p, "uninterpretable", loc(f["hir"]), "cannot interpret (%s): failing closed" % e)
            continue
        disp = set(last(i) for i, (fs, _l) in rt_table.items() if p in fs)
        kinds_seen = set()
        reported = set()
        for rv, ts in outs:
            ev = tuple(e for e in ts[3] if e[0] in ("defer", "resolve", "apply"))
            if not ev:
                continue
            n_paths += 1
            r.examine((p, ev), True, {"fn": name, "events": [[e[0]] + [_fmt(x) for x in e[1:-2]] + [e[-1]] for e in ev]} if len(kinds_seen) < 1 else None)
            for e in ev:
                kinds_seen.add(e[0])
            if len(ev) > 1 and "multi" not in reported:
                reported.add("multi")
                r.finding(p, "host-called-twice:" + "+".join(e[0] for e in ev), loc(f["hir"]), "a single execution of `%s` can call the host %d times (%s): each callback must be invoked at most once per occurrence" % (name, len(ev), ", ".join(e[0] for e in ev)))
            for e in ev:
                kind = e[0]
                at = e[-2]
                if kind == "defer":
                    op = e[1]
                    if is_variant(op):
                        if disp and op[1] not in disp and ("op", op[1]) not in reported:
                            reported.add(("op", op[1]))
                            r.finding(p, "defer-op:" + op[1], loc(f["hir"]), "`%s` offers the host operation %s but it is dispatched from %s" % (name, op[1], sorted(disp)))
                    elif "opq" not in reported:
                        reported.add("opq")
                        r.finding(p, "defer-op:unknown", loc(f["hir"]), "`%s` offers the host an operation id that is not a constant" % name)
                elif kind == "resolve":
                    if name != "resolve" and "rf" not in reported:
                        reported.add("rf")
                        r.finding(p, "resolve-outside-resolve", loc(f["hir"]), "the host's resolve callback is invoked from `%s`" % name)
                    want = ("get", "get_symbol", ("s", "param", 2))
                    if e[1] != want and "rs" not in reported:
                        reported.add("rs")
                        r.finding(p, "resolve-symbol", loc(f["hir"]), "host resolve is called with %s; it must be the symbol stored at the instruction's operand (%s)" % (_fmt(e[1]), _fmt(want)))
                    if at[1] != 0 and "rd" not in reported:
                        reported.add("rd")
                        r.finding(p, "resolve-after-push", loc(f["hir"]), "host resolve is called on a path that already pushed a result (depth %s): the input value must win and end the lookup" % at[1])
                elif kind == "apply":
                    ext, arg = e[1], e[2]
                    pops = at[2]
                    left = ("s", "pop", pops)  # the function operand is the last popped of the operands taken
                    # apply pops (argument, function); empty_apply pushes a unit argument first and then takes the same path
                    left, right = ("s", "pop", 2), ("s", "pop", 1)
                    if ext != ("get", "get_external", left) and "ae" not in reported:
                        reported.add("ae")
                        r.finding(p, "apply-external", loc(f["hir"]), "host apply receives %s; it must be the number of the external being applied (%s)" % (_fmt(ext), _fmt(("get", "get_external", left))))
                    if right is not None and arg != right and "aa" not in reported:
                        reported.add("aa")
                        r.finding(p, "apply-argument", loc(f["hir"]), "host apply receives argument %s; it must be the right operand (%s)" % (_fmt(arg), _fmt(right)))
        if "defer" in kinds_seen:
            n_defer_fns += 1
        # both forms of apply reach the host's apply callback for an external (`f <~ x` and the zero-argument `f~~`)
        if name in ("apply", "empty_apply") and outs and "apply" not in kinds_seen:
            r.finding(p, "external-never-applied:" + name, loc(f["hir"]), "no path through `%s` invokes the host's apply callback: applying an external this way never reaches the host (the operation is offered to defer_op or answered with unit instead)" % name)
    # unit without an offer: in a function that defers undefined combinations, a path that answers unit having neither asked the
    # host nor looked at / built any value decides "undefined" by the operand types alone - exactly the case the host must be
    # offered first.  Decided with a flags-only model (which of {unit pushed, host asked, value touched} happened on the path).
    mflags = rt.Model(F, trusted=spec("arity.json")["trusted"], refine_tags=False, flags_only=True)
    n_unit_paths = 0
    for p in sorted(instruction_fns(F)):
        f = F.fns[p]
        if f["name"] == "make_list":
            continue
        try:
            outs = mflags.summary(p, entry_args(f["mir"]["argc"]), 0)
        except (ai.StateCapExceeded, rt.Unmodelled) as e:
            continue  # reported above by the detailed model
        if not any("defer" in ts[3] for _rv, ts in outs):
            continue
        for rv, ts in outs:
            if is_variant(rv, "Ok") and "add_unit" in ts[3]:
                n_unit_paths += 1
        # a declined offer is answered with unit - the value unit, made by add_unit - and an accepted one is not
        no_unit = [ts for rv, ts in outs if is_variant(rv, "Ok") and "declined" in ts[3] and "accepted" not in ts[3] and "add_unit" not in ts[3] and "defer" in ts[3]]
        if no_unit:
            r.finding(p, "declined-without-unit", loc(f["hir"]), "a path through `%s` on which the host declined the operation returns Ok without having made the unit value (add_unit): whatever is pushed instead - e.g. the placeholder address offered to the host - is not unit on every data implementation" % f["name"])
        bad = [ts for rv, ts in outs if is_variant(rv, "Ok") and "add_unit" in ts[3] and "defer" not in ts[3] and "work" not in ts[3]]
        r.examine((p, "unit-paths"), True, None)
        if bad and p in al.get("unit_without_offer", {}):
            r.info.append("allow-listed unit-without-offer in %s: %s" % (p, al["unit_without_offer"][p]))
            continue
        if bad:
            r.finding(p, "unit-without-offer", loc(f["hir"]), "a path through `%s` pushes unit without offering the operands to the host (defer_op) and without having read or built any value: an operand combination is declared undefined by its types alone, which is the case the host must be asked about first" % f["name"])
    r.analysed["paths_answering_unit_in_deferring_functions"] = n_unit_paths
    # input value first: in resolve(), a successful lookup in the current input value ends the look-up
    rf = [p for p in instruction_fns(F) if F.fns[p]["name"] == "resolve"]
    if rf:
        p = rf[0]
        f = F.fns[p]
        m2 = rt.Model(F, trusted=spec("arity.json")["trusted"], refine_tags=False)
        m2.watch = {"get_access_addr": "input-lookup"}
        try:
            outs = m2.summary(p, entry_args(f["mir"]["argc"]), 0)
        except (ai.StateCapExceeded, rt.Unmodelled) as e:
            outs = []
            r.finding(p, "uninterpretable:lookup", loc(f["hir"]), "cannot interpret (%s)" % e)
        seen_lookup = False
        bad = set()
        for rv, ts in outs:
            ev = ts[3]
            looks = [e for e in ev if e[0] == "input-lookup"]
            if looks:
                seen_lookup = True
            found = any(e[1] == "Ok(Some)" for e in looks)
            hosts = [e for e in ev if e[0] == "resolve"]
            kind, d, v, fd, jump = outcome_of(rv, ts)
            r.examine((p, "lookup", tuple(e[1] for e in looks), len(hosts), kind), True,
                      {"fn": "resolve", "input_lookup": [e[1] for e in looks], "host_resolve_calls": len(hosts), "returns": kind, "d": d} if found else None)
            if found and hosts and "host" not in bad:
                bad.add("host")
                r.finding(p, "resolve-after-found", loc(f["hir"]), "the host's resolve callback can be invoked although the identifier was found in the current input value: the input value must win and end the look-up")
            if found and kind == "ok" and d != 1 and "d" not in bad:
                bad.add("d")
                r.finding(p, "found-not-pushed", loc(f["hir"]), "the identifier was found in the input value but the path returns Ok with operand delta %s instead of pushing it" % d)
        if not seen_lookup:
            r.finding(p, "no-input-lookup", loc(f["hir"]), "resolve() never looks the identifier up in the current input value (get_access_addr is not called)")
        # the input is consulted whatever its type: once get_current_value() answered Some, no path reaches the host's resolve
        # (or the unit answer) without having passed the lookup - must-pass-through on resolve()'s MIR
        from . import mirq
        mir = f["mir"]
        bl = mir["blocks"]
        asg = mirq.assignments(mir)
        looks_up = set([q for q, g_ in F.fns.items() if g_["crate"] == f["crate"] and any(b_["term"]["k"] == "Call" and last(b_["term"].get("def") or "") == "get_access_addr" for b_ in g_["mir"]["blocks"])])
        def is_lookup(bi_, b_):
            t_ = b_["term"]
            return t_["k"] == "Call" and (last(t_.get("def") or "") == "get_access_addr" or (t_.get("def") in looks_up) or (t_.get("resolved") in looks_up))
        def is_host(bi_, b_):
            t_ = b_["term"]
            return t_["k"] == "Call" and last(t_.get("def") or "") == "resolve" and "GarnishData" in (t_.get("def") or "")
        some_blocks = []
        for bi_, b_ in enumerate(bl):
            t_ = b_["term"]
            if b_["cleanup"] or t_["k"] != "SwitchInt":
                continue
            l_ = mirq.op_local(t_["discr"])
            for og in (mirq.origins(mir, l_, asg) if l_ is not None else []):
                if og[1] != "term" and og[2].get("k") == "Discriminant":
                    src = og[2]["place"]["l"]
                    if any(o2[1] == "term" and last(o2[2].get("def") or "") == "get_current_value" for o2 in mirq.origins(mir, src, asg)):
                        some_blocks.extend(tg for v, tg in t_["targets"] if v == 1)
                        if not any(v == 1 for v, _tg in t_["targets"]):
                            some_blocks.append(t_["otherwise"])
        r.examine((p, "lookup-for-every-input-type"), True, {"fn": "resolve", "some_input_blocks": len(some_blocks)})
        if not some_blocks:
            r.finding(p, "input-presence-test-not-found", loc(f["hir"]), "resolve() has no branch on get_current_value(): cannot show that an input value is consulted before the host")
        else:
            w = mirq.path_avoiding_to(mir, some_blocks, is_lookup, lambda bi_, b_: is_host(bi_, b_) and not is_lookup(bi_, b_))
            if w is not None:
                r.finding(p, "input-lookup-skipped", loc(bl[w[-1]]["term"]), "resolve() can reach the host's resolve callback with an input value present and without having looked the identifier up in it (for some input types the lookup is skipped): an input such as the single pair `:a = 5` then no longer resolves `a` - the identifier is offered to the host and evaluates to unit")
    r.floor("instruction functions that can defer to the host", n_defer_fns, 10)
    r.floor("paths with a host callback", n_paths, 20)
    # in resolve(): an accepted/declined host call is the only way past the input lookup without a push
    return r


def _allow(name):
    from .rules_numeric import allow

    return allow(name)


def rule_A5(ctx):
    F = ctx.F
    r = RuleResult("A5", "defer-arg-order: the host is offered (type, address) of the left operand then the right operand, in source order (left = the operand popped second)")
    model = get_model(ctx)
    al = _allow("callback_exceptions.json").get("A5", {})
    n = 0
    denoted_seen = set()
    fn_shapes = {}
    for p in sorted(instruction_fns(F)):
        f = F.fns[p]
        name = f["name"]
        if name == "make_list":
            continue
        try:
            outs = _events_of(ctx, model, p)
        except (ai.StateCapExceeded, rt.Unmodelled):
            continue  # reported by A4
        shapes = set()
        for rv, ts in outs:
            for e in ts[3]:
                if e[0] == "defer":
                    shapes.add((e[2], e[3], e[-2][2]))
        fn_shapes[name] = (p, len(shapes))
        for left, right, pops in sorted(shapes, key=repr):
            n += 1
            ok = True
            why = ""

            def pair(v):
                if isinstance(v, tuple) and v and v[0] == "t" and len(v[1]) == 2:
                    return v[1]
                return (None, None)

            lt, la = pair(left)
            rtag, ra = pair(right)
            if pops >= 2:
                want_l, want_r = ("s", "pop", 2), ("s", "pop", 1)
                if la != want_l or ra != want_r:
                    ok = False
                    why = "operand addresses are offered as (%s, %s); source order is (%s, %s)" % (_fmt(la), _fmt(ra), _fmt(want_l), _fmt(want_r))
            else:
                want_l = ("s", "pop", 1)
                if la != want_l:
                    ok = False
                    why = "the single operand must be offered as the left value, got %s" % _fmt(la)
                elif _sym(ra):
                    ok = False
                    why = "a unary operation offers a second popped operand"
            for tg, ad, side in ((lt, la, "left"), (rtag, ra, "right")):
                if ok and _sym(ad):
                    if tg != ("tag", ad):
                        if tg == ("get", "get_type", ad) and al.get(name, {}).get(side + "-type-denoted"):
                            r.info.append("%s: %s operand offered with the type it denotes: %s" % (name, side, al[name][side + "-type-denoted"]))
                            denoted_seen.add((name, side))
                            continue
                        ok = False
                        why = "the %s operand %s is offered with type %s instead of its own type" % (side, _fmt(ad), _fmt(tg))
            r.examine((p, repr((left, right))), True, {"fn": name, "left": _fmt(left), "right": _fmt(right), "ok": ok})
            if not ok:
                r.finding(p, "defer-args:%s|%s" % (_fmt(left), _fmt(right)), loc(f["hir"]), "`%s` offers the host defer_op(%s, %s): %s" % (name, _fmt(left), _fmt(right), why))
    r.floor("distinct defer_op argument shapes", n, 8)
    # the documented exception is two-sided: where the host is to be told the type a Type operand DENOTES (the cast target of
    # `value ~# #0` is Number, not Type), an offer that carries only the operand's own tag hides the target from the host
    for name_, sides in sorted(al.items()):
        for key_, why_ in sorted(sides.items()) if isinstance(sides, dict) else []:
            if not key_.endswith("-type-denoted"):
                continue
            side_ = key_[: -len("-type-denoted")]
            if name_ in fn_shapes and fn_shapes[name_][1] and (name_, side_) not in denoted_seen:
                r.finding(fn_shapes[name_][0], "denoted-type-not-offered:%s:%s" % (name_, side_), "-", "`%s` no longer offers the host the type its %s operand denotes (%s): the host is told the operand's own tag (Type) and cannot tell which cast was asked for" % (name_, side_, why_))
    # two-operand value constructors: the operand popped second is the left / first component
    right_first = spec("templates.json").get("right_first_runtime", {"make_pair": "Pair is emitted right operand first"})
    n_ctor = 0
    for p in sorted(instruction_fns(F)):
        f = F.fns[p]
        name = f["name"]
        if name == "make_list":
            continue
        try:
            outs = _events_of(ctx, model, p)
        except (ai.StateCapExceeded, rt.Unmodelled):
            continue
        shapes = set()
        for rv, ts in outs:
            for e in ts[3]:
                if e[0] == "ctor":
                    a = list(e[2:])
                    if len(a) == 1 and isinstance(a[0], tuple) and a[0] and a[0][0] == "t":
                        a = list(a[0][1])
                    if len(a) == 2 and _sym(a[0]) and _sym(a[1]):
                        shapes.add((e[1], a[0], a[1]))
        for ctor, a, b in sorted(shapes, key=repr):
            n_ctor += 1
            want = (("s", "pop", 1), ("s", "pop", 2)) if name in right_first else (("s", "pop", 2), ("s", "pop", 1))
            ok = (a, b) == want
            r.examine((p, ctor, repr((a, b))), True, {"fn": name, "constructor": ctor, "arguments": [_fmt(a), _fmt(b)], "ok": ok})
            if not ok:
                r.finding(p, "ctor-args:%s(%s,%s)" % (ctor, _fmt(a), _fmt(b)), loc(f["hir"]), "`%s` builds its result with %s(%s, %s); the left/first component must be %s and the right/second %s" % (name, ctor, _fmt(a), _fmt(b), _fmt(want[0]), _fmt(want[1])))
    r.floor("two-operand constructor calls on popped operands", n_ctor, 1)
    return r


# --------------------------------------------------------------------------------------- G3 / T4


def _tag_key(sym):
    return "@tag:%r" % (sym,)


def _is_uns_err(rv):
    return is_variant(rv, "Err") and rv[2] and rv[2][0] == ("uns",)


def rule_G3(ctx):
    """UnsupportedOpTypes never reaches the Err return of an instruction function, for any operand type pair."""
    F = ctx.F
    r = RuleResult("G3", "unsupported-escape: for every instruction function and every pair of operand types the 'unsupported operand types' error is absorbed (deferred to the host / unit), never returned")
    model = get_model(ctx, refine_tags=True)
    gdt = [last(v) for v in variants(F, GDT)]
    r.floor("GarnishDataType variants", len(gdt), 21)
    # where the error is constructed
    ctor = 0
    for f in F.fns.values():
        if f["crate"] not in ("garnish_lang_runtime", "garnish_lang_traits") or f["kind"] == "Closure":
            continue
        for b in f["mir"]["blocks"]:
            t = b["term"]
            if t["k"] == "Call" and last(t.get("def") or "") == "unsupported_types" and "RuntimeError" in t["def"] and not b["cleanup"]:
                ctor += 1
    r.floor("constructions of RuntimeError::unsupported_types()", ctor, 1)
    r.analysed["unsupported_types_constructions"] = ctor
    total_pairs = 0
    for p in sorted(instruction_fns(F)):
        f = F.fns[p]
        name = f["name"]
        if name == "make_list":
            continue
        # which functions can see the error at all (cheap pre-pass without tag facts)
        try:
            outs0 = model.summary(p, entry_args(f["mir"]["argc"]), 0)
        except (ai.StateCapExceeded, rt.Unmodelled) as e:
            r.finding(p, "uninterpretable", loc(f["hir"]), "cannot interpret (%s): failing closed" % e)
            continue
        may = any(_is_uns_err(rv) for rv, _ts in outs0)
        r.examine((p, "may-raise"), may, {"fn": name, "may_return_unsupported_without_type_facts": may})
        if not may:
            continue
        # enumerate operand type pairs
        escaping = []
        npops = max((ts[4] for _rv, ts in outs0), default=0)
        syms = [("s", "pop", 1), ("s", "pop", 2)][: max(1, min(2, npops))]
        import itertools

        for combo in itertools.product(gdt, repeat=len(syms)):
            facts = tuple(sorted((_tag_key(s), ("vn", v)) for s, v in zip(syms, combo)))
            try:
                outs = model.summary(p, entry_args(f["mir"]["argc"]), 0, facts)
            except (ai.StateCapExceeded, rt.Unmodelled) as e:
                r.finding(p, "uninterpretable", loc(f["hir"]), "cannot interpret under type facts (%s): failing closed" % e)
                break
            total_pairs += 1
            if any(_is_uns_err(rv) for rv, _ts in outs):
                escaping.append(combo)
        r.examined += len(gdt) ** len(syms)
        if escaping:
            # combo order: (type of pop1 = right operand, type of pop2 = left operand)
            if len(syms) == 2:
                pairs = sorted(set((c[1], c[0]) for c in escaping))
                lefts = sorted(set(l for l, _r in pairs))
                rights = sorted(set(rr for _l, rr in pairs))
                desc = "left in {%s} x right in {%s} (%d pairs)" % (", ".join(lefts), ", ".join(rights), len(pairs))
                inst = "escape:left={%s}|right={%s}" % (",".join(lefts), ",".join(rights))
            else:
                vals = sorted(set(c[0] for c in escaping))
                desc = "operand in {%s}" % ", ".join(vals)
                inst = "escape:operand={%s}" % ",".join(vals)
            r.finding(p, inst, loc(f["hir"]), "`%s` returns Err(UnsupportedOpTypes) for %s: an undefined operand combination makes execution fail instead of being offered to the host and yielding unit" % (name, desc))
    r.analysed["type_pair_contexts_interpreted"] = total_pairs
    r.analysed["abstract_states"] = model.states
    # control: the fixture has an escaping and an absorbing twin
    for p, f in F.fns.items():
        if p.startswith("gfixture::g3::") and f["kind"] != "Closure" and f.get("name", "").startswith(("ctl_", "ok_")):
            try:
                outs = model.summary(p, [TOP] * f["mir"]["argc"], 0)
                hit = any(_is_uns_err(rv) for rv, _ts in outs)
            except (ai.StateCapExceeded, rt.Unmodelled):
                hit = False
            if f["name"].startswith("ctl_"):
                r.control(f["name"], hit)
            else:
                r.neg_control(f["name"], not hit)
    return r


TESTING = {
    # fn -> (number of tested operands, how the verdict shows)
    "jump_if_true": (1, "jump"), "jump_if_false": (1, "jump"), "and": (1, "jump"), "or": (1, "jump"),
    "not": (1, "bool"), "tis": (1, "bool"), "xor": (2, "bool"),
}


def _verdict(outs, how):
    """Set of observable verdicts over the Ok outcomes."""
    vs = set()
    for rv, ts in outs:
        kind, d, v, f, jump = outcome_of(rv, ts)
        if kind != "ok":
            continue
        if how == "jump":
            if jump == "some":
                vs.add("jumps")
            else:
                # what the instruction leaves on the operand stack when it does not jump
                evs = [e[0] for e in ts[3] if e[0] in ("add_true", "add_false")]
                pushed = d - (-1)  # the tested operand was popped
                if pushed == 0:
                    vs.add("falls-through")
                elif pushed == 1 and evs in (["add_true"], ["add_false"]):
                    vs.add("falls-through:" + evs[0])
                else:
                    vs.add("falls-through:pushes-non-boolean")
        else:
            evs = [e[0] for e in ts[3] if e[0] in ("add_true", "add_false")]
            vs.add("/".join(evs) if evs else "no-boolean")
    return vs


def rule_T4(ctx):
    F = ctx.F
    r = RuleResult("T4", "truthiness-agreement: the seven testing instructions classify all 21 value types identically: exactly {False, Unit} are false")
    sp = spec("truthiness.json")
    falsy = set(sp["false"])
    model = get_model(ctx, refine_tags=True)
    gdt = [last(v) for v in variants(F, GDT)]
    r.floor("GarnishDataType variants", len(gdt), 21)
    found = 0
    table = {}
    for name, (n_ops, how) in TESTING.items():
        cands = [p for p in instruction_fns(F) if F.fns[p]["name"] == name]
        if not cands:
            r.anchor_missing("runtime fn " + name, "public instruction function not found")
            continue
        p = cands[0]
        f = F.fns[p]
        found += 1
        row = {}
        for tv in gdt:
            if n_ops == 1:
                facts = ((_tag_key(("s", "pop", 1)), ("vn", tv)),)
                try:
                    outs = model.summary(p, entry_args(f["mir"]["argc"]), 0, facts)
                except (ai.StateCapExceeded, rt.Unmodelled) as e:
                    r.finding(p, "uninterpretable", loc(f["hir"]), "cannot interpret (%s): failing closed" % e)
                    break
                vs = _verdict(outs, how)
                row[tv] = vs
                truthy = tv not in falsy
                want = sp["expect"][name]["truthy" if truthy else "falsy"]
                r.examine((name, tv), True, {"fn": name, "operand_type": tv, "verdict": sorted(vs), "expected": want} if tv in ("Unit", "Number") else None)
                if vs != {want}:
                    r.finding(p, "truth:%s:%s" % (name, tv), loc(f["hir"]), "`%s` on a value of type %s gives %s; with exactly {False, Unit} false it must be %s" % (name, tv, sorted(vs), want))
            else:
                for tv2 in gdt:
                    # pop1 = right operand, pop2 = left operand
                    facts = tuple(sorted([(_tag_key(("s", "pop", 1)), ("vn", tv2)), (_tag_key(("s", "pop", 2)), ("vn", tv))]))
                    try:
                        outs = model.summary(p, entry_args(f["mir"]["argc"]), 0, facts)
                    except (ai.StateCapExceeded, rt.Unmodelled) as e:
                        r.finding(p, "uninterpretable", loc(f["hir"]), "cannot interpret (%s): failing closed" % e)
                        break
                    vs = _verdict(outs, how)
                    lt, rt_ = tv not in falsy, tv2 not in falsy
                    want = "add_true" if lt != rt_ else "add_false"
                    r.examine((name, tv, tv2), True, {"fn": name, "left": tv, "right": tv2, "verdict": sorted(vs)} if (tv, tv2) == ("Unit", "Number") else None)
                    if vs != {want}:
                        r.finding(p, "truth:%s:%s,%s" % (name, tv, tv2), loc(f["hir"]), "`%s` on (%s, %s) gives %s; exclusive-or of the two truth values must be %s" % (name, tv, tv2, sorted(vs), want))
        table[name] = {k: sorted(v) for k, v in row.items()}
    r.floor("testing instruction functions", found, 7)
    r.analysed["tables"] = table
    r.analysed["abstract_states"] = model.states
    return r


# --------------------------------------------------------------------------------------- G3b
def offer_matrix(model, F, p, gdt):
    """For one instruction function: the operand type tuples (source order) for which some Ok outcome was produced without
    the host having been offered the operation.  None when the function never offers anything."""
    import itertools

    f = F.fns[p]
    outs = model.summary(p, entry_args(f["mir"]["argc"]) if f["crate"] != "gfixture" else [TOP] * f["mir"]["argc"], 0)
    if not any("defer" in ts[3] for _rv, ts in outs):
        return None, 0
    npops = max((ts[4] for _rv, ts in outs), default=0)
    syms = [("s", "pop", 1), ("s", "pop", 2)][: max(1, min(2, npops))]
    quiet = []
    n = 0
    for combo in itertools.product(gdt, repeat=len(syms)):
        fx = tuple(sorted((_tag_key(s), ("vn", v)) for s, v in zip(syms, combo)))
        o = model.summary(p, entry_args(f["mir"]["argc"]) if f["crate"] != "gfixture" else [TOP] * f["mir"]["argc"], 0, fx)
        n += 1
        if any(is_variant(rv, "Ok") and "defer" not in ts[3] for rv, ts in o):
            quiet.append(tuple(combo[::-1]))
    return quiet, n


_G3B_CTX = None


def _g3b_job(p):
    F, gdt = _G3B_CTX
    model = rt.Model(F, trusted=spec("arity.json")["trusted"], refine_tags=True, flags_only=True)
    try:
        quiet, n = offer_matrix(model, F, p, gdt)
        return ("ok", quiet, n, model.states)
    except (ai.StateCapExceeded, rt.Unmodelled) as e:
        return ("err", str(e))


def rule_G3b(ctx):
    """offer matrix: which operand type tuples an instruction answers without asking the host, against the language's table"""
    F = ctx.F
    r = RuleResult("G3b", "offer matrix: for every instruction that defers undefined operand combinations and every tuple of operand types, an Ok outcome without an offer to the host (defer_op) exists only for the tuples the language defines (spec/defined_operands.json)")
    sp = spec("defined_operands.json")
    model = rt.Model(F, trusted=spec("arity.json")["trusted"], refine_tags=True, flags_only=True)
    gdt = [last(v) for v in variants(F, GDT)]
    r.floor("GarnishDataType variants", len(gdt), 21)
    decided = 0
    tuples = 0
    todo = []
    for p in sorted(instruction_fns(F)):
        name = F.fns[p]["name"]
        if name == "make_list":
            continue
        if name in sp["not_decided"]:
            r.info.append("not decided for `%s`: %s" % (name, sp["not_decided"][name]))
            continue
        todo.append(p)
    global _G3B_CTX
    _G3B_CTX = (F, gdt)
    import multiprocessing, os
    results = None
    if os.environ.get("GCHECK_SERIAL") != "1":
        try:
            with multiprocessing.get_context("fork").Pool(min(12, os.cpu_count() or 4)) as pool:
                results = pool.map(_g3b_job, todo, chunksize=1)
        except Exception:
            results = None
    if results is None:
        results = [_g3b_job(p) for p in todo]
    for p, res in zip(todo, results):
        f = F.fns[p]
        name = f["name"]
        if res[0] == "err":
            r.finding(p, "uninterpretable", loc(f["hir"]), "cannot interpret `%s` under operand type facts (%s): failing closed" % (name, res[1]))
            continue
        quiet, n = res[1], res[2]
        if quiet is None:
            continue
        decided += 1
        tuples += n
        defined = set(tuple(t) for t in sp["defined"].get(name, []))
        if name not in sp["defined"]:
            r.finding(p, "no-table:%s" % name, loc(f["hir"]), "`%s` defers operand combinations to the host but spec/defined_operands.json has no row for it" % name)
            continue
        extra = sorted(set(quiet) - defined)
        r.examine((p,), True, {"fn": name, "type_tuples": n, "answered_without_offer": len(quiet), "defined": len(defined)})
        r.examined += max(n - 1, 0)
        if extra:
            lefts = sorted(set(t[0] for t in extra))
            rights = sorted(set(t[-1] for t in extra)) if len(extra[0]) > 1 else []
            inst = "not-offered:%s:%s" % (name, ";".join(",".join(t) for t in extra))
            r.finding(p, inst, loc(f["hir"]), "`%s` produces a result for operand types %s without offering the operation to the host: the language defines no result for %s, so the host's deferred-operation callback must be asked first (and unit answered only if it declines)" % (
                name, "; ".join("(" + ", ".join(t) + ")" for t in extra[:8]) + (" ..." if len(extra) > 8 else ""), "these" if len(extra) > 1 else "this combination"))
    r.floor("instruction functions with an offer matrix", decided, 19)
    r.analysed["type_tuples_interpreted"] = tuples
    r.analysed["abstract_states"] = sum(res[3] for res in results if res[0] == "ok")
    # controls: an access-like handler that answers unit for (CharList, Symbol) by itself / that lets it fall to the offer
    for p, f in F.fns.items():
        if p.startswith("gfixture::round3::g3b::") and f["kind"] != "Closure" and f.get("name", "").startswith(("ctl_", "ok_")):
            try:
                quiet, _n = offer_matrix(model, F, p, gdt)
                hit = bool(set(quiet or []) - {("List", "Symbol")})
            except (ai.StateCapExceeded, rt.Unmodelled):
                hit = False
            if f["name"].startswith("ctl_"):
                r.control(f["name"], hit)
            else:
                r.neg_control(f["name"], not hit)
    return r
