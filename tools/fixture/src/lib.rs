//! Positive controls for the gcheck rules: one deliberate violation of every rule whose
//! expected finding count on /repo is zero.  Analysed by the same driver on every run; a rule
//! that does not report its control makes the check fail as broken.
#![allow(dead_code, unused_variables)]
pub mod t1;
pub mod n1;
pub mod n2;
pub mod n3;
pub mod g1;
pub mod g2;
pub mod a3;
pub mod d1;
pub mod d2;
pub mod d3;
pub mod g4;
pub mod a2;
pub mod g3;
pub mod d5;
pub mod t14;
pub mod w2;
pub mod t11;
pub mod d6;
pub mod t15;
pub mod a8;
pub mod w3;
pub mod g5;
pub mod g6;
pub mod round3;
