#!/bin/sh
# tools/check_all.sh : run every claimed property's quick check, print one line each (uses GCHECK_REPO if set)
cd /verif
for p in $(python3 -c "import json;print(' '.join(c['property_id'] for c in json.load(open('MANIFEST.json'))['checks']))"); do
  out=$(./check $p 2>&1); rc=$?
  echo "$p exit=$rc $(echo "$out" | grep -c '^VIOLATION') violation(s) $(echo "$out" | grep -c '^BROKEN') broken"
  echo "$out" | grep "^finding:\|^BROKEN" | cut -c1-260 | head -6
done
