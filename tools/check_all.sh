#!/bin/sh
# tools/check_all.sh : run every claimed property's quick check, print one line each (uses GCHECK_REPO if set)
cd /verif
for p in $(python3 -c "import json;print(' '.join(c['property_id'] for c in json.load(open('MANIFEST.json'))['checks']))"); do
  out=$(./check $p 2>&1); rc=$?
  echo "$p exit=$rc $(echo "$out" | grep -c '^VIOLATION') violation(s) $(echo "$out" | grep -c '^BROKEN') broken"
  echo "$out" | grep "^finding:\|^BROKEN" | cut -c1-260 | head -6
done
# stale allowances (an allow-list entry larger than what the tree uses) are spare capacity a new site could hide in: trim them
python3 - <<'PY'
import json, glob
def find(o, out):
    if isinstance(o, dict):
        for v in o.values(): find(v, out)
    elif isinstance(o, list):
        for v in o: find(v, out)
    elif isinstance(o, str) and "allows" in o and "tree has" in o: out.add(o[:220])
out = set()
for p in glob.glob('/verif/evidence/C*.json'):
    find(json.load(open(p)), out)
for o in sorted(out): print("STALE-ALLOWANCE:", o)
PY
